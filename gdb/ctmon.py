# gdb Python monitor for C09 (constant-time comparison of submitted codes).
#   gdb -q -batch -ex "python CFG='<config.json>'" -x ctmon.py
# config.json (written by the Go harness):
#   binary, args[], out, symbols: [[addr,name],...] sorted (from `go tool nm`),
#   mode: "driver" (marked workload: operand watch + instruction counting) | "server" (operand watch only),
#   expected_codes: [..] (server mode), counted_prefixes: [...], primitives: {...}
# Two monitors:
#  (a) operand watch: every entry into an early-exit comparison primitive is inspected; while a
#      rejecting validation is open, an operand equal to the expected code is a violation witness.
#      crypto/subtle.ConstantTimeCompare entered with (submitted, expected) is the positive evidence.
#  (b) instruction-count differential: the validating thread is single-stepped between the markers
#      (scheduler-locking on), calls into non-counted functions are stepped over, and the number of
#      instructions executed in counted functions is reported per validation.
import gdb, json, bisect, os, sys, traceback

cfg = json.load(open(CFG))
OUT = cfg["out"]
SYMS = cfg["symbols"]
ADDRS = [s[0] for s in SYMS]
NAMES = [s[1] for s in SYMS]
BYNAME = {}
for a, n in SYMS:
    BYNAME.setdefault(n, a)

def func_at(pc):
    i = bisect.bisect_right(ADDRS, pc) - 1
    if i < 0:
        return ("?", 0)
    return (NAMES[i], ADDRS[i])

COUNTED = tuple(cfg["counted_prefixes"])
COUNTED_EXACT = set(cfg["counted_exact"])
EXCLUDED_EXACT = set(cfg.get("excluded_exact", []))
def counted(name):
    if name in EXCLUDED_EXACT:
        return False
    return name in COUNTED_EXACT or name.startswith(COUNTED)

result = {"watch": [], "count": [], "errors": [], "ctc_pairs": 0, "primitive_hits": 0, "server_flagged": [], "server_ctc_with_expected": 0, "markers_seen": 0}
state = {"open": False, "submitted": b"", "expected": b"", "id": -1, "cur": None}

inf = None
def rd(addr, n):
    if n <= 0 or n > 4096 or addr == 0:
        return b""
    try:
        return bytes(gdb.selected_inferior().read_memory(addr, n))
    except Exception:
        return b""

def reg(name):
    return int(gdb.selected_frame().read_register(name)) & 0xFFFFFFFFFFFFFFFF

def caller_name():
    try:
        ra = int.from_bytes(rd(reg("rsp"), 8), "little")
        return func_at(ra)[0]
    except Exception:
        return "?"

# operand extraction per primitive kind (Go ABIInternal on amd64: AX BX CX DI SI R8 R9 R10 R11)
def operands(kind):
    if kind == "mem3":      # memequal(p, q, size)
        n = reg("rcx")
        return rd(reg("rax"), n), rd(reg("rbx"), n)
    if kind == "str2":      # cmpstring(a, b string) / CompareString
        return rd(reg("rax"), reg("rbx")), rd(reg("rcx"), reg("rdi"))
    if kind == "slice2":    # Compare(a, b []byte) / ConstantTimeCompare(x, y []byte)
        return rd(reg("rax"), reg("rbx")), rd(reg("rdi"), reg("rsi"))
    if kind == "strptr2":   # strequal(p, q *string)
        def s(p):
            h = rd(p, 16)
            if len(h) != 16: return b""
            return rd(int.from_bytes(h[:8], "little"), int.from_bytes(h[8:], "little"))
        return s(reg("rax")), s(reg("rbx"))
    if kind == "varlen":    # memequal_varlen(p, q) with size in the closure context (DX)
        n = int.from_bytes(rd(reg("rdx") + 8, 8), "little")
        return rd(reg("rax"), n), rd(reg("rbx"), n)
    if kind == "index":     # Index*(a, b) string or slice forms: report both operands as haystack/needle
        return rd(reg("rax"), reg("rbx")), rd(reg("rcx"), reg("rdi"))
    return b"", b""

EXPECTED_SET = set(e.encode() for e in (cfg.get("expected_codes") or []))

class Prim(gdb.Breakpoint):
    def __init__(self, addr, name, kind, ct):
        super().__init__("*%d" % addr, internal=True)
        self.pname, self.kind, self.ct = name, kind, ct
    def stop(self):
        try:
            result["primitive_hits"] += 1
            a, b = operands(self.kind)
            if cfg["mode"] == "server":
                hit = (a in EXPECTED_SET) or (b in EXPECTED_SET)
                if hit:
                    if self.ct:
                        result["server_ctc_with_expected"] += 1
                    else:
                        result["server_flagged"].append({"primitive": self.pname, "caller": caller_name(), "a": a.decode("latin1"), "b": b.decode("latin1")})
                return False
            cur = state["cur"]
            if cur is None:
                return False
            exps, sub = state["expected_set"], state["submitted"]
            if self.ct:
                if (a == sub and b in exps) or (b == sub and a in exps):
                    cur["ctc_submitted_expected"] += 1
                return False
            if exps and sub not in exps and (a in exps or b in exps):
                cur["flagged"].append({"primitive": self.pname, "caller": caller_name(), "a": a.decode("latin1"), "b": b.decode("latin1")})
        except Exception as e:
            result["errors"].append("prim %s: %s" % (self.pname, e))
        return False

prims = []
def set_prims(enabled):
    for p in prims:
        p.enabled = enabled

class Begin(gdb.Breakpoint):
    def stop(self):
        try:
            result["markers_seen"] += 1
            sub = rd(reg("rax"), reg("rbx"))
            exp = rd(reg("rcx"), reg("rdi"))
            cnt = reg("rsi") & 0xFF
            cid = reg("r8")
            state.update(open=True, submitted=sub, expected=exp, id=cid, expected_set=set(x for x in exp.split(b",") if x))
            cur = {"id": cid, "ctc_submitted_expected": 0, "flagged": [], "ok": None}
            state["cur"] = cur
            if cnt:
                cur["count_mode"] = True
                return True   # hand control to the stepping loop
            set_prims(True)
        except Exception as e:
            result["errors"].append("begin: %s" % e)
        return False

class End(gdb.Breakpoint):
    def stop(self):
        try:
            set_prims(False)
            cur = state["cur"]
            if cur is not None and cur.get("count_mode"):
                return False  # reached by single-stepping: the stepping loop owns this record
            if cur is not None:
                cur["ok"] = bool(reg("rax") & 0xFF)
                result["watch"].append(cur)
            state["cur"] = None
            state["open"] = False
        except Exception as e:
            result["errors"].append("end: %s" % e)
        return False

def dump():
    try:
        with open(OUT, "w") as f:
            json.dump(result, f)
    except Exception as e:
        sys.stderr.write("dump failed: %s\n" % e)

END_ADDR = BYNAME.get("main.VerifMarkEnd", 0)

def step_region():
    """single-step from the begin marker to the end marker, counting instructions in counted functions"""
    cur = state["cur"]
    by = {}
    total = 0
    steps = 0
    gdb.execute("set scheduler-locking on")
    try:
        while True:
            gdb.execute("stepi", to_string=True)
            steps += 1
            pc = reg("rip")
            if pc == END_ADDR:
                break
            name, start = func_at(pc)
            if counted(name):
                total += 1
                by[name] = by.get(name, 0) + 1
                continue
            if pc == start:
                # entered a non-counted function: run to its return address
                ra = int.from_bytes(rd(reg("rsp"), 8), "little")
                bp = gdb.Breakpoint("*%d" % ra, internal=True, temporary=True)
                gdb.execute("continue", to_string=True)
                if bp.is_valid():
                    bp.delete()
                pc2 = reg("rip")
                if pc2 == END_ADDR:
                    break
                continue
            # inside a non-counted function (e.g. returned into it): keep stepping without counting
            if steps > 3000000:
                raise RuntimeError("step budget exceeded")
    finally:
        gdb.execute("set scheduler-locking off")
    cur["total"] = total
    cur["by_func"] = by
    cur["steps"] = steps
    cur["ok"] = None
    result["count"].append(cur)
    state["cur"] = None

def main():
    gdb.execute("set pagination off")
    gdb.execute("set confirm off")
    gdb.execute("set print thread-events off")
    gdb.execute("handle SIGURG nostop noprint pass")
    gdb.execute("handle SIGPIPE nostop noprint pass")
    gdb.execute("handle SIGTERM nostop noprint pass")
    gdb.execute("set startup-with-shell off")
    gdb.execute("file " + cfg["binary"])
    args = " ".join(cfg["args"])
    gdb.execute("set args " + args)
    for k, v in cfg.get("env", {}).items():
        gdb.execute("set environment %s %s" % (k, v))
    for name, kind in cfg["primitives"].items():
        a = BYNAME.get(name)
        if a is None:
            continue
        ct = "ConstantTimeCompare" in name
        prims.append(Prim(a, name, kind, ct))
    result["primitives_set"] = [p.pname for p in prims]
    if cfg["mode"] == "driver":
        set_prims(False)
        if "main.VerifMarkBegin" not in BYNAME or not END_ADDR:
            result["errors"].append("marker symbols not found")
            dump()
            return
        Begin("*%d" % BYNAME["main.VerifMarkBegin"], internal=True)
        End("*%d" % END_ADDR, internal=True)
    gdb.execute("run")
    # the inferior is now stopped (count-mode marker) or has exited
    while True:
        try:
            th = gdb.selected_thread()
        except Exception:
            th = None
        if th is None or not th.is_valid() or gdb.selected_inferior().pid == 0:
            break
        cur = state["cur"]
        if cur is not None and cur.get("count_mode"):
            step_region()
            # at END_ADDR now (breakpoint there has not fired for this arrival): continue
            gdb.execute("continue")
        else:
            # stopped for some other reason (signal): keep going
            gdb.execute("continue")
    dump()

try:
    main()
except gdb.error as e:
    # "The program is not being run." after exit is the normal way out of the loop
    if "not being run" not in str(e):
        result["errors"].append("gdb.error: %s" % e)
    dump()
except Exception as e:
    result["errors"].append("exception: %s\n%s" % (e, traceback.format_exc()))
    dump()
