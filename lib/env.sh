# sourced by every script in /verif/bin. Resolves the Go toolchain and pins offline settings.
VERIF_ROOT=${VERIF_ROOT:-$(cd "$(dirname "${BASH_SOURCE[0]}")/.." && pwd)}
REPO=${VERIF_REPO:-/repo}
_modcache=${GOMODCACHE:-/root/go/pkg/mod}
GO_BIN=""
for cand in "$_modcache/golang.org/toolchain@v0.0.1-go1.24.0.linux-amd64/bin/go" /opt/veriftools/go1.26.8/bin/go; do
  if [ -x "$cand" ]; then GO_BIN=$cand; break; fi
done
if [ -z "$GO_BIN" ]; then echo "INCONCLUSIVE no usable Go toolchain found" >&2; exit 2; fi
export GO_BIN
export GOROOT_VERIF=$(dirname "$(dirname "$GO_BIN")")
export PATH="$(dirname "$GO_BIN"):$PATH"
unset GOROOT
export GOTOOLCHAIN=local GOPROXY=off GOSUMDB=off GONOSUMDB='*' GONOSUMCHECK=1 GOFLAGS= GOWORK=
export GOMODCACHE=$_modcache
export CGO_ENABLED=${CGO_ENABLED:-1}
export VERIF_SEED=${VERIF_SEED:-1}
export VERIF_ROOT REPO VERIF_REPO=$REPO
