# build helpers, sourced by bin/check after env.sh. $S is the scratch directory.
HOOKS=off
build_harness() { # build_harness <out> [go build flags...]
  local out=$1; shift
  if (cd "$VERIF_ROOT/harness" && GOWORK=off "$GO_BIN" build -tags verif "$@" -o "$out" ./cmd/check) 2>"$S/build.err"; then
    HOOKS=on; return 0
  fi
  # the verif-tagged accessors may no longer compile after a refactor: fall back to black-box only
  if (cd "$VERIF_ROOT/harness" && GOWORK=off "$GO_BIN" build "$@" -o "$out" ./cmd/check) 2>>"$S/build.err"; then
    HOOKS=off; echo "NOTE harness built without verif hooks (tagged build failed)"; return 0
  fi
  cat "$S/build.err" >&2
  return 1
}
prepare_default() { build_harness "$S/check" && CHECK_BIN=$S/check; }
