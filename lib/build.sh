# build helpers, sourced by bin/check after env.sh. $S is the scratch directory.
HOOKS=off
# VERIF_OVERLAY: a go build -overlay file used only by the sensitivity self-test (seeded breaks as file replacements)
OVL=${VERIF_OVERLAY:+-overlay=$VERIF_OVERLAY}
build_harness() { # build_harness <out> [go build flags...]
  local out=$1; shift
  # VERIF_HARNESS_RACE=1: the monitors themselves under the race detector (a check of the machinery, not of /repo)
  if [ -n "${VERIF_HARNESS_RACE:-}" ]; then set -- -race "$@"; fi
  if (cd "$VERIF_ROOT/harness" && GOWORK=off "$GO_BIN" build $OVL -tags verif "$@" -o "$out" ./cmd/check) 2>"$S/build.err"; then
    HOOKS=on; return 0
  fi
  # the verif-tagged accessors may no longer compile after a refactor: fall back to black-box only
  if (cd "$VERIF_ROOT/harness" && GOWORK=off "$GO_BIN" build $OVL "$@" -o "$out" ./cmd/check) 2>>"$S/build.err"; then
    HOOKS=off; echo "NOTE harness built without verif hooks (tagged build failed)"; return 0
  fi
  cat "$S/build.err" >&2
  return 1
}
prepare_default() { build_harness "$S/check" && CHECK_BIN=$S/check; }

build_race() { build_harness "$S/check.race" -race && export VERIF_RACE_BIN=$S/check.race; }
build_asan() { # optional: failure is not fatal, the part is reported inconclusive by the driver
  (cd "$VERIF_ROOT/harness" && GOWORK=off CGO_ENABLED=1 "$GO_BIN" build $OVL -tags verif -asan -o "$S/check.asan" ./cmd/check) 2>>"$S/build.err" && export VERIF_ASAN_BIN=$S/check.asan
  return 0
}
prepare_C08() { prepare_default && build_race; }
prepare_C10() {
  prepare_binding && export VERIF_PLAIN_BIN=$CHECK_BIN && build_race || return 1
  if [ "$MODE" = thorough ]; then build_asan; fi
}
prepare_C11() {
  prepare_default && build_race || return 1
  if [ "$MODE" = thorough ]; then build_asan; fi
}
prepare_C12() {
  prepare_default || return 1
  if [ "$MODE" = thorough ]; then build_race; build_asan; fi
}

build_server() { # build_server <out> [flags]: the real REST binary from the working tree (workspace mode links the working-tree library)
  local out=$1; shift
  (cd "$REPO/internal/app" && GOFLAGS= "$GO_BIN" build $OVL "$@" -o "$out" ./cmd) 2>>"$S/build.err" || { cat "$S/build.err" >&2; return 1; }
}
prepare_C18() {
  prepare_default && build_server "$S/server" && export VERIF_SERVER_BIN=$S/server || return 1
  if [ "$MODE" = thorough ]; then build_server "$S/server.race" -race && export VERIF_SERVER_RACE_BIN=$S/server.race; fi
  return 0
}
prepare_C19() { prepare_C18; }

build_wasm() { # fresh otp.wasm + scratch copy of the JS package
  mkdir -p "$S/otp-js/src" "$S/otp-js/lib" || return 1
  cp "$REPO/otp-js/src/index.js" "$S/otp-js/src/" || return 1
  if [ -f "$GOROOT_VERIF/lib/wasm/wasm_exec.js" ]; then cp "$GOROOT_VERIF/lib/wasm/wasm_exec.js" "$S/otp-js/src/wasm_exec.js"
  elif [ -f "$GOROOT_VERIF/misc/wasm/wasm_exec.js" ]; then cp "$GOROOT_VERIF/misc/wasm/wasm_exec.js" "$S/otp-js/src/wasm_exec.js"
  else cp "$REPO/otp-js/src/wasm_exec.js" "$S/otp-js/src/wasm_exec.js"; fi
  if [ -n "${VERIF_OVERLAY:-}" ] && grep -q 'otp-js/src/index.js' "$VERIF_OVERLAY"; then
    cp "$(python3 -c "import json,sys;print(json.load(open('$VERIF_OVERLAY'))['Replace']['$REPO/otp-js/src/index.js'])")" "$S/otp-js/src/index.js"
  fi
  (cd "$REPO" && GOFLAGS= GOOS=js GOARCH=wasm "$GO_BIN" build $OVL -o "$S/otp-js/lib/otp.wasm" ./wasm) 2>>"$S/build.err" || { cat "$S/build.err" >&2; return 1; }
  export VERIF_JS_DIR=$S/otp-js VERIF_JS_DRIVER=$VERIF_ROOT/js/driver.js
  # the package as committed: its own wasm_exec.js and the committed lib/otp.wasm (index.js as above)
  if [ -f "$REPO/otp-js/lib/otp.wasm" ] && mkdir -p "$S/otp-js-committed/src" "$S/otp-js-committed/lib" && \
     cp "$S/otp-js/src/index.js" "$S/otp-js-committed/src/index.js" && cp "$REPO/otp-js/src/wasm_exec.js" "$S/otp-js-committed/src/wasm_exec.js" && \
     cp "$REPO/otp-js/lib/otp.wasm" "$S/otp-js-committed/lib/otp.wasm"; then export VERIF_JS_COMMITTED_DIR=$S/otp-js-committed; fi
  return 0
}
build_wasmnative() { # the binding's Go sources compiled natively through an overlay (optional: failure => sub-checks inconclusive)
  REPO=$REPO VERIF_ROOT=$VERIF_ROOT python3 "$VERIF_ROOT/tools/mkwasmnative.py" "$S/wn" 2>>"$S/build.err" || return 0
  (cd "$REPO" && GOFLAGS= "$GO_BIN" build -overlay="$S/wn/overlay.json" -tags verif_wasmnative "$@" -o "$S/wasmnative" ./wasm) 2>>"$S/build.err" && export VERIF_WASMNATIVE_BIN=$S/wasmnative
  return 0
}
prepare_C20() { prepare_default && build_wasm && build_wasmnative; }

prepare_C09() {
  prepare_default || return 1
  export GO_BIN
  (cd "$VERIF_ROOT/harness" && GOWORK=off "$GO_BIN" build $OVL -gcflags=all=-l -o "$S/ctdriver" ./cmd/ctdriver) 2>>"$S/build.err" && export VERIF_CTDRIVER_BIN=$S/ctdriver || { cat "$S/build.err" >&2; return 1; }
  # optional targets: failure => that target is reported inconclusive
  REPO=$REPO VERIF_ROOT=$VERIF_ROOT python3 "$VERIF_ROOT/tools/mkwasmnative.py" "$S/wn" 2>>"$S/build.err" && \
    (cd "$REPO" && GOFLAGS= "$GO_BIN" build -overlay="$S/wn/overlay.json" -tags verif_wasmnative -gcflags=all=-l -o "$S/wasmnative.noinline" ./wasm) 2>>"$S/build.err" && export VERIF_WASMNATIVE_NOINLINE_BIN=$S/wasmnative.noinline
  build_server "$S/server.noinline" -gcflags=all=-l 2>/dev/null && export VERIF_SERVER_NOINLINE_BIN=$S/server.noinline
  return 0
}

# harness built with the overlay that compiles the js/wasm Go sources natively (falls back to the plain harness)
prepare_binding() {
  if REPO=$REPO VERIF_ROOT=$VERIF_ROOT python3 "$VERIF_ROOT/tools/mkwasmnative.py" "$S/wn" 2>>"$S/build.err" && \
     (cd "$VERIF_ROOT/harness" && GOWORK=off "$GO_BIN" build -overlay="$S/wn/overlay.json" -tags verif,verif_wasmnative -o "$S/check" ./cmd/check) 2>>"$S/build.err"; then
    CHECK_BIN=$S/check; HOOKS=on; return 0
  fi
  prepare_default
}
prepare_C01() { prepare_binding; }
prepare_C13() { prepare_binding; }

# reduced differential built for a 32-bit target (GOARCH=386, runs on this amd64 kernel); optional: failure => that part is inconclusive
build_arch386() {
  (cd "$VERIF_ROOT/harness" && GOWORK=off CGO_ENABLED=0 GOARCH=386 "$GO_BIN" build $OVL -tags verif -o "$S/arch386" ./cmd/arch386) 2>>"$S/build.err" && export VERIF_ARCH386_BIN=$S/arch386
  return 0
}
prepare_C01() { prepare_binding && build_arch386; }
prepare_C02() { prepare_default && build_arch386; }
prepare_C15() { prepare_default && build_arch386; }
prepare_C16() { prepare_default && build_arch386; }
prepare_C17() { prepare_default && build_arch386; }

# optional br/zstd decoder for C19's documentation-asset monitor (built from the REST module's own dependencies in the
# module cache); when it cannot be built the monitor counts responses in those encodings without judging them
build_decoders() {
  (cd "$VERIF_ROOT/decoders" && GOWORK=off GOFLAGS=-mod=mod "$GO_BIN" build -o "$S/decode" .) 2>>"$S/build.err" && export VERIF_DECODE_BIN=$S/decode || echo "NOTE br/zstd decoder not built: responses in these encodings are counted, not judged"
  return 0
}
prepare_C19() { prepare_C18 && build_decoders; }
