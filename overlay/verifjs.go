// Package verifjs is a native stand-in for syscall/js, supplied ONLY through a build
// overlay by /verif's checks so that wasm/main.go can be compiled and driven natively
// (differential testing and debugger-based monitoring). It is never written into /repo.
package verifjs

import (
	"fmt"
	"math"
)

type Type int

const (
	TypeUndefined Type = iota
	TypeNull
	TypeBoolean
	TypeNumber
	TypeString
	TypeSymbol
	TypeObject
	TypeFunction
)

func (t Type) String() string {
	switch t {
	case TypeUndefined:
		return "undefined"
	case TypeNull:
		return "null"
	case TypeBoolean:
		return "boolean"
	case TypeNumber:
		return "number"
	case TypeString:
		return "string"
	case TypeSymbol:
		return "symbol"
	case TypeObject:
		return "object"
	case TypeFunction:
		return "function"
	}
	return "bad type"
}

type Value struct {
	T  Type
	S  string
	F  float64
	B  bool
	Fn func(this Value, args []Value) any
}

func (v Value) Type() Type { return v.T }
func (v Value) String() string {
	if v.T == TypeString {
		return v.S
	}
	return "<" + v.T.String() + ">"
}

// Int mirrors js.Value.Int on js/wasm for finite in-range numbers (truncation).
func (v Value) Int() int {
	if v.T != TypeNumber {
		panic("syscall/js: call of Value.Int on " + v.T.String())
	}
	// Go on js/wasm (like amd64) yields the minimum integer for NaN and out-of-range values
	if math.IsNaN(v.F) || v.F >= 9.2233720368547758e18 || v.F <= -9.2233720368547758e18 {
		return math.MinInt64
	}
	return int(v.F)
}
func (v Value) Float() float64 {
	if v.T != TypeNumber {
		panic("syscall/js: call of Value.Float on " + v.T.String())
	}
	return v.F
}
func (v Value) Bool() bool {
	if v.T != TypeBoolean {
		panic("syscall/js: call of Value.Bool on " + v.T.String())
	}
	return v.B
}
func (v Value) IsNaN() bool       { return v.T == TypeNumber && math.IsNaN(v.F) }
func (v Value) IsUndefined() bool { return v.T == TypeUndefined }
func (v Value) IsNull() bool      { return v.T == TypeNull }

var globals = map[string]Value{}

type global struct{}

func (global) Set(name string, x any) { globals[name] = ValueOf(x) }
func (global) Get(name string) Value  { return globals[name] }

func Global() global { return global{} }

type Func struct{ Value }

func (f Func) Release() {}

func FuncOf(fn func(this Value, args []Value) any) Func {
	return Func{Value{T: TypeFunction, Fn: fn}}
}

func Undefined() Value { return Value{T: TypeUndefined} }
func Null() Value      { return Value{T: TypeNull} }

func ValueOf(x any) Value {
	switch v := x.(type) {
	case Value:
		return v
	case Func:
		return v.Value
	case nil:
		return Null()
	case bool:
		return Value{T: TypeBoolean, B: v}
	case string:
		return Value{T: TypeString, S: v}
	case int:
		return Value{T: TypeNumber, F: float64(v)}
	case int64:
		return Value{T: TypeNumber, F: float64(v)}
	case uint64:
		return Value{T: TypeNumber, F: float64(v)}
	case float64:
		return Value{T: TypeNumber, F: v}
	case []any, map[string]any:
		return Value{T: TypeObject}
	}
	panic(fmt.Sprintf("verifjs.ValueOf: unsupported %T", x))
}

// Call invokes a registered global function the way JavaScript would.
func Call(name string, args []Value) (res Value, ok bool) {
	f, found := globals[name]
	if !found || f.T != TypeFunction {
		return Value{}, false
	}
	return ValueOf(f.Fn(Undefined(), args)), true
}
