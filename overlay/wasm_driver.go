//go:build verif_wasmnative

package main

// Native driver for the wasm binding's handlers, supplied through a build overlay by /verif.
// Reads a JSON case list (file named by argv[1]), calls the registered functions and writes
// the results (argv[2]). Each call is bracketed by the no-inline markers the gdb monitor uses.

import (
	"encoding/json"
	"fmt"
	"math"
	"os"

	js "github.com/ja7ad/otp/internal/verifjs"
)

type jsArg struct {
	T string  `json:"t"` // s string, n number, u undefined, null, b bool, o object, a array, nan, inf, ninf
	S string  `json:"s,omitempty"`
	N float64 `json:"n,omitempty"`
	B bool    `json:"b,omitempty"`
}

type jsCase struct {
	ID       int     `json:"id"`
	Fn       string  `json:"fn"`
	Args     []jsArg `json:"args"`
	Expected string  `json:"expected,omitempty"` // for the debugger monitor only
	Submit   string  `json:"submitted,omitempty"`
	Count    bool    `json:"count,omitempty"`
}

type jsResult struct {
	ID     int    `json:"id"`
	T      string `json:"t"` // s | b | other | thrown | missing
	S      string `json:"s,omitempty"`
	B      bool   `json:"b,omitempty"`
	Thrown string `json:"thrown,omitempty"`
}

//go:noinline
func VerifMarkBegin(submitted, expected string, count bool, id int) {}

//go:noinline
func VerifMarkEnd(ok bool) {}

// verifSettle: see harness/cmd/ctdriver (absorbs a pending cooperative pre-emption request
// before the measured call; stepped over by the gdb monitor).
//
//go:noinline
func verifSettle(n int) int {
	var pad [256]byte
	pad[n&255] = byte(n)
	return verifSettle2(int(pad[(n+1)&255])) + int(pad[n&255])
}

//go:noinline
func verifSettle2(n int) int { return n + 1 }

var sink int

func toValue(a jsArg) js.Value {
	switch a.T {
	case "s":
		return js.ValueOf(a.S)
	case "n":
		return js.ValueOf(a.N)
	case "b":
		return js.ValueOf(a.B)
	case "null":
		return js.Null()
	case "o", "a":
		return js.Value{T: js.TypeObject}
	case "nan":
		return js.ValueOf(math.NaN())
	case "inf":
		return js.ValueOf(math.Inf(1))
	case "ninf":
		return js.ValueOf(math.Inf(-1))
	}
	return js.Undefined()
}

func main() {
	if len(os.Args) < 3 {
		fmt.Fprintln(os.Stderr, "usage: wasmnative cases.json results.json")
		os.Exit(2)
	}
	registerFunctions()
	b, err := os.ReadFile(os.Args[1])
	if err != nil {
		os.Exit(2)
	}
	var cases []jsCase
	if err := json.Unmarshal(b, &cases); err != nil {
		os.Exit(2)
	}
	out := make([]jsResult, 0, len(cases))
	for _, c := range cases {
		args := make([]js.Value, len(c.Args))
		for i, a := range c.Args {
			args[i] = toValue(a)
		}
		r := jsResult{ID: c.ID}
		func() {
			defer func() {
				if x := recover(); x != nil {
					r.T, r.Thrown = "thrown", fmt.Sprint(x)
				}
			}()
			VerifMarkBegin(c.Submit, c.Expected, c.Count, c.ID)
			sink += verifSettle(c.ID)
			v, ok := js.Call(c.Fn, args)
			VerifMarkEnd(ok && v.T == js.TypeBoolean && v.B)
			switch {
			case !ok:
				r.T = "missing"
			case v.T == js.TypeString:
				r.T, r.S = "s", v.S
			case v.T == js.TypeBoolean:
				r.T, r.B = "b", v.B
			default:
				r.T = "other"
			}
		}()
		out = append(out, r)
	}
	ob, _ := json.Marshal(out)
	if err := os.WriteFile(os.Args[2], ob, 0o644); err != nil {
		os.Exit(2)
	}
}
