#!/usr/bin/env python3
"""Regenerates /verif/MANIFEST.json from the table below (kept here so the manifest stays valid at all times)."""
import json, os, subprocess
ROOT = os.path.dirname(os.path.dirname(os.path.abspath(__file__)))

TB = "Trusted base: Go toolchain/runtime, stdlib SHA-1/256/512 compression functions, math/big, the RFC vectors typed into harness/ref (self-tested at every start). Only executions produced are judged: 'held on K executions', never 'verified'."

CHECKS = {
 "C01": dict(
  technique="runtime reference-model monitor at the API boundary + HMAC-constructor hook (observes key/message, substitutes the digest to drive the formatting stage)",
  text="Every GenerateHOTP execution of a seeded boundary/random workload is compared byte-for-byte with an independent RFC 4226 model (own HMAC, big-integer modulus); unsupported digits/hash values must yield an error; Param fields generation does not use (Skew, Period) take arbitrary values; through the verif hook the monitor also observes the exact (key, message) of the HMAC and pushes chosen 31-bit values through the real truncation/modulus/formatting code. One-goroutine histories (field-shifted neighbours, keys differing in one byte, adjacent-counter walks, counters that agree with a base counter in their low or high b bits for every b) and the js/wasm build's own copy of the derivation (compiled natively through an overlay) are judged by the same oracle. Exploration, not enumeration of 2^64 counters or 2^31 values. A reduced version of the differential also runs compiled for a 32-bit target (GOARCH=386, cmd/arch386). Neighbour keys include the key followed by zero bytes and zero-padded to block widths, under every hash.",
  design="7/C01"),
 "C02": dict(
  technique="runtime reference-model monitor (differential against independent HOTP at floor(unix/period)) over generated instants, zones, monotonic readings and periods",
  text="Each GenerateTOTP execution is compared with the reference HOTP at floor(unix/period); one second is rendered as 20 different time.Time values (nanoseconds, zones, monotonic reading) and each must give the reference code; step boundaries +-2 s; Skew (unused by generation) takes arbitrary values; defaults (nil params, period 0) are checked consistently across GenerateTOTP, ValidateTOTP and GenerateTOTPURL. Held on the executions produced. A reduced version of the differential also runs compiled for a 32-bit target (GOARCH=386, cmd/arch386). One-goroutine histories with one secret and parameter set: walks over adjacent steps and time steps that agree with a base step in their low or high b bits for every b (what a packed or truncated memo key confuses). A base call alternates with calls that differ in exactly one of period, digits, hash or the instant inside the step. Every second such history passes one caller-owned Param object rewritten in place.",
  design="7/C02"),
 "C03": dict(
  technique="runtime window-membership oracle: verdicts of ValidateHOTP compared with the reference set of codes for counters max(0,c-s)..c+s",
  text="For generated (secret, digits, hash, counter, window) the genuine codes at distance -(s+3)..+(s+3) and hostile strings (edits, truncations, padding, Unicode digits, bytes sharing bits with the right digit, sign/space look-alikes of leading-zero codes, value+2^32 aliases of 10-digit codes) are submitted; the verdict must equal membership in the independently computed window set (so coincidences cannot alarm); windows > 10 must be refused; nil parameters mean 6/SHA-1/2. Exploration over boundary counters (c<s, 2^31, 2^32, 2^63) and random ones. One-goroutine validation histories over adjacent and bit-related counters (own code, window edges, first codes outside). Histories of related windows (same first counter, last counter or centre, another skew) with the codes of every counter around both. One submitted code while the counter walks across its window and back, every position twice.",
  design="7/C03"),
 "C04": dict(
  technique="runtime window-membership oracle on ValidateTOTP + derivation counting through the HMAC-constructor hook (logical work bound, cut-off at 64)",
  text="As C03 with time steps; refused skews 11..2^64-1 are probed functionally (genuine codes at distance 0/1/11/skew must be rejected with an error) and by counting HMAC derivations per call through the hook (more than 21 is a violation, a runaway loop is cut off by a sentinel panic instead of hanging); without the hook, huge skews run in a child process judged by allocation counts. No wall-clock verdicts. One-goroutine validation histories over adjacent and bit-related time steps. Histories of related windows (same first step, last step or centre, another skew) with the codes of every step around both. One submitted code while the instant walks across its window and back, every position twice.",
  design="7/C04"),
 "C05": dict(
  technique="runtime reference-model monitor for RFC 6287 + HMAC-constructor hook recording the exact message bytes",
  text="GenerateOCRA is executed for every advertised suite, parser-accepted grammar strings and hand-built configurations (hash x digits x 32 field subsets x formats x password hashes x suite texts) through every suite construction route, with admissible boundary-length inputs (also presented as adjacent sub-slices of one shared backing array); results are compared with an independent RFC 6287 model, repeated with garbage in unselected fields; the hook compares the HMAC message byte for byte with the documented layout; the formatting stage is driven with chosen 31-bit values. One-goroutine re-cut histories: inputs whose unpadded concatenation is the same byte string cut at other field boundaries. Fields exchanged between each other (challenge/session, counter/timestamp); one set of caller-owned field buffers rewritten in place between calls.",
  design="7/C05"),
 "C06": dict(
  technique="runtime differential monitor: ValidateOCRA verdict versus equality with GenerateOCRA's own result on the same data",
  text="For the C05 population plus derived failure cases, GenerateOCRA is run and ValidateOCRA is then executed on the generated code, edits, truncations, neighbours' codes and arbitrary strings: verdict must equal (submitted == generated), or (false, error) whenever generation fails (undecodable secret, each unusable-suite rule, each inadmissible-input rule). One-goroutine re-cut histories (same unpadded concatenation, other field boundaries), each input validated with the previous input's code and its own. Fields exchanged between each other; one set of caller-owned field buffers rewritten in place between calls (current code accepted, previous code refused).",
  design="7/C06"),
 "C07": dict(
  technique="runtime reference-model monitor on DecodeSecret and all six entry points + HMAC key observation through the hook",
  text="Every accepted spelling (padding x case x surrounding white space) of byte strings of every length 0..256 must decode to exactly the bytes and give identical results at all generation/validation entry points (the key reaching the HMAC is observed); generated invalid texts (every byte value outside the alphabet at interior and end positions, Unicode letters that upper-case into the alphabet, impossible lengths, inner padding) must be rejected. One-goroutine twin histories: a valid text followed by texts that differ from it only in characters with the same low five/six/seven bits or case bit, each judged by the reference decoder.",
  design="7/C07"),
 "C08": dict(
  technique="offline exactly-once checker over a recorded event log: crypto/rand.Reader replaced by a recording position-unique stream; race detector on concurrent histories",
  text="Histories of RandomSecret calls (sequential and 2..64 goroutines under -race) run against a recording random source (position-unique keystream, all-zero and all-0xFF streams, sources that deliver short reads of 1..63 bytes); hand-outs are attributed to calls by goroutine; an offline checker shows each secret is upper-case unpadded base32 of exactly 20/32/64 bytes that are contiguous, unmodified stream segments handed out during that call, that no stream position feeds two secrets, that DecodeSecret inverts it, and that all 253 unsupported enum values give (\"\", error).",
  note="Trusted: crypto/rand.Reader is the OS CSPRNG by default (what is monitored is that the library takes its bytes from it, unmodified, once); Go race detector; reference base32.",
  design="7/C08"),
 "C09": dict(
  technique="debugger-based execution monitor (gdb 13 + Python over a no-inline build): (a) operand watch on every early-exit comparison primitive, (b) single-step instruction-count differential across the position of the first wrong character",
  text="Rejecting validations of right-length wrong codes (first wrong character at every position, two families) are executed through ValidateHOTP/TOTP/OCRA, through the wasm binding's handlers compiled natively via an overlay, and through the REST validate endpoints of the real server, under gdb: no early-exit primitive (memequal, cmpstring, strequal, bytealg.Compare/Index, HasPrefix, EqualFold…) may be entered with a code of the acceptance window as an operand, and the number of instructions executed in the module, crypto/subtle, bytes/strings/bytealg/strconv and the runtime comparison primitives must be identical for every position (forward and reverse pass after warm-ups, scheduler-locked; non-reproducible counts are inconclusive).",
  note="Reach limit: the timing of the code AS COMPILED TO WebAssembly cannot be observed by any tool here (no wasm instruction counter; Node timing would be a wall-clock oracle); the identical Go source of the binding is monitored natively instead. Micro-architectural timing (caches, branch prediction) is outside what instruction counts see. Trusted: gdb register/memory reads, Go ABIInternal register assignment on amd64, symbol table from go tool nm. Tool failures are inconclusive, never violations.",
  design="7/C09"),
 "C10": dict(
  technique="crash/hang monitor: hostile-argument workload over the whole exported API in child processes (plain, -race/checkptr, -asan), recover() per call, call log written before each call, derivation cut-off hook",
  text="Every exported function and method (listed at run time from /repo with go/parser; Must* helpers excluded by the property) is called with hostile values from the property's domain sketch (string arguments of one call are often derived from each other); the exported default TimeCounterFunc and the operations that exist only in the js/wasm build (DeriveRFC4226Wasm, ValidateOTPWasm, compiled natively through an overlay) are driven too; a recovered panic, a process-fatal error attributed through the pre-call log, or unbounded work (hook cut-off / allocation-corroborated hang) is a violation. A wall-clock watchdog firing alone is inconclusive. Suites also reach the OCRA calls as constructor results whose exported configuration was edited afterwards and as caller-owned objects reconfigured in place.",
  design="7/C10"),
 "C11": dict(
  technique="Go race detector + differential against the sequential reference under stress: per-configuration -race child processes, yield injection between pool Get and Put (HMAC-constructor hook), adversarial pool user, GC storms, retained-string re-check",
  text="Each configuration (1..64 goroutines x GOMAXPROCS 1..16 x yields x pool adversary x GC storm) hammers a hot table of ~460 operations over 8 secrets (including a rolling family of 3000 distinct suite strings) in its own -race child; every concurrent result is compared with the reference / called-alone value, retained code strings are re-checked after GCs and further calls, and race reports with a frame of the library are violations (reports inside the harness only mark the run inconclusive). Thorough adds an -asan configuration. Interleavings are explored by stress, not enumerated.",
  note="Trusted: Go race detector (happens-before; reports only races that occur in the executions produced), reference models. porcupine is not used: the sequential specification is a pure function of the arguments.",
  design="7/C11"),
 "C12": dict(
  technique="runtime invariant monitor: canary-filled backing arrays around every caller slice, deep snapshots of argument structs and package state before/after, address-range aliasing check (thorough: also -race/checkptr and -asan builds)",
  text="OCRA input fields (for hand-built, registered and generated unregistered suites) are carved out of canary arrays in three length/capacity shapes and the full backing arrays, slice headers and suite are compared after OCRAInput.Validate / GenerateOCRA / ValidateOCRA; Param pointers, parsed URLs and returned URLParam/url.URL/SuiteConfig/list values are snapshotted, mutated and re-queried; returned slices are checked pairwise and against arguments for memory overlap; defaults, TimeCounterFunc, hash-name table and the registry (through the hook) are compared with a start snapshot after every batch. ParseOTPAuthURL also receives opaque-form URLs (no //), empty authorities, other schemes and url.URL values built by hand.",
  design="7/C12"),
 "C13": dict(
  technique="runtime invariant monitor on every (ok, err) pair and error text produced by the validation workloads and by failing calls of the other operations",
  text="The (ok, err) pair of every ValidateHOTP/TOTP/OCRA execution of reduced C03/C04/C06 workloads plus an explicit failure-cause sweep (including failing URLs from a label x type x query-oddity cross product) must be (true,nil) or (false,error); each error text (all Unwrap levels) is scanned for the secret in every spelling/raw/hex form and for any code of the acceptance window (keys >= 10 bytes, codes >= 6 digits so coincidences are excluded). The (ok, err) rule is also applied along histories in which one secret and one submitted code are validated while the counter or instant walks across the window and back.",
  design="7/C13"),
 "C14": dict(
  technique="runtime reference-predicate monitor; the finite usability grid is enumerated completely, admission by per-field length sweeps",
  text="All 250 880 configurations of the stated grid are judged by SuiteConfig.Validate, NewSuite, GenerateOCRA and ValidateOCRA against the usability predicate; for 160 usable configuration classes each field is swept over every length 0..140 (nil and empty) with the others valid (thorough: all field pairs over 19 boundary lengths) and OCRAInput.Validate / GenerateOCRA / ValidateOCRA outcomes are compared with the independent admission predicate. The single-field sweep (session at every length 0..140 and 255..4096) is repeated on suite objects made by the library's own parser and registry (advertised names, numbered session tokens S000..S999, time steps, lower case), judged by what a strict reference parser says the string selects.",
  design="7/C14"),
 "C15": dict(
  technique="runtime differential monitor: library registry/parser versus an independent strict RFC 6287 suite-name parser; registry exhaustive, grammar enumerated",
  text="Every advertised name is instantiated and compared field by field with what an independent parser says the name means (list / known-suite test / lookup / registry map must agree); every string of the 1 442 880-string grammar (thorough: all; quick: every 11th + boundaries) must be rejected or accepted with exactly its meaning and report itself as its name; case variants of grammar strings are judged against a case-folding reference in a repeated sequential history (each spelling must report its own name); many-digit numeric fields must be rejected or represented exactly; ~350 malformed strings, single-bit flips, Unicode case-folding look-alikes of letters and time values whose product with 60/3600 overflows must be rejected (or, for numbers, represented exactly). A reduced version of the differential also runs compiled for a 32-bit target (GOARCH=386, cmd/arch386).",
  design="7/C15"),
 "C16": dict(
  technique="runtime round-trip monitor with an independent RFC 3986 decoder of the URL text",
  text="Generated (issuer, account, secret in every accepted spelling or arbitrary text, digits 0..255, hash, period) sets go through Generate*URL(...).String(); the text is decoded by an independent percent-decoder and by ParseOTPAuthURL(url.Parse(text)); both must return the input (so escape-twice/unescape-twice cannot pass). Hand-assembled URLs with digits/period texts over -2^63..2^64+ (also followed by ';', '%', '%zz') must fail or return exactly the number written, never the default in its place; URLs kept by the caller are re-rendered after later calls; query shapes of real links (&amp;, ';', bad escapes, repeats) are included. A reduced version of the differential also runs compiled for a 32-bit target (GOARCH=386, cmd/arch386).",
  design="7/C16"),
 "C17": dict(
  technique="runtime reference-model monitor: helper outputs versus independent encoders, and end-to-end OCRA codes for numeric questions versus the RFC 6287 model",
  text="Each helper runs on boundary/random 64-bit values and on strings of length 0..300 from digit/hex/sign/letter classes and is compared with an independent encoder (value-exact, or error / documented panic for malformed text; overlong hex timestamps and signed questions by a two-answer rule); sequential fault / normalisation-neighbour histories per helper; HexInputToOCRA over all 3^5 valid/invalid/empty combinations; decimal questions of every length 1..64 plus structured values (sums of few powers of 2/10/16, byte/word aligned) through the helper and GenerateOCRA must equal the RFC value. A reduced version of the differential also runs compiled for a 32-bit target (GOARCH=386, cmd/arch386). Every byte value 0..255 is placed at every kind of position in short texts through all decimal and hex helpers and each field of HexInputToOCRA.",
  design="7/C17"),
 "C18": dict(
  technique="black-box differential monitor on the real server binary over loopback: each HTTP response versus the in-process library call with exactly the request's parameters and versus the independent reference model (thorough: also a -race build of the server)",
  text="The server is built from the working tree and driven with generated well-formed requests to all ten endpoints (every optional field present/absent at random, known and unknown digit/hash spellings, raw and structured suites, white space around secrets, fields of up to ~100 KiB giving large responses) from 1..32 client goroutines on reused and fresh connections; codes, verdicts, echoes, suite list/description, URL and secret responses are compared with the library and the reference; generated codes are fed back to the validate endpoints; 2..16 requests are pipelined on one connection and judged in order; pairs in which the second request's head travels with the first request and its body follows only after the first answer has been read; a share of the requests is sent in another lexical form of the same JSON text (string escapes, white space between tokens) and must be answered like the plain form; 6000..60000 requests with secrets never seen before in one server process, with secrets from the start coming back after 10..50000 others; identical requests without a timestamp repeated as the clock moves on (periods 1 and 2 s), each verdict bracketed by the instants of its exchange; at both ends of the 64-bit counter range the validate verdict is judged against the library alone; 'timestamp omitted' is bracketed by the client's clock around the timestamp the server reports. One secret and parameter set on one connection second by second across step boundaries, over adjacent and bit-related steps/counters and validation along them; well-formed requests sent directly after not-well-formed ones to the same endpoint (two documents back to back, trailing text, truncated, wrong type, empty).",
  note="Trusted: Go net/http client, reference models. The clock is only read to bracket the server-reported timestamp; no latency verdicts.",
  design="7/C18"),
 "C19": dict(
  technique="black-box hostile-input monitor on the real server binary with per-request CPU accounting (/proc/<pid>/stat) and interleaved reference-checked probe requests; liveness restated as bounded progress",
  text="A seeded shuffle of hostile requests (broken JSON, every field x every JSON type, numbers beyond 64-bit limits, skew/period extremes, unknown/contradictory suites, oversized bodies, large echoed fields, every method x path, raw TCP fragments) is sent sequentially (server CPU time attributed per request: > 2 CPU-s is a violation) and on 32 connections; every response must be complete, 2xx only with the endpoint's success object; refused skews must not accept; probes judged by the C18 oracle (including large-response probes in flight with the hostile traffic) must stay correct; for ten request classes four equal batches are sent and the server's resident memory (/proc/<pid>/status) is read after each: steady growth per batch is a violation (something kept per request for good); a well-formed request left unanswered twice while GET / answers is a violation; text of n copies of a 1..4-byte character (n around 64, 86, 128, 256, 342, 512, 1024) is sent as path, query and in every string field; 27 request-header names with ~70 hostile values each are sent one at a time under CPU accounting (on API paths with a well-formed body whose 200 must be the library's answer); raw requests whose target or Host header a parser may fail on (a 2xx must be the success object of the path asked for); on a descriptor-limited server: waves of clients that never send a byte and a burst of more connections than descriptors, each followed by probes; a request with Expect: 100-continue on a connection idle for 11.5 s beside a control without the header; on a server of its own: twenty kinds of refused or failed first request each followed, if the connection stays open, by a well-formed request on the same connection (C18 oracle), 64..400 uploads announced and abandoned half-way, and clients that stall beyond the read timeout, each followed by probes; the documentation assets are requested concurrently under eight Accept-Encoding values (rounds meeting an expired compressed-file cache; freshly started servers asked by one client alone and by 40 clients with the same first request; concurrent byte ranges) and every body, decoded by the coding its own Content-Encoding names, must equal the bytes served for identity; thorough repeats those rounds on a -race build and reads its log (races whose accesses are the module's are violations, races inside dependencies are recorded); the process must stay alive. Unbounded 'eventually' is not decidable by a run; a timeout with an idle server is inconclusive.",
  note="Trusted: Linux /proc CPU accounting (100 Hz ticks), Go net/http client. Work is measured in CPU time, not latency, so machine load cannot raise an alarm.",
  design="7/C19"),
 "C20": dict(
  technique="black-box differential monitor on the freshly built wasm module under Node 20 (through globalThis and through the package's exported object, by name) + native overlay build of the binding's Go sources",
  text="otp.wasm is built from the working tree into a scratch copy of otp-js and driven under Node with a generated case list over the property's common domain; answers through both access paths are compared per exported name with the native library and the reference model (codes, verdicts at every window distance and for hostile code strings, timestamps near the epoch with the native verdict as oracle, URLs); numbers with a fractional part on any numeric argument must give the integer part's answer or 'error:…'; malformed calls (every argument position x hostile JS values, too few/many arguments, range errors) must return 'error:…' and are followed by a known-answer probe; a thrown exception or missing result (Go runtime died) is a violation. Hostile values cover every JS type (BigInt, Symbol, function, Date, typed array, boxed primitives); the driver reloads the module after a death. The same Go sources are compiled natively through an overlay for a 10x larger differential, the package as committed (index.js + committed lib/otp.wasm) is driven with a reduced list against the same oracle, and so is a process in which the package's entry function is called repeatedly on one module instance (globals, newest and first returned object; the history starts with calls that make the Go heap grow, and a watchdog tells a spinning node from a stalled one by its CPU time). Same-parameter histories in one module instance: timestamps second by second across step boundaries in both directions, adjacent and bit-related steps/counters, validation walks.",
  note="Trusted: Node 20 + wasm_exec.js of the toolchain, reference models.",
  design="7/C20"),
}

PENDING_REASON = "monitor not built yet in this revision of /verif (work in progress; see DESIGN.md section 7 for the planned runtime monitor)"

def main():
    ids = [json.loads(l)["id"] for l in open(os.path.join(ROOT, "properties.jsonl"))]
    checks, na = [], []
    for i in ids:
        c = CHECKS.get(i)
        if not c:
            na.append({"property_id": i, "reason": PENDING_REASON}); continue
        checks.append({
            "property_id": i,
            "quick_cmd": f"bin/check {i} quick",
            "thorough_cmd": f"bin/check {i} thorough",
            "evidence_file": f"evidence/{i}.json",
            "replay_cmd_template": f"bin/check {i} --replay {{path}}",
            "engine": "harness",
            "level_claimed": {"category": "exploration", "text": c["text"], "design_ref": c["design"]},
            "level_note": c.get("note", TB),
            "technique": c["technique"],
        })
    commits = subprocess.run(["git", "-C", "/repo", "log", "--format=%h %s", "--grep=^verif:"], capture_output=True, text=True).stdout.strip().splitlines()
    m = {
        "version": 1,
        "setup_cmd": "bin/setup",
        "hooks": {
            "guard": "verif",
            "enable": "go build -tags verif (harness module /verif/harness with replace github.com/ja7ad/otp => /repo); the tag compiles /repo/verif_hooks.go only",
            "baseline_off_cmd": "bin/baseline_off",
            "source_commits": [c.split()[0] for c in commits],
            "add_only": True,
        },
        "engines": [
            {"name": "harness", "path": "harness/cmd/check", "serves_properties": [c["property_id"] for c in checks],
             "kind_free_text": "Go monitor driver: seeded workloads against the real library/server/wasm build, independent reference models, hook wrappers, race detector runs, child-process batches"},
        ],
        "checks": checks,
        "not_applicable": na,
        "notes": "Technique family: runtime monitoring and sanitizers. Exit codes of every command: 0 held on everything explored, 1 violation (VIOLATION property=<id> replay=<path>), 2 inconclusive (machinery failure, never an alarm about the code). Known findings: known_findings.json.",
    }
    json.dump(m, open(os.path.join(ROOT, "MANIFEST.json"), "w"), indent=1)
    print("checks:", len(checks), "not_applicable:", len(na))

main()
