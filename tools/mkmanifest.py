#!/usr/bin/env python3
"""Regenerates /verif/MANIFEST.json from the table below (kept here so the manifest stays valid at all times)."""
import json, os, subprocess
ROOT = os.path.dirname(os.path.dirname(os.path.abspath(__file__)))

TB = "Trusted base: Go toolchain/runtime, stdlib SHA-1/256/512 compression functions, math/big, the RFC vectors typed into harness/ref (self-tested at every start). Only executions produced are judged: 'held on K executions', never 'verified'."

CHECKS = {
 "C01": dict(
  technique="runtime reference-model monitor at the API boundary + HMAC-constructor hook (observes key/message, substitutes the digest to drive the formatting stage)",
  text="Every GenerateHOTP execution of a seeded boundary/random workload is compared byte-for-byte with an independent RFC 4226 model (own HMAC, big-integer modulus); unsupported digits/hash values must yield an error; through the verif hook the monitor also observes the exact (key, message) of the HMAC and pushes chosen 31-bit values through the real truncation/modulus/formatting code. Exploration, not enumeration of 2^64 counters or 2^31 values.",
  design="7/C01"),
}

PENDING_REASON = "monitor not built yet in this revision of /verif (work in progress; see DESIGN.md section 7 for the planned runtime monitor)"

def main():
    ids = [json.loads(l)["id"] for l in open(os.path.join(ROOT, "properties.jsonl"))]
    checks, na = [], []
    for i in ids:
        c = CHECKS.get(i)
        if not c:
            na.append({"property_id": i, "reason": PENDING_REASON}); continue
        checks.append({
            "property_id": i,
            "quick_cmd": f"bin/check {i} quick",
            "thorough_cmd": f"bin/check {i} thorough",
            "evidence_file": f"evidence/{i}.json",
            "replay_cmd_template": f"bin/check {i} --replay {{path}}",
            "engine": "harness",
            "level_claimed": {"category": "exploration", "text": c["text"], "design_ref": c["design"]},
            "level_note": c.get("note", TB),
            "technique": c["technique"],
        })
    commits = subprocess.run(["git", "-C", "/repo", "log", "--format=%h %s", "--grep=^verif:"], capture_output=True, text=True).stdout.strip().splitlines()
    m = {
        "version": 1,
        "setup_cmd": "bin/setup",
        "hooks": {
            "guard": "verif",
            "enable": "go build -tags verif (harness module /verif/harness with replace github.com/ja7ad/otp => /repo); the tag compiles /repo/verif_hooks.go only",
            "baseline_off_cmd": "bin/baseline_off",
            "source_commits": [c.split()[0] for c in commits],
            "add_only": True,
        },
        "engines": [
            {"name": "harness", "path": "harness/cmd/check", "serves_properties": [c["property_id"] for c in checks],
             "kind_free_text": "Go monitor driver: seeded workloads against the real library/server/wasm build, independent reference models, hook wrappers, race detector runs, child-process batches"},
        ],
        "checks": checks,
        "not_applicable": na,
        "notes": "Technique family: runtime monitoring and sanitizers. Exit codes of every command: 0 held on everything explored, 1 violation (VIOLATION property=<id> replay=<path>), 2 inconclusive (machinery failure, never an alarm about the code). Known findings: known_findings.json.",
    }
    json.dump(m, open(os.path.join(ROOT, "MANIFEST.json"), "w"), indent=1)
    print("checks:", len(checks), "not_applicable:", len(na))

main()
