#!/usr/bin/env bash
# seedverify.sh <seed-name> <scratch-worktree> <checks...>
# 1. confirms the seeded change in its scratch worktree: existing suite passes with the patch, demo fails with it and passes without
# 2. stores it under /verif/seeded/<seed-name>/
# 3. runs the given checks (quick; "ID:thorough" for thorough) against /repo + the change as a build overlay (nothing in /repo is modified)
set -u
NAME=$1; WT=$2; shift 2
. /verif/lib/env.sh
cd "$WT" || exit 2
git checkout -q -- . ; git clean -fdq -e SEED
DEMO=$(ls SEED | grep -E 'demo.*_test\.go$' | head -1)
KIND=test
if [ -z "$DEMO" ] && [ -f SEED/demo/main.go ]; then DEMO=demo; KIND=prog; fi
if [ -z "$DEMO" ] && [ -f SEED/demo.sh ]; then DEMO=demo.sh; KIND=sh; fi
[ -n "$DEMO" ] || { echo "no demo in $WT/SEED"; exit 2; }
rundemo() {
  case $KIND in
    test) cp "SEED/$DEMO" ./zz_seed_demo_test.go; "$GO_BIN" test -count=1 -run 'Seed|Demo|C[0-9][0-9]|OCRAShort' . ; rc=$?; rm -f zz_seed_demo_test.go; return $rc ;;
    prog) GO="$GO_BIN" timeout 600 "$GO_BIN" run ./SEED/demo ;;
    sh)   GO="$GO_BIN" timeout 600 bash SEED/demo.sh ;;
  esac
}
git apply SEED/patch.diff || { echo "patch does not apply"; exit 2; }
pk=$("$GO_BIN" list ./... 2>/dev/null | grep -v /SEED)
if "$GO_BIN" test -count=1 $pk >/tmp/seedverify.$$.log 2>&1 && (cd internal/app && "$GO_BIN" build ./... ) >>/tmp/seedverify.$$.log 2>&1; then suite=pass; else suite=FAIL; tail -5 /tmp/seedverify.$$.log; fi
export GO="$GO_BIN"
if rundemo >/tmp/seedverify.$$.log 2>&1; then with=pass; else with=FAIL; fi
git checkout -q -- . ; git clean -fdq -e SEED
if rundemo >/tmp/seedverify.$$.log 2>&1; then without=pass; else without=FAIL; tail -5 /tmp/seedverify.$$.log; fi
rm -f /tmp/seedverify.$$.log
echo "SEED $NAME: suite-with-patch=$suite demo-with-patch=$with demo-without=$without"
[ "$suite" = pass ] && [ "$with" = FAIL ] && [ "$without" = pass ] || { echo "SEED $NAME NOT CONFIRMED"; exit 3; }
D=/verif/seeded/$NAME; mkdir -p "$D"
cp SEED/patch.diff "$D/patch.diff"; cp -r "SEED/$DEMO" "$D/"; cp SEED/meta.json "$D/meta.agent.json"
res=""
cd /verif
# the change is presented to the checks as a build overlay (file replacements / additions taken from the seed's own
# worktree with the patch applied), exactly like the self-test's mutants: /repo itself is never touched, so this can
# run while other checks are using /repo
cd "$WT" && git apply SEED/patch.diff || { echo "patch does not apply"; exit 2; }
OV=$(mktemp -d /tmp/verif.seedov.XXXXXX)
python3 - "$WT" "$OV" <<'PY'
import json,subprocess,sys,os,shutil
wt,ov=sys.argv[1:3]
names=subprocess.run(['git','-C',wt,'diff','--name-only'],capture_output=True,text=True).stdout.split()
names+= [n for n in subprocess.run(['git','-C',wt,'ls-files','--others','--exclude-standard'],capture_output=True,text=True).stdout.split() if not n.startswith('SEED/')]
rep={}
for i,n in enumerate(names):
    src=os.path.join(wt,n)
    if os.path.exists(src):
        dst=os.path.join(ov,'%d_%s'%(i,os.path.basename(n)))
        shutil.copy(src,dst); rep['/repo/'+n]=dst
    else:
        rep['/repo/'+n]=''
json.dump({'Replace':rep},open(os.path.join(ov,'overlay.json'),'w'))
print('overlay files:',' '.join(names))
PY
git checkout -q -- . ; git clean -fdq -e SEED
cd /verif
for spec in "$@"; do
  id=${spec%%:*}; tier=quick; [ "$spec" != "$id" ] && tier=${spec##*:}
  so=$(mktemp -d /tmp/verif.seedout.XXXXXX); mkdir -p "$so/evidence" "$so/replays"; cp /verif/known_findings.json "$so/"
  out=$(VERIF_OVERLAY=$OV/overlay.json VERIF_ROOT_OUT=$so bin/check "$id" "$tier" 2>&1); rc=$?
  sig=$(echo "$out" | grep -m1 'signature:' | sed 's/^ *signature: //')
  echo "  check $id $tier: exit=$rc ${sig}"
  res="$res{\"check\":\"$id\",\"tier\":\"$tier\",\"exit\":$rc,\"first_signature\":$(python3 -c 'import json,sys;print(json.dumps(sys.argv[1]))' "$sig")},"
  rm -rf "$so"
done
rm -rf "$OV"
python3 - "$D" "[${res%,}]" <<'PY'
import json,sys
d=sys.argv[1]; runs=json.loads(sys.argv[2])
a=json.load(open(d+'/meta.agent.json'))
m={"property":a.get("property"),"summary":a.get("summary"),"needs_to_manifest":a.get("needs_to_manifest") or a.get("needs"),"files_touched":a.get("files_touched"),
   "origin":"written by a fresh sub-agent that saw only the property text and a scratch worktree of /repo",
   "confirmed":"in the scratch worktree: existing suite passes with the patch, demo fails with the patch, demo passes without it",
   "what_i_ran":runs,"caught_by":[r["check"]+"/"+r["tier"] for r in runs if r["exit"]==1]}
json.dump(m,open(d+'/meta.json','w'),indent=1); 
import os; os.remove(d+'/meta.agent.json')
PY
