#!/usr/bin/env bash
# seedverify.sh <seed-name> <scratch-worktree> <checks...>
# 1. confirms the seeded change in its scratch worktree: existing suite passes with the patch, demo fails with it and passes without
# 2. stores it under /verif/seeded/<seed-name>/
# 3. applies it to /repo, runs the given checks (quick; "ID:thorough" for thorough), undoes it straight afterwards
set -u
NAME=$1; WT=$2; shift 2
. /verif/lib/env.sh
cd "$WT" || exit 2
git checkout -q -- . ; git clean -fdq -e SEED
DEMO=$(ls SEED | grep -E 'demo.*_test\.go$' | head -1)
KIND=test
if [ -z "$DEMO" ] && [ -f SEED/demo/main.go ]; then DEMO=demo; KIND=prog; fi
if [ -z "$DEMO" ] && [ -f SEED/demo.sh ]; then DEMO=demo.sh; KIND=sh; fi
[ -n "$DEMO" ] || { echo "no demo in $WT/SEED"; exit 2; }
rundemo() {
  case $KIND in
    test) cp "SEED/$DEMO" ./zz_seed_demo_test.go; "$GO_BIN" test -count=1 -run 'Seed|Demo|C[0-9][0-9]|OCRAShort' . ; rc=$?; rm -f zz_seed_demo_test.go; return $rc ;;
    prog) GO="$GO_BIN" timeout 600 "$GO_BIN" run ./SEED/demo ;;
    sh)   GO="$GO_BIN" timeout 600 bash SEED/demo.sh ;;
  esac
}
git apply SEED/patch.diff || { echo "patch does not apply"; exit 2; }
pk=$("$GO_BIN" list ./... 2>/dev/null | grep -v /SEED)
if "$GO_BIN" test -count=1 $pk >/tmp/seedverify.$$.log 2>&1 && (cd internal/app && "$GO_BIN" build ./... ) >>/tmp/seedverify.$$.log 2>&1; then suite=pass; else suite=FAIL; tail -5 /tmp/seedverify.$$.log; fi
export GO="$GO_BIN"
if rundemo >/tmp/seedverify.$$.log 2>&1; then with=pass; else with=FAIL; fi
git checkout -q -- .
if rundemo >/tmp/seedverify.$$.log 2>&1; then without=pass; else without=FAIL; tail -5 /tmp/seedverify.$$.log; fi
rm -f /tmp/seedverify.$$.log
echo "SEED $NAME: suite-with-patch=$suite demo-with-patch=$with demo-without=$without"
[ "$suite" = pass ] && [ "$with" = FAIL ] && [ "$without" = pass ] || { echo "SEED $NAME NOT CONFIRMED"; exit 3; }
D=/verif/seeded/$NAME; mkdir -p "$D"
cp SEED/patch.diff "$D/patch.diff"; cp -r "SEED/$DEMO" "$D/"; cp SEED/meta.json "$D/meta.agent.json"
res=""
cd /verif
git -C /repo diff --quiet || { echo "/repo is dirty, refusing"; exit 2; }
git -C /repo apply "$D/patch.diff" || { echo "patch does not apply to /repo"; exit 2; }
for spec in "$@"; do
  id=${spec%%:*}; tier=quick; [ "$spec" != "$id" ] && tier=${spec##*:}
  out=$(VERIF_ROOT_OUT=$(mktemp -d /tmp/verif.seedout.XXXXXX) bin/check "$id" "$tier" 2>&1); rc=$?
  sig=$(echo "$out" | grep -m1 'signature:' | sed 's/^ *signature: //')
  echo "  check $id $tier: exit=$rc ${sig}"
  res="$res{\"check\":\"$id\",\"tier\":\"$tier\",\"exit\":$rc,\"first_signature\":$(python3 -c 'import json,sys;print(json.dumps(sys.argv[1]))' "$sig")},"
done
git -C /repo checkout -q -- . ; git -C /repo clean -fdq ; git -C /repo status --short
rm -rf /tmp/verif.seedout.*
python3 - "$D" "[${res%,}]" <<'PY'
import json,sys
d=sys.argv[1]; runs=json.loads(sys.argv[2])
a=json.load(open(d+'/meta.agent.json'))
m={"property":a.get("property"),"summary":a.get("summary"),"needs_to_manifest":a.get("needs_to_manifest"),"files_touched":a.get("files_touched"),
   "origin":"written by a fresh sub-agent that saw only the property text and a scratch worktree of /repo",
   "confirmed":"in the scratch worktree: existing suite passes with the patch, demo fails with the patch, demo passes without it",
   "what_i_ran":runs,"caught_by":[r["check"]+"/"+r["tier"] for r in runs if r["exit"]==1]}
json.dump(m,open(d+'/meta.json','w'),indent=1); 
import os; os.remove(d+'/meta.agent.json')
PY
