#!/usr/bin/env python3
"""mkwasmnative.py <outdir> : writes <outdir>/overlay.json that lets the js/wasm Go sources of /repo be
compiled natively with -tags verif_wasmnative. Nothing in /repo is modified. If VERIF_OVERLAY names an
existing overlay (self-test mutants), its replacements are honoured and carried over."""
import json, os, re, sys
out = sys.argv[1]
repo = os.environ.get("REPO", "/repo")
verif = os.environ.get("VERIF_ROOT", "/verif")
os.makedirs(out, exist_ok=True)
base = {}
if os.environ.get("VERIF_OVERLAY"):
    base = json.load(open(os.environ["VERIF_OVERLAY"])).get("Replace", {})
def effective(rel):
    p = os.path.join(repo, rel)
    return open(base.get(p, p)).read()
rep = dict(base)
def put(rel, text):
    dst = os.path.join(out, rel.replace("/", "__"))
    open(dst, "w").write(text)
    rep[os.path.join(repo, rel)] = dst
tag = re.compile(r"^//go:build js && wasm\s*$", re.M)
for src, dst in (("derive_rfc4226_wasm.go", "verif_native_derivewasm.go"), ("validate_wasm.go", "verif_native_validatewasm.go")):
    s = effective(src)
    if not tag.search(s):
        sys.exit("rewrite pattern (build constraint) not found in " + src)
    put(dst, tag.sub("//go:build verif_wasmnative", s, count=1))
m = effective("wasm/main.go")
if not tag.search(m) or '"syscall/js"' not in m or "func main()" not in m:
    sys.exit("rewrite patterns not found in wasm/main.go")
m = tag.sub("//go:build verif_wasmnative", m, count=1)
m = m.replace('"syscall/js"', 'js "github.com/ja7ad/otp/internal/verifjs"', 1).replace("func main()", "func wasmMain()", 1)
put("wasm/main.go", m)
put("wasm/verif_driver.go", open(os.path.join(verif, "overlay/wasm_driver.go")).read())
put("internal/verifjs/js.go", open(os.path.join(verif, "overlay/verifjs.go")).read())
json.dump({"Replace": rep}, open(os.path.join(out, "overlay.json"), "w"))
