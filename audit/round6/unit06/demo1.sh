#!/bin/bash
# demo1: since 485e16a (ReduceMemoryUsage=false) every idle keep-alive connection
# keeps the buffer of the largest request body it ever carried (up to the 1 MiB
# body limit) for as long as the connection lives; before that commit the buffer
# was given back after each request.  N clients that each send ONE well-formed
# 1 MiB request and then just stay connected pin N MiB in the server.
# Part 1 (no limits): RSS per idle connection, HEAD vs the tree before 485e16a.
# Part 2: the same traffic against a server whose data segment is limited to
# 512 MiB (RLIMIT_DATA, stand-in for a container memory limit): the build
# before 485e16a keeps serving with ~25 MiB, HEAD dies with "out of memory".
# exit 1 = HEAD broken, exit 0 = HEAD fine.
set -u
ROOT=/tmp/audit6-06
export GO=/root/go/pkg/mod/golang.org/toolchain@v0.0.1-go1.24.0.linux-amd64/bin/go
export GOTOOLCHAIN=local GOPROXY=off GOSUMDB=off GOFLAGS=
mkdir -p $ROOT/AUDIT/work
W=$(mktemp -d $ROOT/AUDIT/work/demo1.XXXXXX)
cleanup() { pkill -f "$W/srv-" 2>/dev/null; sleep 0.2; rm -rf "$W"; rmdir $ROOT/AUDIT/work 2>/dev/null; }
trap cleanup EXIT

(cd $ROOT/internal/app && $GO build -o $W/srv-head ./cmd) || { echo "build of HEAD failed"; exit 2; }
mkdir -p $W/before && (cd $ROOT && git archive 485e16a^ | tar -x -C $W/before) &&
  (cd $W/before/internal/app && $GO build -o $W/srv-before ./cmd) || { echo "build of 485e16a^ failed"; exit 2; }

W=$W python3 - <<'EOF'
import os, resource, socket, subprocess, sys, time
W = os.environ["W"]
S = "JBSWY3DPEHPK3PXP"
# a well-formed request of (almost) the documented maximum size: the secret is
# surrounded by white space, which the service documents as accepted
big = ('{"secret":"' + " " * (1024 * 1024 - 300) + S + '","counter":1}').encode()
BIG = b"POST /hotp/generate HTTP/1.1\r\nHost: x\r\nContent-Type: application/json\r\nContent-Length: %d\r\n\r\n" % len(big) + big
small = ('{"secret":"%s","counter":1}' % S).encode()
SMALL = b"POST /hotp/generate HTTP/1.1\r\nHost: x\r\nContent-Type: application/json\r\nContent-Length: %d\r\n\r\n" % len(small) + small

def status(pid):
    d = {}
    for l in open("/proc/%d/status" % pid):
        k, _, v = l.partition(":")
        if k in ("VmRSS", "VmData"):
            d[k] = int(v.split()[0]) // 1024
    return d

def exchange(s, req):
    s.sendall(req)
    d = b""
    while not d.rstrip().endswith(b"}"):
        b = s.recv(65536)
        if not b:
            break
        d += b
    return d

def probe(port):
    try:
        s = socket.create_connection(("127.0.0.1", port), timeout=3)
        d = exchange(s, SMALL)
        s.close()
        return b" 200 " in d and b"996554" in d
    except OSError:
        return False

def run(name, port, n, limit_mib):
    def lim():
        if limit_mib:
            resource.setrlimit(resource.RLIMIT_DATA, (limit_mib << 20, limit_mib << 20))
    err = open(W + "/err-" + name, "w")
    p = subprocess.Popen([W + "/srv-" + name, "-serve", "127.0.0.1:%d" % port],
                         stdout=subprocess.DEVNULL, stderr=err, preexec_fn=lim)
    for _ in range(100):
        if probe(port):
            break
        time.sleep(0.05)
    base = status(p.pid)
    conns, ok = [], 0
    try:
        for i in range(n):
            s = socket.socket()
            s.bind(("127.0.0.%d" % (2 + i // 50), 0))   # MaxConnsPerIP is 50
            s.settimeout(3)
            s.connect(("127.0.0.1", port))
            d = exchange(s, BIG)
            if b" 200 " in d and b"996554" in d:
                ok += 1
            d = exchange(s, SMALL)                      # a later small request does not release it
            conns.append(s)
    except OSError as e:
        print("   %s: client sees '%s' on connection %d" % (name, e, len(conns) + 1))
    time.sleep(0.5)
    alive = p.poll() is None
    now = status(p.pid) if alive else {}
    pr = probe(port) if alive else False
    print("   %-7s limit=%s: %d/%d big requests answered 200, process alive=%s, probe answered=%s, RSS %s -> %s MiB, idle connections held: %d"
          % (name, ("%d MiB" % limit_mib) if limit_mib else "none", ok, n, alive, pr, base.get("VmRSS"), now.get("VmRSS"), len(conns)))
    for s in conns:
        s.close()
    if alive:
        p.kill()
    p.wait()
    err.close()
    tail = [l for l in open(W + "/err-" + name).read().splitlines() if "fatal error" in l or "out of memory" in l or "cannot allocate" in l]
    if tail:
        print("   %s stderr: %s" % (name, " / ".join(tail[:3])))
    return alive and pr, (now.get("VmRSS", 0) - base.get("VmRSS", 0)), len(conns)

broken = False
print("part 1: 300 idle keep-alive connections, each after one 1 MiB request and one small one, no limit")
_, g_before, c = run("before", 24701, 300, 0)
_, g_head, c2 = run("head", 24702, 300, 0)
print("   RSS growth: before 485e16a %d MiB (%.0f KiB per connection), HEAD %d MiB (%.0f KiB per connection)"
      % (g_before, g_before * 1024.0 / max(c, 1), g_head, g_head * 1024.0 / max(c2, 1)))
print("part 2: 700 such connections against a server limited to 512 MiB of data segment")
ok_before, _, _ = run("before", 24703, 700, 512)
ok_head, _, _ = run("head", 24704, 700, 512)
if not ok_head:
    broken = True
if g_head > 10 * max(g_before, 10):
    print("   HEAD pins more than 10x the memory per idle connection")
print("RESULT: before 485e16a keeps serving: %s; HEAD keeps serving: %s" % (ok_before, ok_head))
sys.exit(1 if broken else 0)
EOF
rc=$?
echo "demo1 exit $rc"
exit $rc
