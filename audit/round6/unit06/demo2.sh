#!/bin/bash
# demo2: since 485e16a a fresh connection that has not sent its first byte within
# ReadTimeout (5 s) is not just dropped: the server writes an unsolicited
# "HTTP/1.1 500 Internal Server Error" onto it and closes.  A client that opened
# the connection early (preconnect, connection pre-opened by a load balancer, a
# person typing) and then sends a well-formed request reads that stale 500 as the
# answer to its request.  Before the commit the same request got 200 and the code;
# between two requests of a kept connection the server still waits 30 s and then
# closes silently.
# Accepted outcomes: the request is answered 200 with the right code, or the
# connection is closed without any response.  exit 1 = an HTTP response that
# nobody asked for is on the connection / the request is answered 5xx.
set -u
ROOT=/tmp/audit6-06
export GO=/root/go/pkg/mod/golang.org/toolchain@v0.0.1-go1.24.0.linux-amd64/bin/go
export GOTOOLCHAIN=local GOPROXY=off GOSUMDB=off GOFLAGS=
mkdir -p $ROOT/AUDIT/work
W=$(mktemp -d $ROOT/AUDIT/work/demo2.XXXXXX)
cleanup() { pkill -f "$W/srv-" 2>/dev/null; sleep 0.2; rm -rf "$W"; rmdir $ROOT/AUDIT/work 2>/dev/null; }
trap cleanup EXIT
(cd $ROOT/internal/app && $GO build -o $W/srv-head ./cmd) || { echo "build of HEAD failed"; exit 2; }
mkdir -p $W/before && (cd $ROOT && git archive 485e16a^ | tar -x -C $W/before) &&
  (cd $W/before/internal/app && $GO build -o $W/srv-before ./cmd) || { echo "build of 485e16a^ failed"; exit 2; }

W=$W python3 - <<'EOF'
import os, select, socket, subprocess, sys, time
W = os.environ["W"]
J = b'{"secret":"JBSWY3DPEHPK3PXP","counter":1}'
REQ = b"POST /hotp/generate HTTP/1.1\r\nHost: x\r\nContent-Type: application/json\r\nContent-Length: %d\r\n\r\n" % len(J) + J

def run(name, port, wait):
    p = subprocess.Popen([W + "/srv-" + name, "-serve", "127.0.0.1:%d" % port], stdout=subprocess.DEVNULL, stderr=subprocess.DEVNULL)
    try:
        for _ in range(100):
            try:
                socket.create_connection(("127.0.0.1", port), timeout=0.2).close(); break
            except OSError:
                time.sleep(0.05)
        s = socket.create_connection(("127.0.0.1", port))
        time.sleep(wait)
        unsolicited = b""
        if select.select([s], [], [], 0)[0]:
            try:
                unsolicited = s.recv(65536)
            except OSError:
                pass
        answer = b""
        try:
            s.sendall(REQ)
            s.settimeout(2)
            while b"\r\n\r\n" not in answer:
                b = s.recv(65536)
                if not b:
                    break
                answer += b
        except OSError:
            pass
        s.close()
        first = (unsolicited + answer).split(b"\r\n")[0]
        ok = (not unsolicited) and (answer == b"" or answer.startswith(b"HTTP/1.1 200"))
        print("   %-6s first request sent %4.1f s after connect: bytes on the connection BEFORE the request: %r; what the client reads as its answer: %r"
              % (name, wait, unsolicited.split(b"\r\n")[0], first))
        return ok
    finally:
        p.kill(); p.wait()

print("control (1 s after connect):")
run("before", 24721, 1); c = run("head", 24722, 1)
print("6 s after connect:")
b = run("before", 24723, 6); h = run("head", 24724, 6)
print("RESULT: before 485e16a ok=%s, HEAD ok=%s" % (b, h))
sys.exit(0 if (h and c) else 1)
EOF
rc=$?
echo "demo2 exit $rc"
exit $rc
