#!/bin/bash
# demo1: the response to a complete request is withheld (ReadTimeout, 5 s) while the body of the
# next, pipelined request is awaited; a client that waits for that response before sending the
# body gets 200 + "500 Internal Server Error" + close instead of 200, 200.
# exit 1 = broken (response 1 later than 2 s, or request 2 not answered 200), exit 0 = fine.
# Builds the server from the tree this script lives in (../internal/app); set BIN=<binary> to test another build.
set -u
HERE="$(cd "$(dirname "$0")" && pwd)"
ROOT="$(cd "$HERE/.." && pwd)"
export GO=${GO:-/root/go/pkg/mod/golang.org/toolchain@v0.0.1-go1.24.0.linux-amd64/bin/go}
export GOTOOLCHAIN=local GOPROXY=off GOSUMDB=off GOFLAGS=
TMPBIN=""
if [ -z "${BIN:-}" ]; then
  TMPBIN="/tmp/a603-demo1-$$"
  (cd "$ROOT/internal/app" && "$GO" build -o "$TMPBIN" ./cmd) || { echo "build failed"; exit 2; }
  BIN="$TMPBIN"
fi
python3 - "$BIN" <<'EOF'
import socket, subprocess, sys, time
binp = sys.argv[1]
t = socket.socket(); t.bind(("127.0.0.1", 0)); port = t.getsockname()[1]; t.close()
p = subprocess.Popen([binp, "-serve", "127.0.0.1:%d" % port], stdout=subprocess.DEVNULL, stderr=subprocess.DEVNULL)
rc = 2
try:
    for _ in range(100):
        try:
            socket.create_connection(("127.0.0.1", port), timeout=1).close(); break
        except OSError:
            time.sleep(0.05)
    body = b'{"secret":"GEZDGNBVGY3TQOJQGEZDGNBVGY3TQOJQ","counter":1}'
    head = b"POST /hotp/generate HTTP/1.1\r\nHost: x\r\nContent-Type: application/json\r\nContent-Length: %d\r\n\r\n" % len(body)
    s = socket.create_connection(("127.0.0.1", port))
    t0 = time.time()
    s.sendall(head + body + head)          # request 1 complete + head of request 2, one segment
    s.settimeout(8)
    got = b""
    try:
        while b'"counter":1}' not in got:
            d = s.recv(65536)
            if not d: break
            got += d
    except socket.timeout:
        pass
    dt = time.time() - t0
    print("response to request 1 after %.2f s: %r" % (dt, got[:15]))
    late = dt > 2.0 or not got.startswith(b"HTTP/1.1 200")
    # the client now sends the body of request 2
    rest = got.split(b'"counter":1}', 1)[1] if b'"counter":1}' in got else b""
    second = rest
    try:
        s.sendall(body)
        s.settimeout(3)
        while b'"counter":1}' not in second:
            d = s.recv(65536)
            if not d: break
            second += d
    except OSError as e:
        second += b"<" + str(e).encode() + b">"
    print("answer to request 2: %r" % second[:60])
    ok2 = second.startswith(b"HTTP/1.1 200") and b'"code":"287082"' in second
    rc = 1 if (late or not ok2) else 0
    print("BROKEN" if rc else "ok")
finally:
    p.kill(); p.wait()
sys.exit(rc)
EOF
rc=$?
[ -n "$TMPBIN" ] && rm -f "$TMPBIN"
exit $rc
