#!/bin/bash
# demo1: C20 - a second initWasm() strips the BigInt guard from the global functions until its
# readiness poll fires (<= 10 ms later); a BigInt handed to a global function in that window is
# not answered with "error: ..." and ends the newest Go program, so the global functions and the
# object the second initWasm() resolves with throw from then on.
# exit 1 = broken (violation observed), exit 0 = holds, exit 2 = could not run
set -u
ROOT=/tmp/audit6-05
export GO=/root/go/pkg/mod/golang.org/toolchain@v0.0.1-go1.24.0.linux-amd64/bin/go
export GOTOOLCHAIN=local GOPROXY=off GOSUMDB=off GOFLAGS=
mkdir -p "$ROOT/AUDIT/work" && W=$(mktemp -d "$ROOT/AUDIT/work/demo1.XXXXXX") || exit 2
trap 'rm -rf "$W"; rmdir "$ROOT/AUDIT/work" 2>/dev/null' EXIT
cp -r "$ROOT/otp-js" "$W/otp-js" || exit 2
( cd "$ROOT" && GOOS=js GOARCH=wasm "$GO" build -o "$W/otp-js/lib/otp.wasm" ./wasm ) || exit 2
cat > "$W/run.js" <<'JS'
const out = console.log; console.log = () => {}; console.warn = () => {};
process.on("uncaughtException", (e) => out("uncaught:", e.message));
const initWasm = require(process.argv[2]);
const S = "JBSWY3DPEHPK3PXP";
const t = (f) => { try { return String(f()); } catch (e) { return "THROW " + e.message; } };
(async () => {
  const a = await initWasm();
  const first = t(() => globalThis.generateHOTP(S, 1n, "6", "SHA1"));   // guarded: "error: ..."
  const p = initWasm();                                                  // somebody initialises again
  let inWindow = null;
  for (let i = 0; i < 100000 && inWindow === null; i++) {
    await new Promise((r) => setImmediate(r));
    if (!globalThis.generateHOTP.bigintGuard) inWindow = t(() => globalThis.generateHOTP(S, 1n, "6", "SHA1"));
    else if (i > 0 && (await Promise.race([p.then(() => true), new Promise((r) => setImmediate(() => r(false)))]))) break;
  }
  const b = await p.catch(() => null);
  const after = { global: t(() => globalThis.generateHOTP(S, 1, "6", "SHA1")), second: b ? t(() => b.generateHOTP(S, 1, "6", "SHA1")) : "initWasm rejected", first: t(() => a.generateHOTP(S, 1, "6", "SHA1")) };
  out("BigInt before re-init :", first);
  out("BigInt during re-init :", inWindow);
  out("well-formed calls after:", JSON.stringify(after));
  const ok = (inWindow === null || inWindow.startsWith("error:")) && after.global === "996554" && after.second === "996554" && after.first === "996554";
  out(ok ? "HOLDS" : "BROKEN");
  process.exit(ok ? 0 : 1);
})();
JS
timeout 60 node "$W/run.js" "$W/otp-js"
rc=$?
[ $rc -eq 0 ] && exit 0
[ $rc -eq 1 ] && exit 1
exit 2
