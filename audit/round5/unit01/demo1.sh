#!/bin/bash
# demo1: responses to well-formed pipelined requests are destroyed by a TCP reset
# when the service reaches MaxRequestsPerConn (100) and closes the socket while
# further requests of the same client are still unread in the kernel buffer.
# exit 1 = property broken, 0 = holds, 2 = could not run
set -u
HERE="$(cd "$(dirname "$0")" && pwd)"
ROOT="$(cd "$HERE/.." && pwd)"
export GO=${GO:-/root/go/pkg/mod/golang.org/toolchain@v0.0.1-go1.24.0.linux-amd64/bin/go}
export GOTOOLCHAIN=local GOPROXY=off GOSUMDB=off GOFLAGS=
PORT=${PORT:-18437}
SRV=/tmp/a501-demo1-srv.$$
CLI=/tmp/a501-demo1-cli.$$
LOG=/tmp/a501-demo1-log.$$
cleanup() { [ -n "${SPID:-}" ] && kill "$SPID" 2>/dev/null; wait 2>/dev/null; rm -f "$SRV" "$CLI" "$LOG"; }
trap cleanup EXIT
( cd "$ROOT/internal/app" && $GO build -o "$SRV" ./cmd ) || exit 2
( cd "$HERE/demo1" && GOWORK=off GOFLAGS=-mod=mod $GO build -o "$CLI" . ) || exit 2
"$SRV" -serve 127.0.0.1:$PORT >"$LOG" 2>&1 &
SPID=$!
for i in $(seq 1 50); do
  (exec 3<>/dev/tcp/127.0.0.1/$PORT) 2>/dev/null && break
  sleep 0.1
done
"$CLI" -addr 127.0.0.1:$PORT
RC=$?
echo "server log: $(grep -c 'path=/hotp/generate status=200' "$LOG") requests handled with status 200 over 42 connections (100 per connection, never more); server alive: $(kill -0 $SPID 2>/dev/null && echo yes || echo no)"
exit $RC
