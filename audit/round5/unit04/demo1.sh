#!/bin/bash
# C19: connections that never send a byte are never reaped (no timeout applies
# before the first byte because server.go sets ReduceMemoryUsage: true); they
# hold descriptors, goroutines and MaxConnsPerIP slots for good, and a later
# well-formed request from that address gets 429. Exit 1 = property broken.
set -u
HERE=$(cd "$(dirname "$0")" && pwd); ROOT=$(cd "$HERE/.." && pwd)
export GO=${GO:-/root/go/pkg/mod/golang.org/toolchain@v0.0.1-go1.24.0.linux-amd64/bin/go}
export GOTOOLCHAIN=local GOPROXY=off GOSUMDB=off GOFLAGS=
PORT=${PORT:-28541}
T=$(mktemp -d /tmp/a504-demo1.XXXXXX)
SP=
cleanup() { [ -n "$SP" ] && kill -9 $SP 2>/dev/null; wait 2>/dev/null; rm -rf "$T"; }
trap cleanup EXIT
(cd "$ROOT/internal/app" && env -u GOWORK $GO build -o "$T/srv" ./cmd) || exit 2
(cd "$HERE/demo1" && GOWORK=off $GO build -o "$T/demo1" .) || exit 2
"$T/srv" -serve 127.0.0.1:$PORT >/dev/null 2>"$T/srv.err" &
SP=$!
sleep 1
"$T/demo1" lockout 127.0.0.1:$PORT $SP
rc=$?
echo "--- server log (non-request lines):"; grep -v 'msg=request\|INFO request' "$T/srv.err" | tail -5
exit $rc
