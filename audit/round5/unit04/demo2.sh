#!/bin/bash
# C19: when the service runs out of file descriptors (one per open connection;
# Concurrency 0 = 262144 workers, so nothing else bounds them, and silent
# connections are never reaped, see demo1) accept() fails with EMFILE, fasthttp
# treats that as a permanent error, ListenAndServe returns and main() exits:
# the process is gone. The server is started with RLIMIT_NOFILE=${NOFILE:-4096}
# to keep the demonstration small; NOFILE=inherit uses the inherited limit
# (needs a client limit above the server's). Exit 1 = property broken.
set -u
HERE=$(cd "$(dirname "$0")" && pwd); ROOT=$(cd "$HERE/.." && pwd)
export GO=${GO:-/root/go/pkg/mod/golang.org/toolchain@v0.0.1-go1.24.0.linux-amd64/bin/go}
export GOTOOLCHAIN=local GOPROXY=off GOSUMDB=off GOFLAGS=
PORT=${PORT:-28542}
NOFILE=${NOFILE:-4096}
T=$(mktemp -d /tmp/a504-demo2.XXXXXX)
SP=
cleanup() { [ -n "$SP" ] && kill -9 $SP 2>/dev/null; wait 2>/dev/null; rm -rf "$T"; }
trap cleanup EXIT
(cd "$ROOT/internal/app" && env -u GOWORK $GO build -o "$T/srv" ./cmd) || exit 2
(cd "$HERE/demo1" && GOWORK=off $GO build -o "$T/demo1" .) || exit 2
if [ "$NOFILE" = inherit ]; then
  "$T/srv" -serve 127.0.0.1:$PORT >/dev/null 2>"$T/srv.err" &
else
  bash -c "ulimit -HSn $NOFILE && exec \"$T/srv\" -serve 127.0.0.1:$PORT" >/dev/null 2>"$T/srv.err" &
fi
SP=$!
sleep 1
LIM=$(awk '/Max open files/{print $4}' /proc/$SP/limits)
"$T/demo1" exhaust 127.0.0.1:$PORT $SP "$LIM"
rc=$?
echo "--- server log (non-request lines):"; grep -v 'msg=request\|INFO request' "$T/srv.err" | tail -5
exit $rc
