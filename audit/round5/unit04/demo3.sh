#!/bin/bash
# C18/C19: a client that never has more than 45 connections open at a time
# (MaxConnsPerIP is 50) gets 429 for well-formed requests when it recycles its
# connections, because the per-address slot of a closed connection is released
# only later, by the server-side worker. Exit 1 = property broken.
set -u
HERE=$(cd "$(dirname "$0")" && pwd); ROOT=$(cd "$HERE/.." && pwd)
export GO=${GO:-/root/go/pkg/mod/golang.org/toolchain@v0.0.1-go1.24.0.linux-amd64/bin/go}
export GOTOOLCHAIN=local GOPROXY=off GOSUMDB=off GOFLAGS=
PORT=${PORT:-28543}
T=$(mktemp -d /tmp/a504-demo3.XXXXXX)
SP=
cleanup() { [ -n "$SP" ] && kill -9 $SP 2>/dev/null; wait 2>/dev/null; rm -rf "$T"; }
trap cleanup EXIT
(cd "$ROOT/internal/app" && env -u GOWORK $GO build -o "$T/srv" ./cmd) || exit 2
(cd "$HERE/demo3" && GOWORK=off $GO build -o "$T/demo3" .) || exit 2
"$T/srv" -serve 127.0.0.1:$PORT >/dev/null 2>"$T/srv.err" &
SP=$!
sleep 1
"$T/demo3" 127.0.0.1:$PORT ${K:-45} ${CYCLES:-2000}
exit $?
