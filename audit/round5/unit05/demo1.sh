#!/bin/bash
# C19 demo: a request whose Host header (or request-target) the fasthttp URI
# parser rejects is routed as if it were "GET /": unknown paths are answered
# "200 OK" with the home document instead of a failure status, and
# GET /otp/secret is answered 200 with a body that contains no secret.
# Exits 1 when the property is broken, 0 otherwise.
set -u
ROOT="$(cd "$(dirname "$0")/.." && pwd)"
export GO=${GO:-/root/go/pkg/mod/golang.org/toolchain@v0.0.1-go1.24.0.linux-amd64/bin/go}
export GOTOOLCHAIN=local GOPROXY=off GOSUMDB=off GOFLAGS=
BIN=$(mktemp /tmp/a505-demo1-srv.XXXXXX)
LOG=$(mktemp /tmp/a505-demo1-log.XXXXXX)
PORT=${PORT:-21591}
SRV=
cleanup() { [ -n "$SRV" ] && kill "$SRV" 2>/dev/null; wait "$SRV" 2>/dev/null; rm -f "$BIN" "$LOG"; }
trap cleanup EXIT
( cd "$ROOT/internal/app" && "$GO" build -o "$BIN" ./cmd ) || { echo "build failed"; exit 2; }
"$BIN" -serve 127.0.0.1:$PORT >"$LOG" 2>&1 &
SRV=$!
for i in $(seq 1 50); do curl -s -o /dev/null "http://127.0.0.1:$PORT/" && break; sleep 0.1; done

status() { # status <host header> <path>
  curl -s -o /dev/null -w '%{http_code}' -H "Host: $1" "http://127.0.0.1:$PORT$2"
}
raw() { # raw <request bytes via printf format> -> first line of the response
  python3 - "$PORT" "$1" <<'PY'
import socket,sys
s=socket.create_connection(("127.0.0.1",int(sys.argv[1])),timeout=8)
s.sendall(sys.argv[2].encode().decode("unicode_escape").encode("latin1"))
b=b""
while True:
    d=s.recv(65536)
    if not d: break
    b+=d
print(b.split(b"\r\n")[0].decode("latin1"))
PY
}
FAIL=0
echo "control: GET /no/such/endpoint, Host: a         -> $(status a /no/such/endpoint)   (404 expected)"
for H in 'a:b' '[::1' '[fe80::1%eth0]:8080' 'ex%41mple.com' 'a b' 'x/y'; do
  S=$(status "$H" /no/such/endpoint)
  echo "GET /no/such/endpoint, Host: $H -> $S"
  if [ "$S" = 200 ]; then FAIL=1; fi
done
L=$(raw 'GET /no/such/endpoint\x01 HTTP/1.1\r\nHost: a\r\nConnection: close\r\n\r\n')
echo "GET /no/such/endpoint<0x01>, Host: a -> $L"
case "$L" in *" 200 "*) FAIL=1;; esac

B=$(curl -s -w ' [%{http_code}]' -H 'Host: [fe80::1%eth0]:8080' "http://127.0.0.1:$PORT/otp/secret?algorithm=SHA512")
echo "GET /otp/secret?algorithm=SHA512, Host: [fe80::1%eth0]:8080 -> ${B:0:60}... ${B: -6}"
case "$B" in *'[200]') case "$B" in *'"secret"'*) ;; *) echo "  200 without a secret in the body"; FAIL=1;; esac;; esac
B=$(curl -s -w ' [%{http_code}]' -H 'Host: a:b' "http://127.0.0.1:$PORT/ocra/suites")
case "$B" in *'[200]') case "$B" in *'"suites"'*) ;; *) echo "GET /ocra/suites, Host: a:b -> 200 without a suite list"; FAIL=1;; esac;; esac

# the service is still fine afterwards
P=$(curl -s -X POST "http://127.0.0.1:$PORT/hotp/generate" -d '{"secret":"GEZDGNBVGY3TQOJQGEZDGNBVGY3TQOJQ","counter":1}')
echo "probe: $P"
if [ $FAIL = 1 ]; then echo "PROPERTY BROKEN (C19): failure (unknown path / endpoint not executed) answered with status 200"; exit 1; fi
echo "held"; exit 0
