#!/bin/bash
# C20/C11: a second initWasm() while the first Go instance still has a runtime timer pending
# (which it has for about a second after any call that made the Go heap grow, e.g. one
# generateOTPURL with a 1 MiB account name) livelocks the node process for ever:
# index.js reuses ONE `new Go()` object for every instance; Go.run() swaps _inst but keeps
# _scheduledTimeouts; when the old instance's timeout fires, wasm_exec.js loops
#   while (this._scheduledTimeouts.has(id)) { console.warn("missed timeout event"); this._resume(); }
# and the new instance never clears the old id. No call is ever answered again.
# exit 1 = property broken (process hung), 0 = held, 2 = inconclusive.
set -u
. "$(dirname "$0")/common.sh"
cat > "$W/run.js" <<'JS'
const initWasm = require("./otp-js/src/index.js");
const S = "GEZDGNBVGY3TQOJQGEZDGNBVGY3TQOJQ";           // RFC 4226 secret, HOTP(1) = 287082
console.log = () => {};                                     // the binding prints 2-3 lines per call
let warns = 0;                                              // wasm_exec.js warns once per spin; count instead of printing millions of lines
console.warn = (...a) => { if (++warns <= 2) process.stderr.write("console.warn: " + a.join(" ") + "\n"); };
const mode = process.argv[2];                               // "reinit-now" or "reinit-after-idle" (control)
const sleep = (ms) => new Promise((r) => setTimeout(r, ms));
(async () => {
  const otp = await initWasm();
  const url = otp.generateOTPURL("totp", "iss", "a".repeat(1 << 20), S, "6", "SHA1");
  if (!url.startsWith("otpauth://totp/iss:aaaa")) { console.error("unexpected url"); process.exit(2); }
  if (otp.generateHOTP(S, 1, "6", "SHA1") !== "287082") { console.error("unexpected code"); process.exit(2); }
  if (mode === "reinit-after-idle") await sleep(3000);      // control: let the old instance's timer drain first
  const otp2 = await initWasm();                            // e.g. a second module / request handler doing `await initWasm()`
  const first = otp2.generateHOTP(S, 1, "6", "SHA1");
  console.error(mode + ": re-init done, first call -> " + first);
  const t0 = Date.now();
  let ticks = 0;
  setInterval(() => {
    ticks++;
    const r = otp2.generateHOTP(S, 1, "6", "SHA1");
    if (r !== "287082") { console.error("wrong answer " + r); process.exit(3); }
    if (Date.now() - t0 > 4000) { console.error(mode + ": RESPONSIVE after 4 s, " + ticks + " ticks answered"); process.exit(0); }
  }, 200);
  // last words if the event loop is stuck: none possible - the parent kills us
})();
JS
cd "$W"
timeout -s KILL 40 node run.js reinit-after-idle > control.out 2>&1; crc=$?
cat control.out
if [ $crc -ne 0 ] || ! grep -q RESPONSIVE control.out; then echo "control run failed (rc=$crc): inconclusive"; exit 2; fi
timeout -s KILL 25 node run.js reinit-now > run.out 2>&1; rc=$?
head -c 2000 run.out
if grep -q RESPONSIVE run.out && [ $rc -eq 0 ]; then echo "HELD: module usable after repeated initWasm"; exit 0; fi
echo "BROKEN: after the second initWasm() the node process stopped answering (rc=$rc; 137 = killed by the 25 s watchdog while spinning in wasm_exec.js scheduleTimeoutEvent loop)"
exit 1
