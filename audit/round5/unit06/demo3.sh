#!/bin/bash
# C11 ("after any history of earlier calls ... returns exactly what it returns when called alone") /
# C20 ("leave the module usable"): a call made with well-formed arguments when the JavaScript stack
# is nearly exhausted throws RangeError from INSIDE the running Go code (the wasm frames are unwound
# by the JS exception, Go's scheduler state is not). The module is then corrupt: the next ordinary
# call, made from the top of the stack, ends in "fatal error: runtime: mcall called on m->g0 stack",
# and every call after it throws "Go program has already exited" - permanently.
# The script tries call depths limit-0 .. limit-299 and makes ordinary calls after each attempt.
# exit 1 = property broken, 0 = held.
set -u
. "$(dirname "$0")/common.sh"
cat > "$W/run.js" <<'JS'
const initWasm = require("./otp-js/src/index.js");
const S = "GEZDGNBVGY3TQOJQGEZDGNBVGY3TQOJQ";
console.log = () => {};
initWasm().then((otp) => {
  const ref = otp.generateHOTP(S, 1, "6", "SHA1");      // 287082
  let K = 0, deep;
  const call = () => { try { return "returned " + otp.generateHOTP(S, 1, "6", "SHA1"); } catch (e) { return "threw " + e.constructor.name + ": " + e.message; } };
  // recurse to the stack limit, climb K frames back up, make the call there
  function rec() { let r; try { r = rec(); } catch (e) { if (e instanceof RangeError) r = K; else throw e; }
    if (r === 0) { deep = call(); return -1; } return r > 0 ? r - 1 : r; }
  for (let k = 0; k < 300; k++) {
    K = k; deep = "not reached"; rec();
    const after = [call(), call(), call()];              // ordinary calls from the top of the stack
    if (after.some((a) => a !== "returned " + ref)) {
      console.error("call at (stack limit - " + k + " frames): " + deep);
      console.error("ordinary calls afterwards: " + JSON.stringify(after));
      process.exit(1);
    }
  }
  console.error("all 300 depths: module still answers " + ref);
  process.exit(0);
});
JS
cd "$W"
timeout -s KILL 120 node run.js 2>&1 | grep -v '^Go: ' | head -12
rc=${PIPESTATUS[0]}
if [ $rc -eq 0 ]; then echo "HELD"; exit 0; fi
echo "BROKEN (rc=$rc): after a call that threw RangeError the module no longer answers"
exit 1
