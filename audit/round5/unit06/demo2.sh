#!/bin/bash
# C20: "Arguments of the wrong type ... are answered with a string starting with 'error:' and leave
# the module usable", for the global functions too. index.js installs its BigInt guard on the
# globals only in a 10 ms setInterval tick AFTER go.run() has already published the raw Go
# functions on globalThis. Between the two - on the first initWasm() and again on EVERY repeated
# initWasm(), which re-publishes raw functions - a global called with a BigInt (e.g. a uint64
# counter) panics the Go runtime ("bad type flag"): the call returns undefined, initWasm() still
# resolves with "WASM OTP module loaded", and every later call throws "Go program has already exited".
# exit 1 = property broken, 0 = held.
set -u
. "$(dirname "$0")/common.sh"
cat > "$W/run.js" <<'JS'
const initWasm = require("./otp-js/src/index.js");
const S = "GEZDGNBVGY3TQOJQGEZDGNBVGY3TQOJQ";
console.log = () => {};
const call = (f) => { try { return f(); } catch (e) { return "THREW: " + e.message; } };
(async () => {
  const otp = await initWasm();                       // a complete, successful initialisation
  const before = call(() => globalThis.generateHOTP(S, 1n, "6", "SHA1"));
  console.error("initialised; global generateHOTP(S, 1n, ..) ->", before);   // guarded: 'error: BigInt ...'
  // some other part of the program polls/uses the globals (the package's own tests use them)
  let early;
  const timer = setInterval(() => {
    if (early === undefined && !globalThis.generateHOTP.bigintGuard) {
      early = String(call(() => globalThis.generateHOTP(S, 1n, "6", "SHA1")));
    }
  }, 1);
  const otp2 = await initWasm();                      // second initWasm(): raw functions are re-published
  clearInterval(timer);
  console.error("call made while the second initWasm() was completing ->", early);
  const after = [
    call(() => otp2.generateHOTP(S, 1, "6", "SHA1")),
    call(() => otp.generateHOTP(S, 1, "6", "SHA1")),
    call(() => globalThis.validateHOTP(S, "287082", 1, "6", "SHA1", 0)),
  ];
  console.error("after initWasm() resolved:", JSON.stringify(after));
  const ok = (early === undefined || early.startsWith("error:")) && after[0] === "287082" && after[1] === "287082" && after[2] === true;
  process.exit(ok ? 0 : 1);
})();
JS
cd "$W"
timeout -s KILL 60 node run.js 2>&1 | grep -v '^\(Go: \|goroutine\|\t\|syscall/js\|main\.\|runtime\.\|created by\|$\)' | head -20
rc=${PIPESTATUS[0]}
if [ $rc -eq 0 ]; then echo "HELD"; exit 0; fi
echo "BROKEN (rc=$rc): a BigInt passed to a global function during initWasm() was not answered with 'error:' and the module is dead"
exit 1
