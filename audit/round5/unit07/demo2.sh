#!/bin/bash
# C18: members whose names are NOT the documented field names (other letter case, or the
# non-ASCII look-alikes U+017F 'long s' / U+212A 'Kelvin sign') are taken as the documented
# parameter and override the exactly-named member of the same request; other unknown members
# (e.g. "x") are ignored. The answer is then the library's result for values the request does
# not give to secret / counter / skew.
. "$(dirname "$0")/lib.sh"
r0=$(post /hotp/generate "{\"secret\":\"$S\",\"counter\":1,\"x\":7}")
r1=$(post /hotp/generate "{\"secret\":\"$S\",\"counter\":1,\"COUNTER\":7}")
echo "counter:1, x:7        -> $r0"
echo "counter:1, COUNTER:7  -> $r1"
case "$r0" in *287082*) ;; *) echo "unexpected baseline";; esac
case "$r1" in 200*162583*) echo "BROKEN: request says counter=1 (RFC 4226 code 287082); answered with the counter=7 code 162583 and \"counter\":7"; BROKEN=1;; esac

# 162583 is the code of counter 7; at counter 1 with skew omitted (0) the library's verdict is false
v0=$(post /hotp/validate "{\"secret\":\"$S\",\"code\":\"162583\",\"counter\":1}")
v1=$(post /hotp/validate "{\"secret\":\"$S\",\"code\":\"162583\",\"counter\":1,\"skew\":0,\"Skew\":6}")
v2=$(post /hotp/validate "{\"secret\":\"$S\",\"code\":\"162583\",\"counter\":1,\"s\\u212aew\":6}")
echo "validate c=1 code-of-c=7, no skew          -> $v0"
echo "validate ... skew:0, Skew:6                -> $v1"
echo "validate ... \"s\\u212aew\":6 (Kelvin sign)   -> $v2"
case "$v0" in *false*) ;; *) echo "unexpected baseline";; esac
case "$v1" in *true*) echo "BROKEN: skew=0 in the request, code 6 counters away accepted"; BROKEN=1;; esac
case "$v2" in *true*) echo "BROKEN: no member named skew in the request (default 0), code 6 counters away accepted"; BROKEN=1;; esac

# a member named U+017F "ecret" replaces the secret
g=$(post /hotp/generate "{\"secret\":\"$S\",\"\\u017fecret\":\"AAAAAAAAAAAAAAAA\",\"counter\":1}")
echo "secret:S, \"\\u017fecret\":AAAA.. -> $g"
case "$g" in 200*287082*) ;; 200*) echo "BROKEN: code is not the one for the request's secret"; BROKEN=1;; esac

u=$(post /otp/url "{\"type\":\"totp\",\"secret\":\"$S\",\"issuer\":\"A\",\"account_name\":\"b\",\"TYPE\":\"hotp\",\"Account_Name\":\"mallory\"}")
echo "url type:totp account_name:b + TYPE:hotp Account_Name:mallory -> $u"
case "$u" in *hotp/A:mallory*) echo "BROKEN: URL built for type/account the documented fields do not carry"; BROKEN=1;; esac
exit $BROKEN
