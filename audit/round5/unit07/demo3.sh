#!/bin/bash
# C18 (low confidence; depends on whether timestamp 0 / negative is inside the C03/C04 domain):
# a PRESENT "timestamp":0 (also -0, negative values) is answered for the current time,
# not for the time the request gives. Library: GenerateTOTP(secret, time.Unix(0,0)) = HOTP(counter 0) = 755224.
. "$(dirname "$0")/lib.sh"
g1=$(post /totp/generate "{\"secret\":\"$S\",\"timestamp\":59}")
g0=$(post /totp/generate "{\"secret\":\"$S\",\"timestamp\":0}")
gn=$(post /totp/generate "{\"secret\":\"$S\",\"timestamp\":-59}")
v0=$(post /totp/validate "{\"secret\":\"$S\",\"timestamp\":0,\"code\":\"755224\"}")
v1=$(post /totp/validate "{\"secret\":\"$S\",\"timestamp\":1,\"code\":\"755224\"}")
echo "generate timestamp:59  -> $g1   (RFC: 287082)"
echo "generate timestamp:0   -> $g0   (library for t=0: 755224)"
echo "generate timestamp:-59 -> $gn"
echo "validate t=0 755224    -> $v0   (library: true)"
echo "validate t=1 755224    -> $v1   (library: true)"
case "$g0" in *'"code":"755224"'*) ;; 200*) echo "BROKEN: code for another time than the request's timestamp 0"; BROKEN=1;; esac
case "$v1" in *true*) case "$v0" in *false*) echo "BROKEN: verdict for timestamp 0 is not the library's verdict"; BROKEN=1;; esac;; esac
exit $BROKEN
