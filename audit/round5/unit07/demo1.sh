#!/bin/bash
# C18: a repeated member name is neither first-wins nor last-wins: repeated objects are merged
# member by member (and a later null does not reset a scalar), so the service answers for a
# parameter set that no reading of the request text denotes.
. "$(dirname "$0")/lib.sh"
RS=OCRA-1:HOTP-SHA1-6:C-QN08
C='"counter_hex":"0000000000000001"'
Q='"challenge_hex":"3132333435363738"'
full=$(post /ocra/generate "{\"secret\":\"$S\",\"raw_suite\":\"$RS\",\"input\":{$C,$Q}}")
echo "full input, once:              $full"
CODE=$(echo "$full" | sed -n 's/.*"code":"\([0-9]*\)".*/\1/p')
a=$(post /ocra/generate "{\"secret\":\"$S\",\"raw_suite\":\"$RS\",\"input\":{$C}}")
b=$(post /ocra/generate "{\"secret\":\"$S\",\"raw_suite\":\"$RS\",\"input\":{$Q}}")
echo "input = {counter} only:        $a"
echo "input = {challenge} only:      $b"
m=$(post /ocra/generate "{\"secret\":\"$S\",\"raw_suite\":\"$RS\",\"input\":{$C},\"input\":{$Q}}")
echo "input:{counter},input:{challenge}: $m"
case "$a" in 200*) echo "unexpected: counter-only accepted";; esac
if [ "$m" != "$a" ] && [ "$m" != "$b" ]; then case "$m" in 200*) echo "BROKEN: first reading (counter only) and last reading (challenge only) are both refused, yet the duplicate-key request is answered 200 with the code of the merged input"; BROKEN=1;; esac; fi

va=$(post /ocra/validate "{\"secret\":\"$S\",\"code\":\"$CODE\",\"raw_suite\":\"$RS\",\"input\":{$C}}")
vb=$(post /ocra/validate "{\"secret\":\"$S\",\"code\":\"$CODE\",\"raw_suite\":\"$RS\",\"input\":{$Q}}")
vm=$(post /ocra/validate "{\"secret\":\"$S\",\"code\":\"$CODE\",\"raw_suite\":\"$RS\",\"input\":{$C},\"input\":{$Q}}")
echo "validate, {counter} only:      $va"
echo "validate, {challenge} only:    $vb"
echo "validate, both as duplicates:  $vm"
case "$va$vb" in *true*) ;; *) case "$vm" in *'"valid":true'*) echo "BROKEN: verdict true although the library's verdict for either reading of 'input' is false"; BROKEN=1;; esac;; esac

# structured suite: two partial 'suite' objects, each refused alone, accepted together
s1='"suite":{"hash_function":"SHA256","code_digits":8}'
s2='"suite":{"challenge_format":1,"include_challenge":true}'
x1=$(post /ocra/generate "{\"secret\":\"$S\",$s1,\"input\":{$Q}}")
x2=$(post /ocra/generate "{\"secret\":\"$S\",$s2,\"input\":{$Q}}")
x3=$(post /ocra/generate "{\"secret\":\"$S\",$s1,$s2,\"input\":{$Q}}")
echo "suite part 1 only:             $x1"
echo "suite part 2 only:             $x2"
echo "suite part 1, suite part 2:    $x3"
if [ "$x3" != "$x1" ] && [ "$x3" != "$x2" ]; then case "$x3" in 200*) echo "BROKEN: the answer is neither the one for the first 'suite' nor the one for the last 'suite' (refused) but a code for the union of both"; BROKEN=1;; esac; fi

# scalars: last value wins ... unless the last value is null, then the first wins
h1=$(post /hotp/generate "{\"secret\":\"$S\",\"counter\":1,\"counter\":7}")
h2=$(post /hotp/generate "{\"secret\":\"$S\",\"counter\":7,\"counter\":null}")
h0=$(post /hotp/generate "{\"secret\":\"$S\",\"counter\":null}")
echo "counter:1,counter:7    -> $h1   (last wins)"
echo "counter:null           -> $h0   (null = omitted = 0)"
echo "counter:7,counter:null -> $h2   (first wins: neither last-wins nor consistent with the line above)"
case "$h1" in *162583*) case "$h2" in *162583*) echo "BROKEN: same rule cannot give both answers (last-wins would give the counter-0 code 755224 here)"; BROKEN=1;; esac;; esac
exit $BROKEN
