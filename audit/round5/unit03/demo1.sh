#!/bin/bash
# C19 - "status distinguishes success from failure" for unknown paths / requests the
# service cannot parse.
#
# A request whose target (or Host header) fasthttp cannot parse is routed by the
# service as if it had asked for "/" (ctx.Path() falls back to "/"), so a GET for
# an endpoint that does not exist is answered "200 OK" with the home page instead
# of a failure status. The same request without the stray byte gets 404.
#
# exit 1 = property broken (seen), exit 0 = held, exit 2 = could not run.
set -u
HERE="$(cd "$(dirname "$0")" && pwd)"
ROOT="$(cd "$HERE/.." && pwd)"
export GO=${GO:-/root/go/pkg/mod/golang.org/toolchain@v0.0.1-go1.24.0.linux-amd64/bin/go}
export GOTOOLCHAIN=local GOPROXY=off GOSUMDB=off GOFLAGS=
TMP="$(mktemp -d /tmp/audit5-03-demo1.XXXXXX)"
PORT=$((41000 + RANDOM % 2000))
SRV_PID=
cleanup() { [ -n "$SRV_PID" ] && kill "$SRV_PID" 2>/dev/null; wait 2>/dev/null; rm -rf "$TMP"; }
trap cleanup EXIT

( cd "$ROOT/internal/app" && "$GO" build -o "$TMP/srv" ./cmd ) || { echo "build failed"; exit 2; }
"$TMP/srv" -serve 127.0.0.1:$PORT >"$TMP/srv.log" 2>&1 &
SRV_PID=$!
UP=0
for i in $(seq 1 100); do
  if curl -s -o /dev/null "http://127.0.0.1:$PORT/"; then UP=1; break; fi
  sleep 0.1
done
[ "$UP" = 1 ] || { echo "server did not come up"; cat "$TMP/srv.log"; exit 2; }

python3 - "$PORT" <<'EOF'
import socket, sys
port = int(sys.argv[1])

def ask(raw):
    s = socket.create_connection(("127.0.0.1", port))
    s.settimeout(3)
    s.sendall(raw)
    data = b""
    try:
        while b"\r\n\r\n" not in data:
            d = s.recv(65536)
            if not d:
                break
            data += d
        # read the body announced by Content-Length
        head, _, body = data.partition(b"\r\n\r\n")
        clen = 0
        for line in head.split(b"\r\n")[1:]:
            k, _, v = line.partition(b":")
            if k.strip().lower() == b"content-length":
                clen = int(v.strip())
        while len(body) < clen:
            d = s.recv(65536)
            if not d:
                break
            body += d
    finally:
        s.close()
    status = int(head.split(b" ")[1])
    return status, body

cases = [
    # (description, raw request, must-not-be-2xx)
    ("control: GET /no/such/endpoint",
     b"GET /no/such/endpoint HTTP/1.1\r\nHost: x\r\nConnection: close\r\n\r\n", True),
    ("GET /no/such/endpoint<0x01>",
     b"GET /no/such/endpoint\x01 HTTP/1.1\r\nHost: x\r\nConnection: close\r\n\r\n", True),
    ("GET /no/such/endpoint?q=<TAB>",
     b"GET /no/such/endpoint?q=\t HTTP/1.1\r\nHost: x\r\nConnection: close\r\n\r\n", True),
    ("GET /hotp/generate<0x7f> (POST-only endpoint, junk byte)",
     b"GET /hotp/generate\x7f HTTP/1.1\r\nHost: x\r\nConnection: close\r\n\r\n", True),
    ("GET /no/such/endpoint with Host: a:b",
     b"GET /no/such/endpoint HTTP/1.1\r\nHost: a:b\r\nConnection: close\r\n\r\n", True),
    ("GET http://[::1/no/such/endpoint",
     b"GET http://[::1/no/such/endpoint HTTP/1.1\r\nHost: x\r\nConnection: close\r\n\r\n", True),
]
broken = 0
_ask = ask
def ask(raw):
    try:
        return _ask(raw)
    except Exception as e:
        print("could not talk to the server:", e)
        sys.exit(2)
for desc, raw, must_fail in cases:
    status, body = ask(raw)
    verdict = "ok"
    if must_fail and 200 <= status < 300:
        verdict = "BROKEN (success status for a request that names no existing resource)"
        broken += 1
    print("%-58s -> %d %-40r %s" % (desc, status, body[:40], verdict))

# the service must still answer a well-formed probe correctly
status, body = ask(b"POST /hotp/generate HTTP/1.1\r\nHost: x\r\nConnection: close\r\nContent-Type: application/json\r\n"
                   b"Content-Length: 57\r\n\r\n" + b'{"secret":"GEZDGNBVGY3TQOJQGEZDGNBVGY3TQOJQ","counter":1}')
print("probe POST /hotp/generate -> %d %r" % (status, body[:60]))
if broken:
    print("C19 violated: %d request(s) for non-existent resources answered with a 2xx status (home page)" % broken)
    sys.exit(1)
print("C19 held for these requests")
EOF
RC=$?
exit $RC
