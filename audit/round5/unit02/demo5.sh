#!/bin/bash
DEMO=demo5
. "$(dirname "$0")/common.sh"
