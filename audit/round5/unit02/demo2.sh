#!/bin/bash
DEMO=demo2
. "$(dirname "$0")/common.sh"
