#!/bin/bash
DEMO=demo1
. "$(dirname "$0")/common.sh"
