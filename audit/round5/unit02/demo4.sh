#!/bin/bash
DEMO=demo4
. "$(dirname "$0")/common.sh"
