#!/bin/bash
DEMO=demo3
. "$(dirname "$0")/common.sh"
