#!/bin/bash
# demo1: the BigInt repair (64a4c59) lives only in otp-js/src/index.js; the
# functions the WebAssembly build itself registers on globalThis (wasm/main.go,
# otp-js/lib/otp.wasm) still end the Go program when handed a BigInt.
#  part A: the committed otp.wasm loaded with the shipped wasm_exec.js but without index.js
#  part B: through index.js itself, calling the global in the (<=10 ms) interval between
#          go.run() and the moment the wrapper installs its guard (initWasm() not yet resolved)
# Exit status 0 = property held (error: string, module still usable); 1 = violated.
ROOT="${ROOT:-/tmp/audit4-11}"
cd "$ROOT/otp-js" || exit 2
fail=0

cat > /tmp/demo1_a_$$.js <<JS
require("$ROOT/otp-js/src/wasm_exec.js");
const fs = require("fs");
(async () => {
  const go = new Go();
  const { instance } = await WebAssembly.instantiate(fs.readFileSync("$ROOT/otp-js/lib/otp.wasm"), go.importObject);
  go.run(instance);
  const S = "JBSWY3DPEHPK3PXP";
  const call = (f) => { try { return f(); } catch (e) { return "THROW " + e.message; } };
  const before = call(() => globalThis.generateHOTP(S, 1, "6", "SHA1"));
  const big = call(() => globalThis.generateHOTP(S, 1n, "6", "SHA1"));
  const after = call(() => globalThis.generateHOTP(S, 1, "6", "SHA1"));
  process.stdout.write("A before=" + before + " bigint=" + String(big) + " after=" + after + "\n");
  process.exit(typeof big === "string" && big.startsWith("error:") && after === "996554" ? 0 : 1);
})();
JS
node /tmp/demo1_a_$$.js 2>/dev/null | grep '^A ' ; [ "${PIPESTATUS[0]}" = 0 ] || { echo "A: FAIL (global generateHOTP with a BigInt ended the Go program)"; fail=1; }
rm -f /tmp/demo1_a_$$.js

cat > /tmp/demo1_b_$$.js <<JS
const init = require("$ROOT/otp-js/src/index.js");
const p = init();
const S = "JBSWY3DPEHPK3PXP";
function poll() {
  if (typeof globalThis.generateHOTP !== "function") return setImmediate(poll);
  let big; try { big = globalThis.generateHOTP(S, 1n, "6", "SHA1"); } catch (e) { big = "THROW " + e.message; }
  p.then((otp) => {
    let after; try { after = otp.generateHOTP(S, 1, "6", "SHA1"); } catch (e) { after = "THROW " + e.message; }
    process.stdout.write("B bigint=" + String(big) + " after=" + after + "\n");
    process.exit(typeof big === "string" && big.startsWith("error:") && after === "996554" ? 0 : 1);
  });
}
poll();
JS
node /tmp/demo1_b_$$.js 2>/dev/null | grep '^B ' ; [ "${PIPESTATUS[0]}" = 0 ] || { echo "B: FAIL (global called before the guard was installed ended the Go program)"; fail=1; }
rm -f /tmp/demo1_b_$$.js

[ $fail = 0 ] && echo "demo1: PASS" || echo "demo1: FAIL"
exit $fail
