package otp_test

// Demo1: ParseHexTimestamp now judges a hex timestamp by its number of
// characters, not by its value: a timestamp whose value fits in 64 bits but
// which is written with leading zeros beyond 16 digits is refused, although
// the sibling decimal helper accepts the same value with any number of
// leading zeros and the sibling hex helper (MustHexPadLeft) maps the same
// text to the expected 8 bytes.
//
// Copy into the worktree root and run:  $GO test -run Demo1 .

import (
	"bytes"
	"testing"

	otp "github.com/ja7ad/otp"
)

func TestDemo1(t *testing.T) {
	want, err := otp.ParseHexTimestamp("132d0b6") // RFC 6287 test-vector timestamp
	if err != nil || len(want) != 8 {
		t.Fatalf("baseline: %x %v", want, err)
	}
	// Same value through the sibling helpers, written with surplus leading zeros.
	dec, err := otp.ParseDecimalToBigEndian8("000000000000000000000020107446") // 30 chars > 20
	if err != nil || !bytes.Equal(dec, want) {
		t.Fatalf("decimal sibling: %x %v", dec, err)
	}
	if got := otp.MustHexPadLeft("00000000000132d0b6", 8); !bytes.Equal(got, want) {
		t.Fatalf("MustHexPadLeft sibling: %x", got)
	}
	for _, s := range []string{"00000000000132d0b6", "0000000000000000000132d0b6", "00000000000000000"} {
		got, err := otp.ParseHexTimestamp(s)
		if err != nil {
			t.Errorf("ParseHexTimestamp(%q): value fits in 8 bytes but was refused: %v", s, err)
			continue
		}
		if len(got) != 8 {
			t.Errorf("ParseHexTimestamp(%q) = %d bytes (%x), want 8", s, len(got), got)
		}
	}
}
