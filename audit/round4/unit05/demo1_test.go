package otp_test

// Demo1 (C15, too-narrow repair 60efac7): the suite-string parser still accepts
// data-input tokens in an order the RFC 6287 naming scheme does not have
// (DataInput is [C-]Q..[-P..][-S..][-T..], in that order). The configuration
// cannot record the order, and generation silently uses the RFC order, so the
// message that is MACed is not the one the accepted string spells out.
//
// Copy into the worktree root and run:  $GO test -run Demo1 .

import (
	"crypto/hmac"
	"crypto/sha1"
	"encoding/base32"
	"encoding/binary"
	"fmt"
	"testing"

	otp "github.com/ja7ad/otp"
)

func demo1Code(key []byte, msg []byte, digits int) string {
	m := hmac.New(sha1.New, key)
	m.Write(msg)
	sum := m.Sum(nil)
	off := sum[len(sum)-1] & 0x0f
	v := uint64(binary.BigEndian.Uint32(sum[off:off+4]) & 0x7fffffff)
	mod := uint64(1)
	for i := 0; i < digits; i++ {
		mod *= 10
	}
	return fmt.Sprintf("%0*d", digits, v%mod)
}

func TestDemo1OutOfOrderDataInput(t *testing.T) {
	for _, raw := range []string{
		"OCRA-1:HOTP-SHA1-6:QN08-C",         // counter after the challenge
		"OCRA-1:HOTP-SHA1-6:T1M-QN08",       // timestamp before the challenge
		"OCRA-1:HOTP-SHA1-6:PSHA1-C-QN08",   // password hash first
		"OCRA-1:HOTP-SHA1-6:QN08-T1M-S064",  // session after the timestamp
	} {
		if s, err := otp.NewRawSuite(raw); err == nil {
			t.Errorf("NewRawSuite(%q) accepted (config %+v as struct: counter=%v challenge=%v password=%v session=%v timestamp=%v); the RFC 6287 naming scheme has no such string",
				raw, s.String(), s.Config().IncludeCounter, s.Config().IncludeChallenge, s.Config().IncludePassword, s.Config().IncludeSession, s.Config().IncludeTimestamp)
		}
	}

	// Consequence for the first one: the accepted name spells "challenge, then
	// counter", the code is computed over "counter, then challenge".
	raw := "OCRA-1:HOTP-SHA1-6:QN08-C"
	s, err := otp.NewRawSuite(raw)
	if err != nil {
		return // repaired
	}
	key := []byte("12345678901234567890")
	secret := base32.StdEncoding.EncodeToString(key)
	counter := otp.To8ByteBigEndian(7)
	chal := make([]byte, 128)
	copy(chal, "12345678")
	got, err := otp.GenerateOCRA(secret, s, otp.OCRAInput{Counter: counter, Challenge: []byte("12345678")})
	if err != nil {
		t.Fatalf("GenerateOCRA: %v", err)
	}
	head := append([]byte(raw), 0)
	asSpelled := demo1Code(key, append(append(append([]byte{}, head...), chal...), counter...), 6)
	rfcOrder := demo1Code(key, append(append(append([]byte{}, head...), counter...), chal...), 6)
	t.Logf("library %s; layout as the name spells it (Q,C) %s; RFC layout (C,Q) %s", got, asSpelled, rfcOrder)
	if got != asSpelled {
		t.Errorf("suite %q was accepted but its code %s is the one for the layout C,Q (%s), not for the layout the string spells, Q,C (%s): the string is approximated, not represented", raw, got, rfcOrder, asSpelled)
	}
}
