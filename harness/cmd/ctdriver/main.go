// ctdriver is the small marked workload the gdb monitors of C09 observe. It is built
// with -gcflags=all=-l (no inlining) so that comparison primitives are real calls with
// ABI register arguments. Each validation is bracketed by two no-inline marker calls.
package main

import (
	"encoding/hex"
	"encoding/json"
	"fmt"
	"os"
	"time"

	"github.com/ja7ad/otp"
)

type ctCase struct {
	ID        int    `json:"id"`
	Target    string `json:"target"` // hotp | totp | ocra
	Secret    string `json:"secret"`
	Submitted string `json:"submitted"`
	Expected  string `json:"expected"`
	Counter   uint64 `json:"counter"`
	Unix      int64  `json:"unix"`
	Period    uint   `json:"period"`
	Skew      uint   `json:"skew"`
	Digits    uint8  `json:"digits"`
	Algo      uint8  `json:"algo"`
	Suite     string `json:"suite"`
	Challenge string `json:"challenge_hex"`
	CounterB  string `json:"counter_hex"`
	Count     bool   `json:"count"` // instruction-count mode for this case
}

//go:noinline
func VerifMarkBegin(submitted, expected string, count bool, id int) {}

//go:noinline
func VerifMarkEnd(ok bool) {}

// verifSettle runs between the begin marker and the validation. The gdb monitor steps over
// it (it is on the monitor's exclusion list): its stack-check prologue absorbs a cooperative
// pre-emption request that sysmon may have posted while the process sat at the marker
// breakpoint, so that the request is not served by the prologue of the function under
// measurement (which would re-execute that prologue and add a constant to the count).
//
//go:noinline
func verifSettle(n int) int {
	var pad [256]byte
	pad[n&255] = byte(n)
	return verifSettle2(int(pad[(n+1)&255])) + int(pad[n&255])
}

//go:noinline
func verifSettle2(n int) int { return n + 1 }

var sink int

func main() {
	b, err := os.ReadFile(os.Args[1])
	if err != nil {
		os.Exit(2)
	}
	var cases []ctCase
	if json.Unmarshal(b, &cases) != nil {
		os.Exit(2)
	}
	results := make([]bool, len(cases))
	for i, c := range cases {
		p := &otp.Param{Digits: otp.Digits(c.Digits), Algorithm: otp.Algorithm(c.Algo), Period: c.Period, Skew: c.Skew}
		var ok bool
		switch c.Target {
		case "hotp":
			VerifMarkBegin(c.Submitted, c.Expected, c.Count, c.ID)
			sink += verifSettle(i)
			ok, _ = otp.ValidateHOTP(c.Secret, c.Submitted, c.Counter, p)
			VerifMarkEnd(ok)
		case "totp":
			t := time.Unix(c.Unix, 0)
			VerifMarkBegin(c.Submitted, c.Expected, c.Count, c.ID)
			sink += verifSettle(i)
			ok, _ = otp.ValidateTOTP(c.Secret, c.Submitted, t, p)
			VerifMarkEnd(ok)
		case "ocra":
			suite, err := otp.NewRawSuite(c.Suite)
			if err != nil {
				continue
			}
			ch, _ := hex.DecodeString(c.Challenge)
			cb, _ := hex.DecodeString(c.CounterB)
			in := otp.OCRAInput{Challenge: ch, Counter: cb}
			VerifMarkBegin(c.Submitted, c.Expected, c.Count, c.ID)
			sink += verifSettle(i)
			ok, _ = otp.ValidateOCRA(c.Secret, c.Submitted, suite, in)
			VerifMarkEnd(ok)
		}
		results[i] = ok
	}
	if len(os.Args) > 2 {
		ob, _ := json.Marshal(results)
		os.WriteFile(os.Args[2], ob, 0o644)
	}
	fmt.Fprintln(os.Stderr, "ctdriver done")
}
