// Command arch386 is a reduced, self-contained differential of the library against the reference models, meant to be
// built with GOARCH=386 (32-bit int / uint) and run on this amd64 machine: it covers what depends on the width of int -
// number parsing in otpauth URLs and suite strings, time steps, periods, counters - for the properties that name numbers.
// Usage: arch386 <property-id> <seed> <scale>; prints one JSON object per violation and a final {"evaluations":N} line.
package main

import (
	"encoding/json"
	"fmt"
	"net/url"
	"os"
	"strconv"
	"time"
	"unsafe"

	"github.com/ja7ad/otp"
	"verifh/gen"
	"verifh/ref"
)

type viol struct {
	Signature string `json:"signature"`
	What      string `json:"what"`
	Case      string `json:"case"`
	Expected  string `json:"expected"`
	Observed  string `json:"observed"`
}

var evals int

func report(v viol) { b, _ := json.Marshal(v); fmt.Println(string(b)) }

func catch(f func()) (p any) {
	defer func() { p = recover() }()
	f()
	return nil
}

func main() {
	if len(os.Args) < 4 {
		os.Exit(2)
	}
	prop := os.Args[1]
	seed, _ := strconv.ParseUint(os.Args[2], 10, 64)
	scale, _ := strconv.Atoi(os.Args[3])
	if scale < 1 {
		scale = 1
	}
	rng := gen.New(seed).Fork(386)
	switch prop {
	case "C01":
		for i := 0; i < 20000*scale; i++ {
			key := rng.Bytes(rng.Intn(70))
			ctr := gen.Counter(rng)
			d, a := 1+rng.Intn(10), rng.Intn(3)
			var code string
			var err error
			p := catch(func() {
				code, err = otp.GenerateHOTP(ref.Base32EncodeNoPad(key), ctr, &otp.Param{Digits: otp.Digits(d), Algorithm: otp.Algorithm(a)})
			})
			evals++
			if want := ref.HOTP(key, ctr, d, a); p != nil || err != nil || code != want {
				report(viol{"C01|GenerateHOTP|wrong-code|GOARCH=386", "on a 32-bit build GenerateHOTP differs from RFC 4226", fmt.Sprintf("key=%x counter=%d digits=%d hash=%d", key, ctr, d, a), want, fmt.Sprintf("%q err=%v panic=%v", code, err, p)})
			}
		}
	case "C02":
		for i := 0; i < 20000*scale; i++ {
			key := rng.Bytes(20)
			period := gen.Pick(rng, []uint64{0, 1, 30, 60, 3600, 1<<31 - 1, 1 << 31, 1<<32 - 1})
			unix := int64(rng.U64() >> uint(2+rng.Intn(40)))
			d, a := 1+rng.Intn(10), rng.Intn(3)
			var code string
			var err error
			p := catch(func() {
				code, err = otp.GenerateTOTP(ref.Base32EncodeNoPad(key), time.Unix(unix, 0), &otp.Param{Digits: otp.Digits(d), Algorithm: otp.Algorithm(a), Period: uint(period)})
			})
			evals++
			if want := ref.TOTP(key, unix, period, d, a); p != nil || err != nil || code != want {
				report(viol{"C02|GenerateTOTP|wrong-code|GOARCH=386", "on a 32-bit build GenerateTOTP differs from HOTP at floor(unix/period)", fmt.Sprintf("key=%x unix=%d period=%d digits=%d hash=%d", key, unix, period, d, a), want, fmt.Sprintf("%q err=%v panic=%v", code, err, p)})
			}
		}
	case "C16":
		periods := []uint64{0, 1, 29, 30, 31, 60, 3600, 1<<31 - 1, 1 << 31, 1<<31 + 1, 1<<32 - 1}
		for i := 0; i < 4000*scale; i++ {
			up := otp.URLParam{Issuer: gen.URLString(rng, false), AccountName: gen.URLString(rng, true), Secret: ref.Base32EncodeNoPad(rng.Bytes(1 + rng.Intn(30))),
				Digits: otp.Digits(gen.Pick(rng, []int{0, 6, 7, 8, 9, 10, 1})), Algorithm: otp.Algorithm(rng.Intn(3)), Period: uint(periods[i%len(periods)])}
			if up.Issuer == "" || up.AccountName == "" {
				continue
			}
			var back *otp.URLParam
			var text string
			var err error
			p := catch(func() {
				var u *url.URL
				if u, err = otp.GenerateTOTPURL(up); err != nil {
					return
				}
				text = u.String()
				var pu *url.URL
				if pu, err = url.Parse(text); err != nil {
					return
				}
				back, err = otp.ParseOTPAuthURL(pu)
			})
			evals++
			wantP := up.Period
			if wantP == 0 {
				wantP = 30
			}
			if p != nil || err != nil || back == nil || back.Period != wantP || back.Issuer != up.Issuer || back.AccountName != up.AccountName || back.Secret != up.Secret {
				report(viol{"C16|ParseOTPAuthURL|roundtrip|GOARCH=386", "on a 32-bit build a generated TOTP URL does not parse back to its parameters", fmt.Sprintf("%+v", up), fmt.Sprintf("period %d", wantP), fmt.Sprintf("%s -> %+v err=%v panic=%v", text, back, err, p)})
			}
		}
		// numbers written in a URL: refused, or parsed as exactly the number written (also the ones that are congruent to
		// a plausible value modulo 2^8, 2^32 or 2^64)
		for _, n := range []string{"0", "6", "8", "30", "255", "256", "262", "65542", "2147483647", "2147483648", "4294967295", "4294967296", "4294967302", "4294967304", "4294967326", "8589934622",
			"9223372036854775807", "9223372036854775808", "9223372036854775838", "18446744073709551615", "18446744073709551616", "18446744073709551622", "18446744073709551646"} {
			for _, key := range []string{"digits", "period"} {
				text := "otpauth://totp/I:a?secret=AAAAAAAA&" + key + "=" + n
				var back *otp.URLParam
				var err error
				p := catch(func() {
					pu, e := url.Parse(text)
					if e != nil {
						err = e
						return
					}
					back, err = otp.ParseOTPAuthURL(pu)
				})
				evals++
				if p != nil {
					report(viol{"C16|ParseOTPAuthURL|panic|GOARCH=386", "ParseOTPAuthURL panics on a 32-bit build", text, "parameters or an error", fmt.Sprint(p)})
					continue
				}
				if err != nil || back == nil {
					continue
				}
				v, perr := strconv.ParseUint(n, 10, 64)
				got := uint64(back.Period)
				if key == "digits" {
					got = uint64(back.Digits)
				}
				if perr != nil || got != v {
					report(viol{"C16|ParseOTPAuthURL|number-wrapped|" + key + ",GOARCH=386", "on a 32-bit build the URL parser reports a number that is not the one written in the URL", text, "rejection, or exactly " + n, fmt.Sprint(got)})
				}
			}
		}
	case "C15":
		for _, n := range []string{"262", "65542", "2147483647", "2147483648", "2147483654", "4294967295", "4294967296", "4294967302", "35791395", "596523", "35791394", "596524", "9223372036854775807", "18446744073709551622"} {
			for _, u := range []string{"S", "M", "H"} {
				name := "OCRA-1:HOTP-SHA1-6:QN08-T" + n + u
				var s otp.Suite
				var err error
				p := catch(func() { s, err = otp.NewRawSuite(name) })
				evals++
				if p != nil {
					report(viol{"C15|NewRawSuite|panic|GOARCH=386", "NewRawSuite panics on a 32-bit build", name, "a suite or an error", fmt.Sprint(p)})
					continue
				}
				if err != nil {
					continue
				}
				v, _ := strconv.ParseUint(n, 10, 64)
				mul := map[string]uint64{"S": 1, "M": 60, "H": 3600}[u]
				if got := s.Config().TimeStep; got <= 0 || uint64(got) != v*mul || v*mul/mul != v {
					report(viol{"C15|NewRawSuite|number-wrapped|time,GOARCH=386", "on a 32-bit build the parser accepts a time step it cannot represent (wrapped value)", name, "rejection, or exactly " + n + u, fmt.Sprint(got)})
				}
			}
		}
	case "C17":
		for i := 0; i < 20000*scale; i++ {
			v := rng.U64() >> uint(rng.Intn(64))
			b := otp.To8ByteBigEndian(v)
			b2, err := otp.ParseDecimalToBigEndian8(fmt.Sprint(v))
			evals++
			if want := ref.BE8(v); string(b) != string(want) || err != nil || string(b2) != string(want) {
				report(viol{"C17|To8ByteBigEndian|wrong-encoding|GOARCH=386", "on a 32-bit build a 64-bit value is not encoded as 8 big-endian bytes", fmt.Sprint(v), fmt.Sprintf("%x", want), fmt.Sprintf("%x / %x err=%v", b, b2, err)})
			}
		}
	default:
		os.Exit(2)
	}
	fmt.Printf("{\"evaluations\":%d,\"int_bits\":%d}\n", evals, 8*int(unsafe.Sizeof(int(0))))
}
