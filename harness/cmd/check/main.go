// check is the monitor driver: check run <ID> <quick|thorough> | check replay <ID> <file>.
// Exit 0 held, 1 violated (with VIOLATION lines), 2 inconclusive (machinery failed / observed nothing).
package main

import (
	"encoding/json"
	"fmt"
	"io"
	"os"
	"os/exec"
	"path/filepath"
	"strconv"
	"strings"

	"verifh/gen"
	"verifh/mon"
	"verifh/props"
	"verifh/ref"
)

func envMap() map[string]string {
	m := map[string]string{}
	for _, kv := range os.Environ() {
		if i := strings.IndexByte(kv, '='); i > 0 && strings.HasPrefix(kv, "VERIF_") {
			m[kv[:i]] = kv[i+1:]
		}
	}
	return m
}

func main() {
	if len(os.Args) >= 2 && os.Args[1] == "child" {
		os.Exit(props.ChildMain(os.Args[2:]))
	}
	if len(os.Args) < 4 {
		fmt.Fprintln(os.Stderr, "usage: check run <ID> <quick|thorough> | check replay <ID> <file> | check child ...")
		os.Exit(2)
	}
	mode, id, arg := os.Args[1], os.Args[2], os.Args[3]
	if mode == "run" {
		os.Exit(supervise(id, arg))
	}
	if mode == "run-inner" {
		mode = "run"
	}
	root := os.Getenv("VERIF_ROOT_OUT") // self-test runs redirect evidence/replays away from /verif
	if root == "" {
		root = os.Getenv("VERIF_ROOT")
	}
	if root == "" {
		root = "/verif"
	}
	seed, _ := strconv.ParseInt(os.Getenv("VERIF_SEED"), 10, 64)
	if seed == 0 {
		seed = 1
	}
	p := props.Get(id)
	if p == nil {
		fmt.Printf("INCONCLUSIVE property=%s no such check\n", id)
		os.Exit(2)
	}
	if err := ref.SelfTest(); err != nil {
		fmt.Printf("INCONCLUSIVE property=%s reference-model self-test failed: %v\n", id, err)
		os.Exit(2)
	}
	tier := arg
	if mode == "replay" {
		tier = "quick"
	}
	r := mon.NewRun(id, tier, seed, root)
	r.Rule = p.Rule
	c := &props.Ctx{R: r, Thorough: tier == "thorough", Seed: seed, RNG: gen.New(uint64(seed)), Workers: props.DefaultWorkers(), Env: envMap()}
	if w, err := strconv.Atoi(os.Getenv("VERIF_WORKERS")); err == nil && w > 0 {
		c.Workers = w
	}
	if sc, err := strconv.Atoi(os.Getenv("VERIF_SCALE")); err == nil && sc > 0 {
		c.Scale = sc
	}
	switch mode {
	case "run":
		if tier != "quick" && tier != "thorough" {
			fmt.Fprintln(os.Stderr, "tier must be quick or thorough")
			os.Exit(2)
		}
		p.Run(c)
	case "replay":
		r.SetReplayMode()
		b, err := os.ReadFile(arg)
		if err != nil {
			fmt.Printf("INCONCLUSIVE property=%s cannot read replay file: %v\n", id, err)
			os.Exit(2)
		}
		var v mon.Violation
		if err := json.Unmarshal(b, &v); err != nil {
			fmt.Printf("INCONCLUSIVE property=%s bad replay file: %v\n", id, err)
			os.Exit(2)
		}
		if p.Replay == nil {
			fmt.Printf("INCONCLUSIVE property=%s has no single-case replay; re-run the check with VERIF_SEED=%d\n", id, v.Seed)
			os.Exit(2)
		}
		if err := p.Replay(c, v.Kind, v.Case); err != nil {
			fmt.Printf("INCONCLUSIVE property=%s replay failed: %v\n", id, err)
			os.Exit(2)
		}
	default:
		os.Exit(2)
	}
	os.Exit(r.Finish())
}

// supervise runs the monitor in a child process. A monitor killed by a process-fatal error of the
// code under test (Go exits with status 2 for "fatal error: concurrent map writes", checkptr, stack
// overflow …) must not be mistaken for "inconclusive": the run is repeated with one worker; if that
// completes, its verdict stands (the crash needed concurrency: C11's business, noted); if it dies
// again with a frame of the module under test on the stack, that is a violation of this property
// (an operation did not return), with the crash log as the replay artefact.
func supervise(id, tier string) int {
	self, err := os.Executable()
	if err != nil {
		fmt.Printf("INCONCLUSIVE property=%s cannot locate own executable\n", id)
		return 2
	}
	root := os.Getenv("VERIF_ROOT_OUT")
	if root == "" {
		root = os.Getenv("VERIF_ROOT")
	}
	if root == "" {
		root = "/verif"
	}
	runInner := func(extraEnv ...string) (code int, verdict bool, crash string) {
		cmd := exec.Command(self, "run-inner", id, tier)
		cmd.Env = append(os.Environ(), extraEnv...)
		var outBuf, errBuf tailBuffer
		cmd.Stdout = io.MultiWriter(os.Stdout, &outBuf)
		cmd.Stderr = io.MultiWriter(os.Stderr, &errBuf)
		err := cmd.Run()
		code = 0
		if ee, ok := err.(*exec.ExitError); ok {
			code = ee.ExitCode()
		} else if err != nil {
			code = 2
		}
		o := outBuf.String()
		verdict = strings.Contains(o, "\nHELD property=") || strings.HasPrefix(o, "HELD property=") || strings.Contains(o, "VIOLATED property=") || strings.Contains(o, "INCONCLUSIVE property=")
		return code, verdict, errBuf.String()
	}
	code, verdict, crash := runInner()
	if verdict {
		return code
	}
	moduleFrame := func(s string) bool {
		return strings.Contains(s, "github.com/ja7ad/otp") && (strings.Contains(s, "fatal error:") || strings.Contains(s, "panic:") || strings.Contains(s, "unexpected signal") || strings.Contains(s, "checkptr"))
	}
	if !moduleFrame(crash) {
		fmt.Printf("INCONCLUSIVE property=%s the monitor process ended without a verdict (exit %d) and the crash does not implicate the module under test\n", id, code)
		return 2
	}
	fmt.Printf("NOTE property=%s the monitor process was killed by a process-fatal error inside the module under test; repeating with one worker\n", id)
	code2, verdict2, crash2 := runInner("VERIF_WORKERS=1")
	if verdict2 {
		fmt.Printf("NOTE property=%s the parallel run died but the single-worker run completed: the fatal error needs concurrency (see C11)\n", id)
		return code2
	}
	if !moduleFrame(crash2) {
		fmt.Printf("INCONCLUSIVE property=%s the monitor process ended without a verdict twice (exit %d, %d)\n", id, code, code2)
		return 2
	}
	os.MkdirAll(filepath.Join(root, "replays"), 0o755)
	p := filepath.Join(root, "replays", fmt.Sprintf("%s-%s-crash.log", id, os.Getenv("VERIF_SEED")))
	os.WriteFile(p, []byte(crash2), 0o644)
	first := crash2
	if i := strings.Index(first, "\n\n"); i > 0 {
		first = first[:i]
	}
	fmt.Printf("VIOLATION property=%s replay=%s\n  signature: %s|process-fatal|sequential|\n  what: an operation of the module under test ends the process with a fatal error even when called sequentially\n  observed: %s\n", id, p, id, first)
	return 1
}

// tailBuffer keeps the last 256 KiB written to it.
type tailBuffer struct{ b []byte }

func (t *tailBuffer) Write(p []byte) (int, error) {
	t.b = append(t.b, p...)
	if len(t.b) > 512<<10 {
		t.b = append([]byte(nil), t.b[len(t.b)-(256<<10):]...)
	}
	return len(p), nil
}
func (t *tailBuffer) String() string { return string(t.b) }
