// check is the monitor driver: check run <ID> <quick|thorough> | check replay <ID> <file>.
// Exit 0 held, 1 violated (with VIOLATION lines), 2 inconclusive (machinery failed / observed nothing).
package main

import (
	"encoding/json"
	"fmt"
	"os"
	"strconv"
	"strings"

	"verifh/gen"
	"verifh/mon"
	"verifh/props"
	"verifh/ref"
)

func envMap() map[string]string {
	m := map[string]string{}
	for _, kv := range os.Environ() {
		if i := strings.IndexByte(kv, '='); i > 0 && strings.HasPrefix(kv, "VERIF_") {
			m[kv[:i]] = kv[i+1:]
		}
	}
	return m
}

func main() {
	if len(os.Args) >= 2 && os.Args[1] == "child" {
		os.Exit(props.ChildMain(os.Args[2:]))
	}
	if len(os.Args) < 4 {
		fmt.Fprintln(os.Stderr, "usage: check run <ID> <quick|thorough> | check replay <ID> <file> | check child ...")
		os.Exit(2)
	}
	mode, id, arg := os.Args[1], os.Args[2], os.Args[3]
	root := os.Getenv("VERIF_ROOT_OUT") // self-test runs redirect evidence/replays away from /verif
	if root == "" {
		root = os.Getenv("VERIF_ROOT")
	}
	if root == "" {
		root = "/verif"
	}
	seed, _ := strconv.ParseInt(os.Getenv("VERIF_SEED"), 10, 64)
	if seed == 0 {
		seed = 1
	}
	p := props.Get(id)
	if p == nil {
		fmt.Printf("INCONCLUSIVE property=%s no such check\n", id)
		os.Exit(2)
	}
	if err := ref.SelfTest(); err != nil {
		fmt.Printf("INCONCLUSIVE property=%s reference-model self-test failed: %v\n", id, err)
		os.Exit(2)
	}
	tier := arg
	if mode == "replay" {
		tier = "quick"
	}
	r := mon.NewRun(id, tier, seed, root)
	r.Rule = p.Rule
	c := &props.Ctx{R: r, Thorough: tier == "thorough", Seed: seed, RNG: gen.New(uint64(seed)), Workers: props.DefaultWorkers(), Env: envMap()}
	switch mode {
	case "run":
		if tier != "quick" && tier != "thorough" {
			fmt.Fprintln(os.Stderr, "tier must be quick or thorough")
			os.Exit(2)
		}
		p.Run(c)
	case "replay":
		r.SetReplayMode()
		b, err := os.ReadFile(arg)
		if err != nil {
			fmt.Printf("INCONCLUSIVE property=%s cannot read replay file: %v\n", id, err)
			os.Exit(2)
		}
		var v mon.Violation
		if err := json.Unmarshal(b, &v); err != nil {
			fmt.Printf("INCONCLUSIVE property=%s bad replay file: %v\n", id, err)
			os.Exit(2)
		}
		if p.Replay == nil {
			fmt.Printf("INCONCLUSIVE property=%s has no single-case replay; re-run the check with VERIF_SEED=%d\n", id, v.Seed)
			os.Exit(2)
		}
		if err := p.Replay(c, v.Kind, v.Case); err != nil {
			fmt.Printf("INCONCLUSIVE property=%s replay failed: %v\n", id, err)
			os.Exit(2)
		}
	default:
		os.Exit(2)
	}
	os.Exit(r.Finish())
}
