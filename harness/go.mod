module verifh

go 1.24

require github.com/ja7ad/otp v0.0.0

replace github.com/ja7ad/otp => /repo
