// Package gen holds the seeded generators and boundary catalogues. Every random
// choice in the framework comes from one splitmix64 stream seeded by VERIF_SEED.
package gen

import (
	"time"
	_ "time/tzdata" // real zone rules without depending on the host's zoneinfo
	"unsafe"
)

type RNG struct{ s uint64 }

func New(seed uint64) *RNG { return &RNG{s: seed*0x9E3779B97F4A7C15 + 0x1234567} }

// Fork derives an independent stream (for a worker / sub-workload) from a label.
func (r *RNG) Fork(label uint64) *RNG {
	return &RNG{s: r.U64() ^ (label+1)*0xD1B54A32D192ED03}
}

func (r *RNG) U64() uint64 {
	r.s += 0x9E3779B97F4A7C15
	z := r.s
	z = (z ^ (z >> 30)) * 0xBF58476D1CE4E5B9
	z = (z ^ (z >> 27)) * 0x94D049BB133111EB
	return z ^ (z >> 31)
}
func (r *RNG) Intn(n int) int {
	if n <= 0 {
		return 0
	}
	return int(r.U64() % uint64(n))
}
func (r *RNG) Bool() bool { return r.U64()&1 == 1 }
func (r *RNG) Bytes(n int) []byte {
	b := make([]byte, n)
	for i := 0; i < n; i += 8 {
		v := r.U64()
		for j := 0; j < 8 && i+j < n; j++ {
			b[i+j] = byte(v >> (8 * uint(j)))
		}
	}
	return b
}
func Pick[T any](r *RNG, xs []T) T { return xs[r.Intn(len(xs))] }

// SecretLens: emphasis lengths from DESIGN §6.
var SecretLens = []int{0, 1, 2, 3, 4, 5, 10, 19, 20, 21, 25, 31, 32, 33, 40, 63, 64, 65, 80, 127, 128, 129, 200, 256}

// AmbiguousKey returns key bytes whose base32 spelling also reads as text in another encoding
// (only hex digits A-F/2-7, only decimal digits 2-7, one repeated letter): n must be a multiple of 5.
func AmbiguousKey(r *RNG, n int) []byte {
	alpha := Pick(r, []string{"ABCDEF234567", "234567", "A", "7", "F2", "DEADBEEFCAFE2345"})
	// build the base32 text first, then decode it (n bytes <-> 8n/5 characters)
	const b32 = "ABCDEFGHIJKLMNOPQRSTUVWXYZ234567"
	chars := n / 5 * 8
	out := make([]byte, 0, n)
	var acc uint64
	bits := 0
	for i := 0; i < chars; i++ {
		c := alpha[r.Intn(len(alpha))]
		idx := 0
		for j := 0; j < 32; j++ {
			if b32[j] == c {
				idx = j
			}
		}
		acc = acc<<5 | uint64(idx)
		bits += 5
		for bits >= 8 {
			bits -= 8
			out = append(out, byte(acc>>uint(bits)))
			acc &= (1 << uint(bits)) - 1
		}
	}
	return out
}

// SecretBytes returns key material of the given length in one of three content classes.
func SecretBytes(r *RNG, n int, class int) []byte {
	b := make([]byte, n)
	switch class % 3 {
	case 0:
	case 1:
		for i := range b {
			b[i] = 0xff
		}
	default:
		copy(b, r.Bytes(n))
	}
	return b
}

// Counters: the boundary catalogue for 64-bit counters.
var Counters = []uint64{
	0, 1, 2, 3, 9, 10, 11, 255, 256, 65535, 65536,
	1<<31 - 1, 1 << 31, 1<<31 + 1, 1<<32 - 1, 1 << 32, 1<<32 + 1,
	1<<53 - 1, 1 << 53, 1<<53 + 1,
	1<<63 - 1, 1 << 63, 1<<63 + 1, 1<<63 + 11,
	1<<64 - 12, 1<<64 - 11, 1<<64 - 3, 1<<64 - 2, 1<<64 - 1,
}

func Counter(r *RNG) uint64 {
	switch r.Intn(4) {
	case 0:
		return Pick(r, Counters)
	case 1:
		return uint64(r.Intn(1000))
	case 2:
		return Pick(r, Counters) + uint64(r.Intn(21)) - 10
	default:
		return r.U64()
	}
}

var Periods = []uint64{0, 1, 2, 29, 30, 31, 60, 3600, 86400, 1 << 31, 1<<32 - 1, 1 << 32}

func Period(r *RNG) uint64 {
	if r.Intn(3) == 0 {
		return 1 + uint64(r.Intn(1<<16))
	}
	return Pick(r, Periods)
}

// UnixSeconds: instants in [0, 2^62).
func UnixSeconds(r *RNG, period uint64) int64 {
	p := period
	if p == 0 {
		p = 30
	}
	switch r.Intn(6) {
	case 0:
		return int64(r.Intn(4))
	case 1: // around a step boundary
		k := r.U64() % (uint64(1<<62-1) / p)
		v := int64(k*p) + int64(r.Intn(5)) - 2
		if v < 0 {
			v = 0
		}
		if v >= 1<<62 {
			v = 1<<62 - 1
		}
		return v
	case 2:
		return Pick(r, []int64{1<<31 - 1, 1 << 31, 1<<31 + 1, 1<<32 - 1, 1 << 32, 1<<32 + 1, 1<<62 - 1, 59, 1111111109, 20000000000})
	case 3:
		return int64(r.U64() % (1 << 62))
	default:
		return int64(r.U64() % (1 << 34)) // realistic range
	}
}

var zones = []*time.Location{
	time.UTC, time.Local,
	time.FixedZone("p14", 14*3600), time.FixedZone("m12", -12*3600), time.FixedZone("npt", 5*3600+45*60),
}

// NFixedZones is the number of zones without daylight-saving rules at the head of the zone list.
const NFixedZones = 5

// Transitions holds unix seconds at which some real zone changes its UTC offset (daylight-saving switches,
// including the repeated hour when clocks go back), found by scanning 1996..2037.
var Transitions []int64

func init() {
	for _, name := range []string{"America/New_York", "Europe/Berlin", "Australia/Lord_Howe", "Pacific/Apia", "America/St_Johns", "Asia/Tehran"} {
		loc, err := time.LoadLocation(name)
		if err != nil {
			continue
		}
		zones = append(zones, loc)
		_, prev := time.Unix(820454400, 0).In(loc).Zone()
		for u := int64(820454400); u < 2145916800; u += 3600 {
			_, off := time.Unix(u, 0).In(loc).Zone()
			if off != prev {
				// refine to the half hour
				if _, o2 := time.Unix(u-1800, 0).In(loc).Zone(); o2 == off {
					Transitions = append(Transitions, u-1800)
				} else {
					Transitions = append(Transitions, u)
				}
				prev = off
			}
		}
	}
}

// NZones is the number of locations InstantSpec.Zone may index.
func NZones() int { return len(zones) }

// InstantSpec describes a time.Time value completely enough to rebuild it.
type InstantSpec struct {
	Unix int64 `json:"unix"`
	Ns   int64 `json:"ns"`
	Zone int   `json:"zone"`
	Mono bool  `json:"mono"`
	// MonoSkewNs (with Mono): the monotonic reading is shifted by this much against the wall clock, as in a
	// time.Time taken before/after the wall clock was stepped (NTP correction, suspend/resume, VM migration):
	// wall second, nanosecond and zone are untouched, only Sub/Before/After/Equal between such values differ.
	MonoSkewNs int64 `json:"mono_skew_ns,omitempty"`
}

func (r *RNG) InstantSpec(unix int64) InstantSpec {
	s := InstantSpec{Unix: unix, Ns: Pick(r, []int64{0, 1, 999999999, int64(r.Intn(1000000000))}), Zone: r.Intn(len(zones)), Mono: r.Intn(3) == 0}
	if s.Mono && r.Bool() {
		// a reading that disagrees with the wall clock by up to +-1 day (clock stepped since the reading was taken)
		s.MonoSkewNs = (int64(r.Intn(172800)) - 86400) * Pick(r, []int64{1, 1000, 1000000, 1000000000})
	}
	return s
}

// TransitionInstant returns an instant within +-2 h of a daylight-saving switch of some real zone, rendered in a real zone.
func (r *RNG) TransitionInstant() InstantSpec {
	if len(Transitions) == 0 || len(zones) <= NFixedZones {
		return r.InstantSpec(1730613600)
	}
	u := Pick(r, Transitions) + int64(r.Intn(4*3600)) - 2*3600
	return InstantSpec{Unix: u, Ns: int64(r.Intn(1000000000)), Zone: NFixedZones + r.Intn(len(zones)-NFixedZones)}
}

// Time builds the time.Time: arbitrary nanoseconds and location, and (when Mono
// and representable) a value carrying a monotonic clock reading that denotes
// the same wall instant.
func (s InstantSpec) Time() time.Time {
	z := zones[s.Zone%len(zones)]
	t := time.Unix(s.Unix, s.Ns).In(z)
	if s.Mono {
		now := time.Now()
		d := time.Unix(s.Unix, s.Ns).Sub(now)
		if tm := now.Add(d); tm.Unix() == s.Unix && int64(tm.Nanosecond()) == s.Ns {
			// (Time.In drops the monotonic reading, so the zone is set on the representation instead)
			if tz := withLoc(tm, z); MonoShiftWorks && hasMono(tz) {
				t = shiftMono(tz, s.MonoSkewNs)
			} else {
				t = tm // monotonic reading kept, host zone
			}
		}
	}
	return t
}

func hasMono(t time.Time) bool { return (*timeRepr)(unsafe.Pointer(&t)).wall>>63 != 0 }

// HasMono reports whether t carries a monotonic clock reading (false when the layout assumption does not hold).
func HasMono(t time.Time) bool { return MonoShiftWorks && hasMono(t) }

func withLoc(t time.Time, z *time.Location) time.Time {
	if !MonoShiftWorks {
		return t
	}
	r := (*timeRepr)(unsafe.Pointer(&t))
	if z == time.UTC {
		r.loc = nil
	} else {
		r.loc = z
	}
	return t
}

// timeRepr mirrors the layout of time.Time in the pinned toolchain (wall, ext, loc); MonoShiftWorks reports
// whether that assumption holds in this build (checked once, by behaviour).
type timeRepr struct {
	wall uint64
	ext  int64
	loc  *time.Location
}

func shiftMono(t time.Time, d int64) time.Time {
	if !MonoShiftWorks {
		return t
	}
	r := (*timeRepr)(unsafe.Pointer(&t))
	if r.wall>>63 == 0 || d == 0 {
		return t // no monotonic reading
	}
	r.ext += d
	return t
}

// MonoShiftWorks: a shifted value keeps its wall clock reading and differs from the original by exactly the shift
// in monotonic comparisons.
var MonoShiftWorks = func() bool {
	if unsafe.Sizeof(time.Time{}) != unsafe.Sizeof(timeRepr{}) {
		return false
	}
	a := time.Now()
	b := a
	r := (*timeRepr)(unsafe.Pointer(&b))
	if r.wall>>63 == 0 {
		return false
	}
	r.ext += 5e9
	z := time.FixedZone("x", 3600)
	r.loc = z
	return b.Unix() == a.Unix() && b.Nanosecond() == a.Nanosecond() && b.Sub(a) == 5*time.Second && b.After(a) && !b.Equal(a) && b.Round(0).Equal(a.Round(0)) && b.UnixNano() == a.UnixNano() &&
		b.Location() == z && b.Hour() == a.In(z).Hour() && b.Format(time.RFC3339Nano) == a.In(z).Format(time.RFC3339Nano)
}()

// Spell renders key bytes as base32 text in one of the accepted spellings.
// enc is the canonical padded upper-case encoding (supplied by the caller's
// reference encoder so this package stays free of codecs).
func Spell(r *RNG, enc string, variant int) string {
	data := enc
	for len(data) > 0 && data[len(data)-1] == '=' {
		data = data[:len(data)-1]
	}
	pads := len(enc) - len(data)
	var s string
	switch variant % 4 {
	case 0:
		s = enc
	case 1:
		s = data
	case 2:
		if pads > 0 {
			s = data + enc[len(data):len(data)+r.Intn(pads)]
		} else {
			s = data
		}
	default:
		s = enc
	}
	b := []byte(s)
	switch (variant / 4) % 3 {
	case 1:
		for i, c := range b {
			if c >= 'A' && c <= 'Z' {
				b[i] = c + 32
			}
		}
	case 2:
		for i, c := range b {
			if c >= 'A' && c <= 'Z' && r.Bool() {
				b[i] = c + 32
			}
		}
	}
	s = string(b)
	ws := []string{"", " ", "\t", "\n", "\r\n", "  \t "}
	switch (variant / 12) % 3 {
	case 1:
		s = Pick(r, ws) + s + Pick(r, ws)
	case 2:
		s = "\n " + s + " \t\n"
	}
	return s
}

const NSpellings = 36

// HostileStrings: submitted-code classes other than real codes.
func HostileCodes(r *RNG, expected string) []string {
	n := len(expected)
	out := []string{"", " ", expected + " ", " " + expected, expected + "0", "0" + expected, expected + expected}
	if n > 0 {
		out = append(out, expected[:n-1], expected[1:])
		// single-character substitutions
		for i := 0; i < n; i++ {
			b := []byte(expected)
			b[i] = '0' + (b[i]-'0'+1+byte(r.Intn(9)))%10
			out = append(out, string(b))
		}
		// bytes that agree with the right digit in some bits only (same low nibble, same value, high bit set, case-bit flipped):
		// catches comparisons that mask, parse or normalise instead of comparing byte for byte
		for i := 0; i < n; i++ {
			for _, f := range []func(c byte) byte{
				func(c byte) byte { return c ^ 0x40 }, func(c byte) byte { return c ^ 0x10 }, func(c byte) byte { return c ^ 0x80 },
				func(c byte) byte { return c ^ 0x20 }, func(c byte) byte { return c - '0' }, func(c byte) byte { return c + 0x40 }, func(c byte) byte { return c | 0xF0 },
			} {
				if i%2 == int(r.U64()&1) || n <= 6 {
					b := []byte(expected)
					b[i] = f(b[i])
					out = append(out, string(b))
				}
			}
		}
		// positional-value look-alikes: adjacent pair (a, b) rewritten as (a+1, b-10) or (a-1, b+10) — equal under
		// "v = v*10 + (c-'0')" without digit validation, different as strings
		for i := 0; i+1 < n; i++ {
			a, b2 := expected[i], expected[i+1]
			up := []byte(expected)
			up[i], up[i+1] = a+1, b2-10
			dn := []byte(expected)
			dn[i], dn[i+1] = a-1, b2+10
			out = append(out, string(up), string(dn))
			if i+2 < n {
				tr := []byte(expected)
				tr[i], tr[i+1], tr[i+2] = a+1, b2-9, expected[i+2]-10
				out = append(out, string(tr))
			}
		}
		// numeric look-alikes of the same length: sign / space instead of a leading zero, value + 2^32 for 10 digits
		out = append(out, " "+expected[1:], "+"+expected[1:], expected[:n-1]+" ")
		if n == 10 {
			var v uint64
			for i := 0; i < n; i++ {
				v = v*10 + uint64(expected[i]-'0')
			}
			for _, w := range []uint64{v + 1<<32, v + 1<<31, v + 1<<33} {
				sw := ""
				for x := w; x > 0; x /= 10 {
					sw = string(rune('0'+x%10)) + sw
				}
				if len(sw) == n {
					out = append(out, sw)
				}
			}
		}
		// non-ASCII digits: full-width and Arabic-Indic, same characters / same byte length
		fw := ""
		ai := ""
		for i := 0; i < n; i++ {
			fw += string(rune(0xFF10 + int(expected[i]-'0')))
			ai += string(rune(0x0660 + int(expected[i]-'0')))
		}
		out = append(out, fw, ai)
		if n >= 3 {
			out = append(out, fw[:3]+expected[3:]) // same byte length as expected, begins with a full-width digit
		}
		if n >= 2 {
			out = append(out, ai[:2]+expected[2:])
		}
		b := []byte(expected)
		b[n-1] = 0
		out = append(out, string(b))
		b = []byte(expected)
		b[0] = 0xff
		out = append(out, string(b))
		out = append(out, "+"+expected[1:], "-"+expected[1:])
	}
	out = append(out, string(r.Bytes(n)), string(r.Bytes(r.Intn(20))))
	return out
}

// URLStrings: issuer/account material.
var urlAlphabet = []string{"a", "Z", "0", " ", "%", "/", "?", "#", "&", "=", "+", "@", "é", "日", "🙂", "%20", "%zz", "%2", "%25", "́", ".", "~", "-", "_", "!", "*", "'", "(", ")", ";", ",", "$", "\"", "<", ">", "\\", "^", "`", "{", "|", "}", "[", "]"}

func URLString(r *RNG, allowColon bool) string {
	n := 1 + r.Intn(12)
	if r.Intn(20) == 0 {
		n = 50 + r.Intn(150)
	}
	s := ""
	for i := 0; i < n; i++ {
		if allowColon && r.Intn(10) == 0 {
			s += ":"
			continue
		}
		s += Pick(r, urlAlphabet)
	}
	return s
}

// ShiftPairs returns variants of a tuple of string-rendered arguments in which one character has moved across
// a field boundary (last character of field i to the front of field j, or first character of field i to the end
// of field j). Called back to back with the original, such tuples collide under any cache key built by
// concatenating fields without separators.
func ShiftPairs(fields []string) [][]string {
	var out [][]string
	for i := range fields {
		for j := range fields {
			if i == j || len(fields[i]) < 2 {
				continue
			}
			a := append([]string{}, fields...)
			a[j] = fields[i][len(fields[i])-1:] + fields[j]
			a[i] = fields[i][:len(fields[i])-1]
			out = append(out, a)
			b := append([]string{}, fields...)
			b[j] = fields[j] + fields[i][:1]
			b[i] = fields[i][1:]
			out = append(out, b)
		}
	}
	return out
}

// NeighbourKeys returns a base key of length n followed by keys that differ from it as little as possible:
// one byte changed at each of a set of positions (ends, middle, around hash block sizes 64/128 and around
// n itself), one byte shorter / longer, and same first half with a different second half. Called back to back
// with the base on one goroutine, such keys collide under any memo that identifies a key by less than all of it.
func NeighbourKeys(r *RNG, n int) [][]byte {
	base := r.Bytes(n)
	out := [][]byte{base}
	pos := map[int]bool{}
	for _, p := range []int{0, 1, n / 2, n - 2, n - 1, 19, 20, 31, 32, 63, 64, 65, 127, 128, 129, 255, 256} {
		if p >= 0 && p < n {
			pos[p] = true
		}
	}
	for p := 0; p < n; p++ {
		if !pos[p] {
			continue
		}
		v := append([]byte(nil), base...)
		v[p] ^= byte(1 << uint(r.Intn(8)))
		out = append(out, v)
	}
	if n > 1 {
		out = append(out, append([]byte(nil), base[:n-1]...))
		v := append([]byte(nil), base...)
		copy(v[n/2:], r.Bytes(n-n/2))
		if string(v) != string(base) {
			out = append(out, v)
		}
	}
	out = append(out, append(append([]byte(nil), base...), byte(r.Intn(256))))
	// zero bytes behind the key: HMAC pads a key SHORTER than the hash block with zeros, so K and K||00 are the same
	// key there - but from the block size on (64 bytes for SHA-1/SHA-256, 128 for SHA-512) they are different keys;
	// anything that remembers a key in zero-padded, fixed-width or NUL-terminated form confuses exactly those
	out = append(out, append(append([]byte(nil), base...), 0), append(append([]byte(nil), base...), 0, 0))
	for _, w := range []int{64, 65, 128, 129} {
		if n < w {
			out = append(out, append(append([]byte(nil), base...), make([]byte, w-n)...))
		}
	}
	if n > 1 {
		v := append([]byte(nil), base...)
		v[n-1] = 0
		out = append(out, v, append([]byte(nil), v[:n-1]...))
	}
	return out
}

// NeighbourKeyLengths are the key lengths NeighbourKeys is worth calling with.
var NeighbourKeyLengths = []int{1, 2, 10, 19, 20, 21, 32, 33, 63, 64, 65, 66, 100, 127, 128, 129, 130, 160, 161, 200, 255, 256, 257, 300, 1000}

// CaseOddRunes: letters whose lower- or upper-case mapping has a different UTF-8 length, or maps onto ASCII
// (Kelvin sign -> k, long s -> S, dotless i -> I, Ohm -> omega, Angstrom -> a-ring, capital sharp s, dotted capital I,
// U+023A/U+023E whose lower case is one byte longer, titlecase digraphs).
var CaseOddRunes = []rune{0x212A, 0x017F, 0x0131, 0x0130, 0x2126, 0x212B, 0x1E9E, 0x023A, 0x023E, 0x2C65, 0x01C5, 0x01C8, 0x00DF, 0x0149, 0x1F88, 0xFB00}

// CaseOddString returns a short string mixing ASCII letters with CaseOddRunes.
func CaseOddString(r *RNG) string {
	n := 1 + r.Intn(4)
	s := ""
	for i := 0; i < n; i++ {
		if r.Intn(3) == 0 {
			s += string(rune('A' + r.Intn(26)))
		} else {
			s += string(Pick(r, CaseOddRunes))
		}
	}
	return s
}

// Related derives a second argument from a first one the way real callers' data is related: equal, another letter
// case (with Go's Unicode mappings, which may change the byte length), the first as a "prefix:" of the second, a
// suffix, doubled, cut inside a multi-byte character.
func Related(r *RNG, s string, lower, upper func(string) string) string {
	rest := Pick(r, []string{"", "a", "alice@example.com", ":", " x"})
	switch r.Intn(12) {
	case 0:
		return s
	case 1:
		return lower(s)
	case 2:
		return upper(s)
	case 3:
		return s + ":" + rest
	case 4:
		return lower(s) + ":" + rest
	case 5:
		return upper(s) + ":" + rest
	case 6:
		return s + ": " + rest
	case 7:
		return rest + ":" + s
	case 8:
		return s + s
	case 9:
		if len(s) > 1 {
			return s[:len(s)-1]
		}
		return s
	case 10:
		if len(s) > 1 {
			return s[1:] + ":" + rest
		}
		return s
	default:
		return lower(s) + rest
	}
}
