package ref

import (
	"errors"
	"strings"
)

const b32alpha = "ABCDEFGHIJKLMNOPQRSTUVWXYZ234567"

// Base32Encode is RFC 4648 base32 with padding.
func Base32Encode(b []byte) string {
	var sb strings.Builder
	for i := 0; i < len(b); i += 5 {
		var chunk [5]byte
		n := copy(chunk[:], b[i:])
		v := uint64(chunk[0])<<32 | uint64(chunk[1])<<24 | uint64(chunk[2])<<16 | uint64(chunk[3])<<8 | uint64(chunk[4])
		chars := [...]int{0, 2, 4, 5, 7, 8}[n]
		for j := 0; j < 8; j++ {
			if j < chars {
				sb.WriteByte(b32alpha[(v>>(35-5*uint(j)))&31])
			} else {
				sb.WriteByte('=')
			}
		}
	}
	return sb.String()
}

func Base32EncodeNoPad(b []byte) string { return strings.TrimRight(Base32Encode(b), "=") }

func isASCIISpace(c byte) bool {
	return c == ' ' || c == '\t' || c == '\n' || c == '\r' || c == '\v' || c == '\f'
}

// Base32Decode is the secret-decoding model: surrounding ASCII white space is
// ignored, ASCII letters are case-folded, padding is optional (any amount of
// trailing '=' that keeps the text a prefix of the canonical padded form, or
// none). Everything else is an error: characters outside A-Z a-z 2-7 =,
// padding in the middle, impossible lengths (1, 3, 6 mod 8 data characters),
// non-zero trailing bits are NOT rejected (RFC 4648 lets decoders choose; the
// monitors never generate such texts for the accept side).
//
// strict==false callers only use the result when err==nil.
func Base32Decode(text string) ([]byte, error) {
	s := text
	for len(s) > 0 && isASCIISpace(s[0]) {
		s = s[1:]
	}
	for len(s) > 0 && isASCIISpace(s[len(s)-1]) {
		s = s[:len(s)-1]
	}
	// strip trailing padding
	data := strings.TrimRight(s, "=")
	pads := len(s) - len(data)
	if strings.ContainsRune(data, '=') {
		return nil, errors.New("padding inside data")
	}
	switch len(data) % 8 {
	case 1, 3, 6:
		return nil, errors.New("impossible length")
	}
	if pads > 0 {
		// padding, when present, may not exceed what completes the last block.
		// (canonical: exactly completes; partial padding is accepted by the
		// library because it re-pads; more than a block's worth is invalid)
		need := (8 - len(data)%8) % 8
		if pads > need {
			return nil, errors.New("too much padding")
		}
	}
	var out []byte
	var acc uint64
	bits := 0
	for i := 0; i < len(data); i++ {
		c := data[i]
		if c >= 'a' && c <= 'z' {
			c -= 32
		}
		idx := strings.IndexByte(b32alpha, c)
		if idx < 0 {
			return nil, errors.New("character outside alphabet")
		}
		acc = acc<<5 | uint64(idx)
		bits += 5
		if bits >= 8 {
			bits -= 8
			out = append(out, byte(acc>>uint(bits)))
			acc &= (1 << uint(bits)) - 1
		}
	}
	if out == nil {
		out = []byte{}
	}
	return out, nil
}
