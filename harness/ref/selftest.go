package ref

import (
	"fmt"
)

// SelfTest runs the reference models against the published vectors. A failure
// means the oracle is broken: callers must report INCONCLUSIVE, never VIOLATION.
func SelfTest() error {
	k20 := []byte("12345678901234567890")
	k32 := []byte("12345678901234567890123456789012")
	k64 := []byte("1234567890123456789012345678901234567890123456789012345678901234")
	// RFC 4226 Appendix D
	want := []string{"755224", "287082", "359152", "969429", "338314", "254676", "287922", "162583", "399871", "520489"}
	for c, w := range want {
		if g := HOTP(k20, uint64(c), 6, SHA1); g != w {
			return fmt.Errorf("RFC4226 vector %d: got %s want %s", c, g, w)
		}
	}
	// RFC 4226 intermediate: count 0 → 1284755224 ; count 1 → 1094287082
	if g := HOTP(k20, 1, 10, SHA1); g != "1094287082" {
		return fmt.Errorf("RFC4226 31-bit value for count 1: got %s", g)
	}
	for _, v := range []uint32{0, 1, 9, 10, 999999, 1000000, 1094287082, 1284755224, 2147483647, 2000000000, 1410065408} {
		for d := 1; d <= 10; d++ {
			if Format(v, d) != FormatBig(v, d) {
				return fmt.Errorf("Format(%d,%d) disagrees with the big-integer definition", v, d)
			}
		}
	}
	// RFC 6238 Appendix B
	type tv struct {
		t          int64
		s1, s2, s5 string
	}
	for _, v := range []tv{
		{59, "94287082", "46119246", "90693936"},
		{1111111109, "07081804", "68084774", "25091201"},
		{1111111111, "14050471", "67062674", "99943326"},
		{1234567890, "89005924", "91819424", "93441116"},
		{2000000000, "69279037", "90698825", "38618901"},
		{20000000000, "65353130", "77737706", "47863826"},
	} {
		if g := TOTP(k20, v.t, 30, 8, SHA1); g != v.s1 {
			return fmt.Errorf("RFC6238 SHA1 t=%d: got %s want %s", v.t, g, v.s1)
		}
		if g := TOTP(k32, v.t, 30, 8, SHA256); g != v.s2 {
			return fmt.Errorf("RFC6238 SHA256 t=%d: got %s want %s", v.t, g, v.s2)
		}
		if g := TOTP(k64, v.t, 0, 8, SHA512); g != v.s5 {
			return fmt.Errorf("RFC6238 SHA512 t=%d: got %s want %s", v.t, g, v.s5)
		}
	}
	// RFC 4648 §10
	for _, p := range [][2]string{{"", ""}, {"f", "MY======"}, {"fo", "MZXQ===="}, {"foo", "MZXW6==="}, {"foob", "MZXW6YQ="}, {"fooba", "MZXW6YTB"}, {"foobar", "MZXW6YTBOI======"}} {
		if g := Base32Encode([]byte(p[0])); g != p[1] {
			return fmt.Errorf("RFC4648 encode %q: got %s", p[0], g)
		}
		for _, text := range []string{p[1], Base32EncodeNoPad([]byte(p[0])), " \t" + lower(p[1]) + "\n"} {
			d, err := Base32Decode(text)
			if err != nil || string(d) != p[0] {
				return fmt.Errorf("RFC4648 decode %q: got %q %v", text, d, err)
			}
		}
	}
	for _, bad := range []string{"M", "MZX", "MZXW6Y", "MZ=XW6YQ", "M1======", "MZXW6YT!", "MY=======", "ſſſſſſſſ"} {
		if _, err := Base32Decode(bad); err == nil {
			return fmt.Errorf("base32 model accepted %q", bad)
		}
	}
	// RFC 6287 Appendix C
	for i, v := range OCRAVectors {
		s, ok := ParseSuiteName(v.Suite)
		if !ok {
			return fmt.Errorf("OCRA vector %d: suite %q not parsed", i, v.Suite)
		}
		key, _ := HexDecode(v.KeyHex)
		var in Input
		if v.CounterDec != "" {
			c, ok := ParseUint64Dec(v.CounterDec)
			if !ok {
				return fmt.Errorf("OCRA vector %d: counter", i)
			}
			in.Counter = BE8(c)
		}
		q, ok := QuestionToBytes(v.QuestionDec)
		if !ok {
			return fmt.Errorf("OCRA vector %d: question", i)
		}
		in.Challenge = q
		if v.PasswordHex != "" {
			in.Password, _ = HexDecode(v.PasswordHex)
		}
		if v.TimestampHex != "" {
			in.Timestamp, _ = HexDecode(LeftPadHex(v.TimestampHex, 16))
		}
		if !SuiteUsable(s) || !Admit(s, in) {
			return fmt.Errorf("OCRA vector %d: model rejects RFC input", i)
		}
		if g := OCRA(key, s, in); g != v.Expected {
			return fmt.Errorf("OCRA vector %d (%s): got %s want %s", i, v.Suite, g, v.Expected)
		}
	}
	// suite-name parser on hand-written cases
	type pc struct {
		n  string
		ok bool
		s  Suite
	}
	for _, c := range []pc{
		{"OCRA-1:HOTP-SHA1-6:QN08", true, Suite{Hash: SHA1, Digits: 6, Q: true, Challenge: QN08}},
		{"OCRA-1:HOTP-SHA512-8:C-QH10-PSHA512-S-T1", true, Suite{Hash: SHA512, Digits: 8, C: true, Q: true, Challenge: QH10, P: true, PasswordHash: PSHA512, S: true, T: true, TimeStep: 1}},
		{"OCRA-1:HOTP-SHA256-7:QA10-S064-T2H", true, Suite{Hash: SHA256, Digits: 7, Q: true, Challenge: QA10, S: true, T: true, TimeStep: 7200}},
		{"OCRA-1:HOTP-SHA1-6:C", true, Suite{Hash: SHA1, Digits: 6, C: true}},
		{"OCRA-1:HOTP-SHA1-6:QN08-T30S", true, Suite{Hash: SHA1, Digits: 6, Q: true, Challenge: QN08, T: true, TimeStep: 30}},
		{"OCRA-2:HOTP-SHA1-6:QN08", false, Suite{}},
		{"OCRA-1x:HOTP-SHA1-6:QN08", false, Suite{}},
		{"OCRA-1:HOTP-SHA1-6", false, Suite{}},
		{"OCRA-1:HOTP-SHA1-6:QN08:extra", false, Suite{}},
		{"OCRA-1:HOTP-MD5-6:QN08", false, Suite{}},
		{"OCRA-1:HOTP-SHA1-6:QX08", false, Suite{}},
		{"OCRA-1:HOTP-SHA1-6:QN08-Z", false, Suite{}},
	} {
		g, ok := ParseSuiteName(c.n)
		if ok != c.ok {
			return fmt.Errorf("suite parser %q: ok=%v", c.n, ok)
		}
		if ok {
			c.s.Raw = c.n
			if g != c.s {
				return fmt.Errorf("suite parser %q: got %+v", c.n, g)
			}
		}
	}
	if g, ok := ParseSuiteNameFold("OCRA-1:hotp-Sha256-8:c-qn10-psha1-s064-t5M"); !ok || g != (Suite{Raw: "OCRA-1:hotp-Sha256-8:c-qn10-psha1-s064-t5M", Hash: SHA256, Digits: 8, C: true, Q: true, Challenge: QN10, P: true, PasswordHash: PSHA1, S: true, T: true, TimeStep: 300}) {
		return fmt.Errorf("folding suite parser: %+v %v", g, ok)
	}
	if _, ok := ParseSuiteNameFold("ocra-1:HOTP-SHA1-6:QN08"); ok {
		return fmt.Errorf("folding suite parser accepts a lower-case version tag")
	}
	// URL codec
	o, err := ParseOTPAuth("otpauth://totp/My%20Co%2Fx:al%3Aice%40x?secret=AB%3D&issuer=My+Co%2Fx&digits=8")
	if err != nil || o.Type != "totp" || o.Issuer != "My Co/x" || o.Account != "al:ice@x" || o.Query["secret"] != "AB=" || o.Query["issuer"] != "My Co/x" || o.Query["digits"] != "8" {
		return fmt.Errorf("URL model: %+v %v", o, err)
	}
	if PctEncode("a b%/é") != "a%20b%25%2F%C3%A9" {
		return fmt.Errorf("PctEncode")
	}
	// admission table
	s := Suite{Hash: SHA1, Digits: 6, C: true, Q: true, Challenge: QN10, P: true, PasswordHash: PSHA256, S: true, T: true, TimeStep: 1}
	okIn := Input{Counter: make([]byte, 8), Challenge: make([]byte, 10), Password: make([]byte, 32), Session: make([]byte, 128), Timestamp: make([]byte, 8)}
	if !Admit(s, okIn) {
		return fmt.Errorf("Admit rejects a valid input")
	}
	for name, mut := range map[string]func(*Input){
		"counter7": func(i *Input) { i.Counter = make([]byte, 7) },
		"chal9":    func(i *Input) { i.Challenge = make([]byte, 9) },
		"chal129":  func(i *Input) { i.Challenge = make([]byte, 129) },
		"pw20":     func(i *Input) { i.Password = make([]byte, 20) },
		"pwnil":    func(i *Input) { i.Password = nil },
		"sess129":  func(i *Input) { i.Session = make([]byte, 129) },
		"ts9":      func(i *Input) { i.Timestamp = make([]byte, 9) },
	} {
		in := okIn
		mut(&in)
		if Admit(s, in) {
			return fmt.Errorf("Admit accepts %s", name)
		}
	}
	return nil
}

func lower(s string) string {
	b := []byte(s)
	for i, c := range b {
		if c >= 'A' && c <= 'Z' {
			b[i] = c + 32
		}
	}
	return string(b)
}
