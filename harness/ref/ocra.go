package ref

import (
	"fmt"
	"math/big"
	"strconv"
	"strings"
)

// Challenge formats / password hashes mirror the numeric values of the
// library's public enums (part of the API, also used as integers by the REST layer).
const (
	QNone = 0
	QN08  = 1
	QN10  = 2
	QA08  = 3
	QA10  = 4
	QH08  = 5
	QH10  = 6

	PNone   = 0
	PSHA1   = 1
	PSHA256 = 2
	PSHA512 = 3
)

type Suite struct {
	Raw           string
	Hash          int
	Digits        int
	Challenge     int
	C, Q, P, S, T bool
	PasswordHash  int
	TimeStep      int
}

type Input struct {
	Counter, Challenge, Password, Session, Timestamp []byte
}

func challengeMin(f int) int {
	switch f {
	case QN08, QA08, QH08:
		return 8
	case QN10, QA10, QH10:
		return 10
	}
	return 0
}

func pwLen(p int) int {
	switch p {
	case PSHA1:
		return 20
	case PSHA256:
		return 32
	case PSHA512:
		return 64
	}
	return -1
}

// SuiteUsable: digits 4..10, hash supported, and each selected field has its
// format / password hash / positive time step specified. (C14, second sentence.)
func SuiteUsable(s Suite) bool {
	if s.Digits < 4 || s.Digits > 10 {
		return false
	}
	if !HashSupported(s.Hash) {
		return false
	}
	if s.Q && s.Challenge == QNone {
		return false
	}
	if s.P && s.PasswordHash == PNone {
		return false
	}
	if s.T && s.TimeStep <= 0 {
		return false
	}
	return true
}

// Admit: C14, first sentence. Only meaningful for enum values inside their
// declared ranges (challenge 0..6, password hash 0..3).
func Admit(s Suite, in Input) bool {
	if s.C && len(in.Counter) != 8 {
		return false
	}
	if s.Q {
		if len(in.Challenge) < challengeMin(s.Challenge) || len(in.Challenge) > 128 {
			return false
		}
	}
	if s.P {
		if len(in.Password) == 0 || len(in.Password) != pwLen(s.PasswordHash) {
			return false
		}
	}
	if s.S && len(in.Session) > 128 {
		return false
	}
	if s.T && len(in.Timestamp) != 8 {
		return false
	}
	return true
}

func rpad(b []byte, n int) []byte {
	out := make([]byte, n)
	copy(out, b)
	return out
}

// OCRAMessage is the RFC 6287 DataInput: suite ‖ 00 ‖ C ‖ Q(128) ‖ P ‖ S(128) ‖ T.
func OCRAMessage(s Suite, in Input) []byte {
	msg := append([]byte(s.Raw), 0)
	if s.C {
		msg = append(msg, in.Counter...)
	}
	if s.Q {
		msg = append(msg, rpad(in.Challenge, 128)...)
	}
	if s.P {
		msg = append(msg, in.Password...)
	}
	if s.S {
		msg = append(msg, rpad(in.Session, 128)...)
	}
	if s.T {
		msg = append(msg, in.Timestamp...)
	}
	return msg
}

func OCRA(key []byte, s Suite, in Input) string {
	return Format(DT(HMAC(s.Hash, key, OCRAMessage(s, in))), s.Digits)
}

// ParseSuiteName is a strict parser for
//
//	OCRA-1:HOTP-<SHA1|SHA256|SHA512>-<digits>:[C-]Q<N|A|H><nn>[-PSHA<1|256|512>][-S[nnn]][-T<n>[S|M|H]]
//
// plus the data-input "C" alone (the registry advertises three such names).
// Registry conventions accepted in addition to the RFC grammar: "S" without a
// length, and "T<n>" without a unit meaning n seconds. ok==false means the
// string is not well-formed under this grammar.
func ParseSuiteName(name string) (Suite, bool) {
	var s Suite
	s.Raw = name
	parts := strings.Split(name, ":")
	if len(parts) != 3 || parts[0] != "OCRA-1" {
		return s, false
	}
	cf := strings.Split(parts[1], "-")
	if len(cf) != 3 || cf[0] != "HOTP" {
		return s, false
	}
	switch cf[1] {
	case "SHA1":
		s.Hash = SHA1
	case "SHA256":
		s.Hash = SHA256
	case "SHA512":
		s.Hash = SHA512
	default:
		return s, false
	}
	if !allDigits(cf[2]) || len(cf[2]) > 2 || (len(cf[2]) == 2 && cf[2][0] == '0') {
		return s, false
	}
	d, _ := strconv.Atoi(cf[2])
	s.Digits = d
	toks := strings.Split(parts[2], "-")
	i := 0
	if i < len(toks) && toks[i] == "C" {
		s.C = true
		i++
	}
	if i < len(toks) && len(toks[i]) == 4 && toks[i][0] == 'Q' {
		t := toks[i]
		var base int
		switch t[1] {
		case 'N':
			base = QN08
		case 'A':
			base = QA08
		case 'H':
			base = QH08
		default:
			return s, false
		}
		switch t[2:] {
		case "08":
			s.Challenge = base
		case "10":
			s.Challenge = base + 1
		default:
			return s, false // other lengths 04..64 are RFC-legal but not representable here
		}
		s.Q = true
		i++
	}
	if i < len(toks) && strings.HasPrefix(toks[i], "PSHA") {
		switch toks[i] {
		case "PSHA1":
			s.PasswordHash = PSHA1
		case "PSHA256":
			s.PasswordHash = PSHA256
		case "PSHA512":
			s.PasswordHash = PSHA512
		default:
			return s, false
		}
		s.P = true
		i++
	}
	if i < len(toks) && strings.HasPrefix(toks[i], "S") {
		t := toks[i][1:]
		if !(t == "" || (len(t) == 3 && allDigits(t))) {
			return s, false
		}
		s.S = true
		i++
	}
	if i < len(toks) && strings.HasPrefix(toks[i], "T") {
		t := toks[i][1:]
		if t == "" {
			return s, false
		}
		unit := byte('S')
		num := t
		switch t[len(t)-1] {
		case 'S', 'M', 'H':
			unit = t[len(t)-1]
			num = t[:len(t)-1]
		}
		if !allDigits(num) || len(num) > 2 || num[0] == '0' {
			return s, false
		}
		n, _ := strconv.Atoi(num)
		switch unit {
		case 'S':
			s.TimeStep = n
		case 'M':
			s.TimeStep = 60 * n
		case 'H':
			s.TimeStep = 3600 * n
		}
		s.T = true
		i++
	}
	if i != len(toks) {
		return s, false
	}
	if !s.C && !s.Q {
		return s, false
	}
	return s, true
}

// ParseSuiteNameFold is ParseSuiteName for spellings that differ from the RFC form only in the letter case
// of the crypto-function and data-input tokens (the library's parser accepts e.g. "qn08"); the version tag
// must be exactly "OCRA-1", the time unit must be upper case (as the library requires), and Raw is the string as given.
func ParseSuiteNameFold(name string) (Suite, bool) {
	parts := strings.Split(name, ":")
	if len(parts) != 3 || parts[0] != "OCRA-1" {
		return Suite{Raw: name}, false
	}
	toks := strings.Split(parts[2], "-")
	for i, t := range toks {
		// keep the unit letter of a time token as written
		if len(t) >= 2 && (t[0] == 'T' || t[0] == 't') {
			toks[i] = "T" + strings.ToUpper(t[1:len(t)-1]) + t[len(t)-1:]
			if allDigits(t[1:]) {
				toks[i] = "T" + t[1:]
			}
		} else {
			toks[i] = strings.ToUpper(t)
		}
	}
	s, ok := ParseSuiteName(parts[0] + ":" + strings.ToUpper(parts[1]) + ":" + strings.Join(toks, "-"))
	s.Raw = name
	return s, ok
}

// ValidDataTokens reports whether every '-'-separated token of a data-input part belongs to the RFC 6287
// vocabulary (case-insensitively, unit letter of a time token upper case), irrespective of order and repetition.
func ValidDataTokens(part string) bool {
	for _, t := range strings.Split(part, "-") {
		u := strings.ToUpper(t)
		switch {
		case u == "C", u == "S":
		case len(u) == 4 && u[0] == 'Q' && strings.ContainsRune("NAH", rune(u[1])) && (u[2:] == "08" || u[2:] == "10"):
		case u == "PSHA1" || u == "PSHA256" || u == "PSHA512":
		case len(u) == 4 && u[0] == 'S' && allDigits(u[1:]):
		case len(t) >= 2 && u[0] == 'T' && (allDigits(t[1:]) || (len(t) >= 3 && allDigits(t[1:len(t)-1]) && strings.ContainsRune("SMH", rune(t[len(t)-1])))):
		default:
			return false
		}
	}
	return true
}

func allDigits(s string) bool {
	if s == "" {
		return false
	}
	for i := 0; i < len(s); i++ {
		if s[i] < '0' || s[i] > '9' {
			return false
		}
	}
	return true
}

// QuestionToBytes: RFC 6287 numeric question: decimal → hex text → right-pad
// with '0' to 256 hex characters → 128 bytes.
func QuestionToBytes(dec string) ([]byte, bool) {
	if !allDigits(dec) {
		return nil, false
	}
	v, ok := new(big.Int).SetString(dec, 10)
	if !ok {
		return nil, false
	}
	hx := fmt.Sprintf("%X", v)
	if len(hx) > 256 {
		return nil, false
	}
	for len(hx) < 256 {
		hx += "0"
	}
	out := make([]byte, 128)
	for i := 0; i < 128; i++ {
		out[i] = hexNib(hx[2*i])<<4 | hexNib(hx[2*i+1])
	}
	return out, true
}

func hexNib(c byte) byte {
	switch {
	case c >= '0' && c <= '9':
		return c - '0'
	case c >= 'a' && c <= 'f':
		return c - 'a' + 10
	case c >= 'A' && c <= 'F':
		return c - 'A' + 10
	}
	return 0xff
}

// HexDecode: strict hex decoding (even length, hex digits only). Empty → empty.
func HexDecode(s string) ([]byte, bool) {
	if len(s)%2 != 0 {
		return nil, false
	}
	out := make([]byte, len(s)/2)
	for i := 0; i < len(out); i++ {
		a, b := hexNib(s[2*i]), hexNib(s[2*i+1])
		if a == 0xff || b == 0xff {
			return nil, false
		}
		out[i] = a<<4 | b
	}
	return out, true
}

func HexEncode(b []byte) string {
	const hx = "0123456789abcdef"
	out := make([]byte, 2*len(b))
	for i, c := range b {
		out[2*i] = hx[c>>4]
		out[2*i+1] = hx[c&15]
	}
	return string(out)
}

// LeftPadHex per the library's doc comment: left-pad with '0' to total
// characters; if already at least that long keep the rightmost total characters.
func LeftPadHex(s string, total int) string {
	if len(s) >= total {
		return s[len(s)-total:]
	}
	return strings.Repeat("0", total-len(s)) + s
}

// ParseUint64Dec: strict unsigned decimal (digits only, value <= 2^64-1).
func ParseUint64Dec(s string) (uint64, bool) {
	if !allDigits(s) {
		return 0, false
	}
	v, ok := new(big.Int).SetString(s, 10)
	if !ok || v.BitLen() > 64 {
		return 0, false
	}
	return v.Uint64(), true
}
