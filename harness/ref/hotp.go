// Package ref holds the independent executable reference models the monitors
// compare the real code against. Nothing here imports or calls the library
// under test. Trusted base: the stdlib hash compression functions, math/big.
package ref

import (
	"crypto/sha1"
	"crypto/sha256"
	"crypto/sha512"
	"fmt"
	"hash"
	"math/big"
)

// Hash identifiers mirror the numeric values of the library's public enum
// (SHA1=0, SHA256=1, SHA512=2); that numbering is part of the public API.
const (
	SHA1   = 0
	SHA256 = 1
	SHA512 = 2
)

func HashSupported(h int) bool { return h == SHA1 || h == SHA256 || h == SHA512 }

func newHash(h int) (hash.Hash, int) {
	switch h {
	case SHA1:
		return sha1.New(), 64
	case SHA256:
		return sha256.New(), 64
	case SHA512:
		return sha512.New(), 128
	}
	panic(fmt.Sprintf("ref: unsupported hash %d", h))
}

// HMAC is RFC 2104 written out from the ipad/opad definition.
func HMAC(h int, key, msg []byte) []byte {
	inner, block := newHash(h)
	k := key
	if len(k) > block {
		hh, _ := newHash(h)
		hh.Write(k)
		k = hh.Sum(nil)
	}
	ipad := make([]byte, block)
	opad := make([]byte, block)
	copy(ipad, k)
	copy(opad, k)
	for i := range ipad {
		ipad[i] ^= 0x36
		opad[i] ^= 0x5c
	}
	inner.Write(ipad)
	inner.Write(msg)
	in := inner.Sum(nil)
	outer, _ := newHash(h)
	outer.Write(opad)
	outer.Write(in)
	return outer.Sum(nil)
}

// DT is the RFC 4226 dynamic truncation to a 31-bit number.
func DT(sum []byte) uint32 {
	off := int(sum[len(sum)-1] & 0x0f)
	return (uint32(sum[off])&0x7f)<<24 | uint32(sum[off+1])<<16 | uint32(sum[off+2])<<8 | uint32(sum[off+3])
}

// Format renders v mod 10^digits left-padded with '0' to digits characters.
func Format(v uint32, digits int) string {
	if digits >= 1 && digits <= 18 {
		// 64-bit arithmetic is exact here (10^18 < 2^63); same definition as the big-integer form below
		m := uint64(1)
		for i := 0; i < digits; i++ {
			m *= 10
		}
		x := uint64(v) % m
		b := make([]byte, digits)
		for i := digits - 1; i >= 0; i-- {
			b[i] = byte('0' + x%10)
			x /= 10
		}
		return string(b)
	}
	return FormatBig(v, digits)
}

// FormatBig is the definition written with big integers (used by the self-test to cross-check Format).
func FormatBig(v uint32, digits int) string {
	m := new(big.Int).Exp(big.NewInt(10), big.NewInt(int64(digits)), nil)
	x := new(big.Int).Mod(new(big.Int).SetUint64(uint64(v)), m)
	return fmt.Sprintf("%0*s", digits, x.String())
}

func BE8(v uint64) []byte {
	b := make([]byte, 8)
	for i := 7; i >= 0; i-- {
		b[i] = byte(v)
		v >>= 8
	}
	return b
}

// HOTP is the RFC 4226 value. digits must be 1..10 and h supported.
func HOTP(key []byte, counter uint64, digits int, h int) string {
	return Format(DT(HMAC(h, key, BE8(counter))), digits)
}

// Step is floor(unix/period) with period 0 meaning 30.
func Step(unix int64, period uint64) uint64 {
	if period == 0 {
		period = 30
	}
	return uint64(unix) / period
}

func TOTP(key []byte, unix int64, period uint64, digits int, h int) string {
	return HOTP(key, Step(unix, period), digits, h)
}

// HOTPWindow returns the set of accepted codes for validation at counter c with
// look-ahead/behind s: codes of c' with max(0,c-s) <= c' <= c+s. wrap selects
// modular arithmetic below 0 / above 2^64-1 (used nowhere in deciding oracles;
// callers stay inside the property's stated domain).
func HOTPWindow(key []byte, c uint64, s uint64, digits, h int) map[string]uint64 {
	w := map[string]uint64{}
	lo := uint64(0)
	if c >= s {
		lo = c - s
	}
	hi := c + s // caller guarantees no overflow
	for x := lo; ; x++ {
		code := HOTP(key, x, digits, h)
		if _, ok := w[code]; !ok {
			w[code] = x
		}
		if x == hi {
			break
		}
	}
	return w
}
