package ref

import (
	"errors"
	"strings"
)

// OTPAuth is what an otpauth URL text says, decoded independently of net/url.
type OTPAuth struct {
	Type     string // lower-cased host
	Issuer   string // label part before the first ':' (after one percent-decoding)
	Account  string
	Query    map[string]string // first value per key, form-decoded ('+' = space, %XX)
	HasColon bool
}

func pctDecode(s string, plusIsSpace bool) (string, error) {
	var b strings.Builder
	for i := 0; i < len(s); i++ {
		c := s[i]
		switch {
		case c == '%':
			if i+2 >= len(s) {
				return "", errors.New("truncated escape")
			}
			h, l := hexNib(s[i+1]), hexNib(s[i+2])
			if h == 0xff || l == 0xff {
				return "", errors.New("bad escape")
			}
			b.WriteByte(h<<4 | l)
			i += 2
		case c == '+' && plusIsSpace:
			b.WriteByte(' ')
		default:
			b.WriteByte(c)
		}
	}
	return b.String(), nil
}

// ParseOTPAuth decodes the textual form of an otpauth URL per RFC 3986:
// scheme "://" host "/" label ["?" query] ["#" fragment].
func ParseOTPAuth(text string) (*OTPAuth, error) {
	const pfx = "otpauth://"
	if len(text) < len(pfx) || !strings.EqualFold(text[:len(pfx)], pfx) {
		return nil, errors.New("not an otpauth URL")
	}
	rest := text[len(pfx):]
	if i := strings.IndexByte(rest, '#'); i >= 0 {
		rest = rest[:i]
	}
	query := ""
	if i := strings.IndexByte(rest, '?'); i >= 0 {
		query = rest[i+1:]
		rest = rest[:i]
	}
	host, path := rest, ""
	if i := strings.IndexByte(rest, '/'); i >= 0 {
		host, path = rest[:i], rest[i+1:]
	}
	label, err := pctDecode(path, false)
	if err != nil {
		return nil, err
	}
	o := &OTPAuth{Type: strings.ToLower(host), Query: map[string]string{}}
	if i := strings.IndexByte(label, ':'); i >= 0 {
		o.Issuer, o.Account, o.HasColon = label[:i], label[i+1:], true
	} else {
		o.Account = label
	}
	if query != "" {
		for _, kv := range strings.Split(query, "&") {
			if kv == "" {
				continue
			}
			k, v := kv, ""
			if i := strings.IndexByte(kv, '='); i >= 0 {
				k, v = kv[:i], kv[i+1:]
			}
			dk, err := pctDecode(k, true)
			if err != nil {
				return nil, err
			}
			dv, err := pctDecode(v, true)
			if err != nil {
				return nil, err
			}
			if _, dup := o.Query[dk]; !dup {
				o.Query[dk] = dv
			}
		}
	}
	return o, nil
}

// PctEncode percent-encodes every byte outside RFC 3986 "unreserved".
func PctEncode(s string) string {
	const hx = "0123456789ABCDEF"
	var b strings.Builder
	for i := 0; i < len(s); i++ {
		c := s[i]
		if c >= 'a' && c <= 'z' || c >= 'A' && c <= 'Z' || c >= '0' && c <= '9' || c == '-' || c == '.' || c == '_' || c == '~' {
			b.WriteByte(c)
		} else {
			b.WriteByte('%')
			b.WriteByte(hx[c>>4])
			b.WriteByte(hx[c&15])
		}
	}
	return b.String()
}
