package props

import (
	"encoding/json"
	"fmt"
	"go/ast"
	"go/build"
	"go/parser"
	"go/token"
	"math/big"
	"net/url"
	"os"
	"path/filepath"
	"runtime"
	"sort"
	"strings"
	"sync/atomic"
	"time"

	"github.com/ja7ad/otp"

	"verifh/gen"
	"verifh/hooks"
	"verifh/ref"
)

// ---- C10: no public operation panics or hangs ----

type apiCall struct {
	Op   string `json:"op"`
	Args string `json:"args"` // JSON of the argument description, enough to re-issue the call
}

type c10Args struct {
	S     []string        `json:"s,omitempty"` // strings as hex (may be invalid UTF-8)
	U     []uint64        `json:"u,omitempty"`
	I     []int64         `json:"i,omitempty"`
	Nil   bool            `json:"nil,omitempty"`
	At    gen.InstantSpec `json:"at,omitempty"`
	Suite *ref.Suite      `json:"suite,omitempty"`
	Input *inputJ         `json:"input,omitempty"`
	Via   string          `json:"via,omitempty"`
}

func hs(s string) string  { return hexs([]byte(s)) }
func uhs(s string) string { return string(unhex(s)) }

// hostile material
// thresholdNumber: the decimal or hexadecimal text of a number at a size threshold - 2^b-1, 2^b, 2^b+1 for the word and
// field widths a parser may have in mind (8 ... 2048 bits), and 10^k-1, 10^k at the digit counts where those numbers
// change length - optionally zero-padded or signed. Digit-count pre-checks and fixed buffers break exactly here.
func thresholdNumber(rng *gen.RNG) string {
	v := new(big.Int)
	if rng.Bool() {
		b := gen.Pick(rng, []uint{8, 16, 31, 32, 63, 64, 127, 128, 255, 256, 511, 512, 1016, 1023, 1024, 1025, 1032, 2047, 2048})
		v.Lsh(big.NewInt(1), b)
	} else {
		k := gen.Pick(rng, []int64{19, 20, 38, 39, 77, 78, 154, 155, 300, 307, 308, 309, 310, 617})
		v.Exp(big.NewInt(10), big.NewInt(k), nil)
	}
	v.Add(v, big.NewInt(int64(rng.Intn(3)-1)))
	if rng.Intn(4) == 0 {
		// somewhere between this threshold and the next power of ten
		v.Mul(v, big.NewInt(int64(2+rng.Intn(4))))
	}
	t := v.Text(10)
	if rng.Intn(4) == 0 {
		t = v.Text(16)
	}
	switch rng.Intn(8) {
	case 0:
		t = "0" + t
	case 1:
		t = "+" + t
	case 2:
		t = strings.Repeat("0", 1+rng.Intn(20)) + t
	}
	return t
}

func hostileString(rng *gen.RNG) string {
	switch rng.Intn(16) {
	case 14:
		return thresholdNumber(rng)
	case 0:
		return ""
	case 1:
		return string(rng.Bytes(rng.Intn(40))) // arbitrary bytes / invalid UTF-8
	case 2:
		if rng.Intn(6) == 0 {
			return strings.Repeat("A", 1<<16) // 64 KiB
		}
		return strings.Repeat("A7", 1+rng.Intn(600))
	case 3:
		return strings.Repeat("9", 1+rng.Intn(400))
	case 4:
		return ref.Base32Encode(rng.Bytes(rng.Intn(80)))
	case 5:
		return genSuiteName(rng)
	case 6:
		return gen.Pick(rng, registeredNames)
	case 7:
		return fmt.Sprintf("%x", rng.Bytes(rng.Intn(200)))
	case 8:
		return gen.Pick(rng, []string{"-1", "+1", "0", "18446744073709551616", "1e400", "NaN", " ", "\x00", "=", "========", "%", "%zz", ":", "::", "OCRA-1", "OCRA-1::", "OCRA-1:HOTP-SHA1-6:", "OCRA-1:HOTP-SHA1-99999999999999999999:QN08", "OCRA-1:HOTP-SHA1-6:QN08-T99999999999999999999S", "OCRA-1:HOTP-SHA1-6:T", "OCRA-1:HOTP--:", "OCRA-1:HOTP-SHA:Q"})
	case 9:
		return string(rng.Bytes(1 + rng.Intn(3)))
	case 10:
		return strings.Repeat(string(rune(0x10FFFF)), rng.Intn(50)) + "\xed\xa0\x80"
	case 11:
		return gen.URLString(rng, true)
	case 12:
		return strings.Repeat(gen.Pick(rng, []string{"=", "-", ":", "S", "T", "Q", "0"}), rng.Intn(3000))
	case 13:
		return gen.CaseOddString(rng)
	default:
		return fmt.Sprint(rng.U64())
	}
}

// relatedStrings: three string arguments of one call, the later ones often derived from the first (same text in
// another letter case, the first as "prefix:" of the second, ...) instead of being independent.
func relatedStrings(rng *gen.RNG) []string {
	a := hostileString(rng)
	if rng.Intn(3) == 0 {
		a = gen.CaseOddString(rng)
	}
	if len(a) > 4096 {
		a = a[:4096]
	}
	b, d := hostileString(rng), hostileString(rng)
	if rng.Intn(3) != 0 {
		b = gen.Related(rng, a, strings.ToLower, strings.ToUpper)
	}
	if rng.Intn(4) == 0 {
		d = gen.Related(rng, gen.Pick(rng, []string{a, b}), strings.ToLower, strings.ToUpper)
	}
	return []string{hs(a), hs(b), hs(d)}
}

func hostileBytes(rng *gen.RNG) []byte {
	switch rng.Intn(8) {
	case 0:
		return nil
	case 1:
		return []byte{}
	case 2:
		if rng.Intn(6) == 0 {
			return rng.Bytes(1 << 16)
		}
		return rng.Bytes(129 + rng.Intn(2000))
	case 3:
		return rng.Bytes(gen.Pick(rng, []int{7, 8, 9, 10, 19, 20, 21, 32, 64, 127, 128, 129}))
	default:
		return rng.Bytes(rng.Intn(300))
	}
}

func hostileSuite(rng *gen.RNG) ref.Suite {
	pickInt := func() int {
		switch rng.Intn(6) {
		case 0:
			return rng.Intn(13) - 1
		case 1:
			return int(int32(rng.U64()))
		case 2:
			return gen.Pick(rng, []int{-1 << 63, 1<<63 - 1, -1, 0, 255, 256, 1 << 31})
		case 3:
			// values that become small valid-looking numbers when narrowed to 8, 16 or 32 bits
			return gen.Pick(rng, []int{1 << 8, 1 << 16, 1 << 32, -1 << 8, -1 << 32})*(1+rng.Intn(3)) + rng.Intn(12)
		default:
			return rng.Intn(8)
		}
	}
	return ref.Suite{Raw: hostileString(rng), Hash: rng.Intn(256), Digits: pickInt(), Challenge: pickInt(), PasswordHash: pickInt(), TimeStep: pickInt(),
		C: rng.Bool(), Q: rng.Bool(), P: rng.Bool(), S: rng.Bool(), T: rng.Bool()}
}

func hostileInstant(rng *gen.RNG) gen.InstantSpec {
	u := gen.Pick(rng, []int64{0, -1, 1, -62135596800, 253402300799, 1<<62 - 1, -(1 << 62), 1<<63 - 1, -1 << 63, 9223371966579724800 /* year 292277026596 */, int64(rng.U64()), int64(rng.Intn(1 << 31))})
	return gen.InstantSpec{Unix: u, Ns: int64(rng.Intn(1000000000)), Zone: rng.Intn(5)}
}

func hostileParam(rng *gen.RNG, boundedSkew bool) (*otp.Param, []uint64) {
	if rng.Intn(10) == 0 {
		return nil, nil
	}
	skew := gen.Pick(rng, []uint64{0, 1, 2, 10, 11, 12, 100, 1 << 32, 1<<63 - 1, 1 << 63, 1<<64 - 1, uint64(rng.Intn(11))})
	if boundedSkew && skew > 10 && skew < 1<<20 {
		// without the hook cut-off, mid-size refused skews are still affordable; huge ones need the cut-off
	}
	period := gen.Pick(rng, []uint64{0, 1, 30, 1<<64 - 1, 1 << 63, 1 << 32, rng.U64()})
	d, a := rng.Intn(256), rng.Intn(256)
	if rng.Bool() {
		d, a = 1+rng.Intn(10), rng.Intn(3)
	}
	return &otp.Param{Digits: otp.Digits(d), Algorithm: otp.Algorithm(a), Period: uint(period), Skew: uint(skew)}, []uint64{uint64(d), uint64(a), period, skew}
}

type driver struct {
	name string
	gen  func(rng *gen.RNG) c10Args
	call func(a c10Args)
}

func paramFrom(a c10Args) *otp.Param {
	if a.Nil || len(a.U) < 4 {
		return nil
	}
	return &otp.Param{Digits: otp.Digits(a.U[0]), Algorithm: otp.Algorithm(a.U[1]), Period: uint(a.U[2]), Skew: uint(a.U[3])}
}
func genParamArgs(rng *gen.RNG, nstr int) c10Args {
	var a c10Args
	for i := 0; i < nstr; i++ {
		a.S = append(a.S, hs(hostileString(rng)))
	}
	p, u := hostileParam(rng, true)
	if p == nil {
		a.Nil = true
	}
	a.U = u
	a.I = []int64{int64(gen.Counter(rng))}
	a.At = hostileInstant(rng)
	return a
}
func suiteFrom(a c10Args) otp.Suite {
	if a.Suite == nil {
		return otp.SuiteConfig{}
	}
	switch a.Via {
	case viaRawValue:
		return otp.RawSuite{SuiteConfig: toCfg(*a.Suite)}
	case viaRaw:
		s, err := otp.NewRawSuite(a.Suite.Raw)
		if err == nil {
			return s
		}
		return otp.RawSuite{}
	case viaEdited, viaPointer:
		// a constructor's result whose exported configuration the caller then overwrites / a caller-owned object
		// reconfigured in place: whatever a constructor remembers about having checked the object must not stand in for
		// checking the configuration it carries now
		if s, err, pan := makeSuite(a.Via, *a.Suite); err == nil && pan == nil && s != nil {
			return s
		}
	}
	return toCfg(*a.Suite)
}
func genOCRAArgs(rng *gen.RNG, nstr int) c10Args {
	var a c10Args
	for i := 0; i < nstr; i++ {
		a.S = append(a.S, hs(hostileString(rng)))
	}
	s := hostileSuite(rng)
	oneFault := false
	var base ref.Suite
	switch rng.Intn(4) {
	case 3:
		// one fault: a usable configuration with an input admissible for it, then exactly one numeric field replaced by
		// a hostile value (incl. values congruent to a valid one modulo 2^8 / 2^16 / 2^32) - everything else about the
		// call is in order, so whatever sits behind a check that misjudges that one field is reached
		hb := handBuiltSuites(rng, []string{"r", ""})
		base = hb[rng.Intn(len(hb))]
		s = base
		bad := func(valid int) int {
			switch rng.Intn(4) {
			case 0:
				return valid + gen.Pick(rng, []int{1 << 8, 1 << 16, 1 << 32, -1 << 8, -1 << 16, 2 << 8, 3 << 8})
			case 1:
				return gen.Pick(rng, []int{-1, 0, 1, 2, 3, 11, 12, 13, 100, 255, 256})
			case 2:
				return int(int32(rng.U64()))
			default:
				return gen.Pick(rng, []int{-1 << 63, 1<<63 - 1, 1 << 31, -1 << 31})
			}
		}
		switch rng.Intn(4) {
		case 0, 1:
			s.Digits = bad(s.Digits)
		case 2:
			s.Challenge = bad(s.Challenge)
		default:
			s.TimeStep = bad(s.TimeStep)
		}
		oneFault = true
	case 0:
		// a usable configuration with hostile inputs reaches the message builder
		hb := handBuiltSuites(rng, []string{"r"})
		s = hb[rng.Intn(len(hb))]
	case 1:
		// a usable configuration with one or two fields pushed outside their declared enum ranges in a way the
		// suite validator does not reject (it only requires "not none"): reaches the code behind the validators
		hb := handBuiltSuites(rng, []string{"r", ""})
		s = hb[rng.Intn(len(hb))]
		for n := 1 + rng.Intn(2); n > 0; n-- {
			switch rng.Intn(4) {
			case 0:
				s.Q, s.Challenge = true, gen.Pick(rng, []int{7, 8, 100, -1, -7, 1 << 31, -1 << 63, 1<<63 - 1})
			case 1:
				s.P, s.PasswordHash = true, gen.Pick(rng, []int{4, 5, 7, 100, -1, -3, 1 << 31, -1 << 63, 1<<63 - 1})
			case 2:
				s.T, s.TimeStep = true, gen.Pick(rng, []int{1<<63 - 1, 1 << 31, 86400 * 365})
			default:
				s.Raw = hostileString(rng)
			}
		}
	}
	a.Suite = &s
	a.Via = gen.Pick(rng, []string{viaBare, viaRawValue, viaRaw, viaEdited, viaPointer})
	in := inputToJ(ref.Input{Counter: hostileBytes(rng), Challenge: hostileBytes(rng), Password: hostileBytes(rng), Session: hostileBytes(rng), Timestamp: hostileBytes(rng)})
	if oneFault {
		in = inputToJ(admissibleInput(rng, base, rng.Intn(100)))
	} else if rng.Intn(3) == 0 && ref.SuiteUsable(s) {
		in = inputToJ(admissibleInput(rng, s, rng.Intn(100)))
	} else if rng.Intn(2) == 0 && ref.SuiteUsable(s) {
		// admissible in every field the validators constrain, hostile (any size) where they do not
		ai := admissibleInput(rng, s, rng.Intn(100))
		if s.P && (s.PasswordHash < 1 || s.PasswordHash > 3) {
			ai.Password = rng.Bytes(gen.Pick(rng, []int{1, 19, 20, 64, 65, 127, 128, 129, 200, 255, 256, 257, 1000, 1024, 4096, 65536}))
		}
		in = inputToJ(ai)
	}
	a.Input = &in
	return a
}

// twinDrivers: the exported operations that exist only in the js/wasm build configuration of the library
// (DeriveRFC4226Wasm, ValidateOTPWasm), reachable here when the harness was built with the overlay that compiles those
// sources natively. The digits parameter of the derive twin is an int: it is driven over -2^63..2^16 (beyond that an
// unchecked power-of-ten loop would only spin, which the watchdog could not tell from slowness).
func twinDrivers() []driver {
	if wasmDerive == nil || wasmValidate == nil {
		return extraDrivers()[:1]
	}
	return extraDrivers()
}

func extraDrivers() []driver {
	twinArgs := func(rng *gen.RNG) c10Args {
		d := gen.Pick(rng, []int64{-1 << 63, -1, 0, 1, 5, 6, 9, 10, 11, 12, 19, 20, 21, 63, 64, 65, 100, 127, 128, 200, 255, 256, 1000, 1 << 16, int64(rng.Intn(300))})
		return c10Args{S: []string{hs(string(hostileBytes(rng))), hs(hostileString(rng))}, I: []int64{int64(rng.U64()), d}, U: []uint64{uint64(rng.Intn(256))}}
	}
	return []driver{
		// the exported function-typed variable in its default (not caller-replaced) value
		{"TimeCounterFunc(default value)", func(rng *gen.RNG) c10Args { return genParamArgs(rng, 1) }, func(a c10Args) {
			p := paramFrom(a)
			period := uint(0)
			if p != nil {
				period = p.Period
			}
			otp.TimeCounterFunc(a.At.Time(), period)
		}},
		{"DeriveRFC4226Wasm(js/wasm build)", twinArgs, func(a c10Args) { wasmDerive([]byte(uhs(a.S[0])), uint64(a.I[0]), int(a.I[1]), uint8(a.U[0])) }},
		{"ValidateOTPWasm(js/wasm build)", twinArgs, func(a c10Args) {
			wasmValidate(uhs(a.S[1]), []byte(uhs(a.S[0])), uint64(a.I[0]), uint8(a.I[1]), uint8(a.U[0]))
			// also a submitted code of exactly the claimed length
			if n := int(uint8(a.I[1])); n > 0 {
				wasmValidate(strings.Repeat("7", n), []byte(uhs(a.S[0])), uint64(a.I[0]), uint8(a.I[1]), uint8(a.U[0]))
			}
		}},
	}
}

func drivers() []driver {
	return append(baseDrivers(), twinDrivers()...)
}

func baseDrivers() []driver {
	str1 := func(rng *gen.RNG) c10Args { return c10Args{S: []string{hs(hostileString(rng))}} }
	return []driver{
		{"DecodeSecret", str1, func(a c10Args) { otp.DecodeSecret(uhs(a.S[0])) }},
		{"GenerateHOTP", func(rng *gen.RNG) c10Args { return genParamArgs(rng, 1) }, func(a c10Args) { otp.GenerateHOTP(uhs(a.S[0]), uint64(a.I[0]), paramFrom(a)) }},
		{"ValidateHOTP", func(rng *gen.RNG) c10Args { return genParamArgs(rng, 2) }, func(a c10Args) { otp.ValidateHOTP(uhs(a.S[0]), uhs(a.S[1]), uint64(a.I[0]), paramFrom(a)) }},
		{"GenerateTOTP", func(rng *gen.RNG) c10Args { return genParamArgs(rng, 1) }, func(a c10Args) { otp.GenerateTOTP(uhs(a.S[0]), a.At.Time(), paramFrom(a)) }},
		{"ValidateTOTP", func(rng *gen.RNG) c10Args { return genParamArgs(rng, 2) }, func(a c10Args) { otp.ValidateTOTP(uhs(a.S[0]), uhs(a.S[1]), a.At.Time(), paramFrom(a)) }},
		{"GenerateOCRA", func(rng *gen.RNG) c10Args { return genOCRAArgs(rng, 1) }, func(a c10Args) { otp.GenerateOCRA(uhs(a.S[0]), suiteFrom(a), toOCRAInput(a.Input.ref())) }},
		{"ValidateOCRA", func(rng *gen.RNG) c10Args { return genOCRAArgs(rng, 2) }, func(a c10Args) { otp.ValidateOCRA(uhs(a.S[0]), uhs(a.S[1]), suiteFrom(a), toOCRAInput(a.Input.ref())) }},
		{"OCRAInput.Validate", func(rng *gen.RNG) c10Args { return genOCRAArgs(rng, 0) }, func(a c10Args) { toOCRAInput(a.Input.ref()).Validate(toCfg(*a.Suite)) }},
		{"SuiteConfig.Validate", func(rng *gen.RNG) c10Args { return genOCRAArgs(rng, 0) }, func(a c10Args) { toCfg(*a.Suite).Validate() }},
		{"SuiteConfig.Config", func(rng *gen.RNG) c10Args { return genOCRAArgs(rng, 0) }, func(a c10Args) { toCfg(*a.Suite).Config() }},
		{"SuiteConfig.String", func(rng *gen.RNG) c10Args { return genOCRAArgs(rng, 0) }, func(a c10Args) { _ = toCfg(*a.Suite).String() }},
		{"RawSuite.Validate", func(rng *gen.RNG) c10Args { return genOCRAArgs(rng, 0) }, func(a c10Args) { otp.RawSuite{SuiteConfig: toCfg(*a.Suite)}.Validate() }},
		{"RawSuite.Config", func(rng *gen.RNG) c10Args { return genOCRAArgs(rng, 0) }, func(a c10Args) { otp.RawSuite{SuiteConfig: toCfg(*a.Suite)}.Config() }},
		{"RawSuite.String", func(rng *gen.RNG) c10Args { return genOCRAArgs(rng, 0) }, func(a c10Args) { _ = otp.RawSuite{SuiteConfig: toCfg(*a.Suite)}.String() }},
		{"NewSuite", func(rng *gen.RNG) c10Args { return genOCRAArgs(rng, 0) }, func(a c10Args) { otp.NewSuite(toCfg(*a.Suite)) }},
		{"NewRawSuite", str1, func(a c10Args) {
			if s, err := otp.NewRawSuite(uhs(a.S[0])); err == nil && s != nil {
				s.Config()
				_ = s.String()
				s.Validate()
			}
		}},
		{"ListSuites", func(rng *gen.RNG) c10Args { return c10Args{} }, func(a c10Args) { otp.ListSuites() }},
		{"IsKnownSuite", str1, func(a c10Args) { otp.IsKnownSuite(uhs(a.S[0])) }},
		{"SuiteConfigFromRaws", str1, func(a c10Args) { otp.SuiteConfigFromRaws(uhs(a.S[0])) }},
		{"DigitsFromStr", str1, func(a c10Args) { _ = otp.DigitsFromStr(uhs(a.S[0])).Int() }},
		{"Digits.Int", func(rng *gen.RNG) c10Args { return c10Args{U: []uint64{uint64(rng.Intn(256))}} }, func(a c10Args) { _ = otp.Digits(a.U[0]).Int() }},
		{"AlgorithmFromStr", str1, func(a c10Args) { _ = otp.AlgorithmFromStr(uhs(a.S[0])).String() }},
		{"Algorithm.String", func(rng *gen.RNG) c10Args { return c10Args{U: []uint64{uint64(rng.Intn(256))}} }, func(a c10Args) { _ = otp.Algorithm(a.U[0]).String() }},
		{"RandomSecret", func(rng *gen.RNG) c10Args { return c10Args{U: []uint64{uint64(rng.Intn(256))}} }, func(a c10Args) { otp.RandomSecret(otp.Algorithm(a.U[0])) }},
		{"HexInputToOCRA", func(rng *gen.RNG) c10Args {
			var a c10Args
			for i := 0; i < 5; i++ {
				a.S = append(a.S, hs(hostileString(rng)))
			}
			return a
		}, func(a c10Args) { otp.HexInputToOCRA(uhs(a.S[0]), uhs(a.S[1]), uhs(a.S[2]), uhs(a.S[3]), uhs(a.S[4])) }},
		{"ParseOTPAuthURL", func(rng *gen.RNG) c10Args {
			if rng.Intn(20) == 0 {
				return c10Args{Nil: true}
			}
			var text string
			switch rng.Intn(4) {
			case 0:
				text = hostileString(rng)
			case 1:
				text = "otpauth://" + gen.Pick(rng, []string{"totp", "hotp", "TOTP", "", "x"}) + "/" + url.PathEscape(gen.URLString(rng, true)) + "?" + gen.Pick(rng, []string{"", "digits=", "period=", "secret=", "algorithm="}) + url.QueryEscape(hostileString(rng))
			case 2:
				text = gen.Pick(rng, []string{"otpauth:", "otpauth://", "otpauth://totp", "otpauth://totp/", "otpauth://totp/:", "otpauth://totp/a:b?%zz", "otpauth://totp/a:b?digits=1&digits=2", "otpauth:opaque", "otpauth://[::1]/a:b", "otpauth://totp:99/a:b", "//totp/a:b"})
			default:
				text = "otpauth://totp/I:a?secret=A&digits=" + fmt.Sprint(int64(rng.U64())) + "&period=" + fmt.Sprint(int64(rng.U64()))
			}
			return c10Args{S: []string{hs(text)}}
		}, func(a c10Args) {
			if a.Nil {
				otp.ParseOTPAuthURL(nil)
				return
			}
			u, err := url.Parse(uhs(a.S[0]))
			if err != nil {
				return
			}
			otp.ParseOTPAuthURL(u)
			// also a hand-built URL value with arbitrary field contents
			otp.ParseOTPAuthURL(&url.URL{Scheme: "otpauth", Host: "totp", Path: uhs(a.S[0]), RawQuery: uhs(a.S[0])})
			otp.ParseOTPAuthURL(&url.URL{Scheme: "otpauth", Host: "hotp", Opaque: uhs(a.S[0])})
			// the opaque form (no authority at all), the type in front of the text or not; a User part; only a query
			otp.ParseOTPAuthURL(&url.URL{Scheme: "otpauth", Opaque: uhs(a.S[0]), RawQuery: "secret=ABCD"})
			otp.ParseOTPAuthURL(&url.URL{Scheme: "otpauth", Opaque: "totp/" + uhs(a.S[0]), RawQuery: uhs(a.S[0])})
			otp.ParseOTPAuthURL(&url.URL{Scheme: "otpauth", Opaque: "hotp", User: url.User(uhs(a.S[0])), Fragment: uhs(a.S[0])})
			otp.ParseOTPAuthURL(&url.URL{Scheme: "otpauth", Host: "totp", Path: "/" + uhs(a.S[0]), RawPath: uhs(a.S[0]), OmitHost: true, ForceQuery: true})
		}},
		{"GenerateTOTPURL", func(rng *gen.RNG) c10Args {
			ss := []string{hs(hostileString(rng)), hs(hostileString(rng)), hs(hostileString(rng))}
			if rng.Bool() {
				ss = relatedStrings(rng)
			}
			return c10Args{S: ss, U: []uint64{uint64(rng.Intn(256)), uint64(rng.Intn(256)), rng.U64() >> uint(rng.Intn(64))}}
		}, func(a c10Args) {
			if u, err := otp.GenerateTOTPURL(otp.URLParam{Issuer: uhs(a.S[0]), AccountName: uhs(a.S[1]), Secret: uhs(a.S[2]), Digits: otp.Digits(a.U[0]), Algorithm: otp.Algorithm(a.U[1]), Period: uint(a.U[2])}); err == nil && u != nil {
				_ = u.String()
			}
		}},
		{"GenerateHOTPURL", func(rng *gen.RNG) c10Args {
			ss := []string{hs(hostileString(rng)), hs(hostileString(rng)), hs(hostileString(rng))}
			if rng.Bool() {
				ss = relatedStrings(rng)
			}
			return c10Args{S: ss, U: []uint64{uint64(rng.Intn(256)), uint64(rng.Intn(256)), rng.U64() >> uint(rng.Intn(64))}}
		}, func(a c10Args) {
			if u, err := otp.GenerateHOTPURL(otp.URLParam{Issuer: uhs(a.S[0]), AccountName: uhs(a.S[1]), Secret: uhs(a.S[2]), Digits: otp.Digits(a.U[0]), Algorithm: otp.Algorithm(a.U[1]), Period: uint(a.U[2])}); err == nil && u != nil {
				_ = u.String()
			}
		}},
		{"ParseDecimalToBigEndian8", str1, func(a c10Args) { otp.ParseDecimalToBigEndian8(uhs(a.S[0])) }},
		{"ParseDecimal64BigEndian", str1, func(a c10Args) { otp.ParseDecimal64BigEndian(uhs(a.S[0])) }},
		{"ParseHexTimestamp", str1, func(a c10Args) { otp.ParseHexTimestamp(uhs(a.S[0])) }},
		{"ParseDecimalChallengeRFC6287", str1, func(a c10Args) { otp.ParseDecimalChallengeRFC6287(uhs(a.S[0])) }},
		{"To8ByteBigEndian", func(rng *gen.RNG) c10Args { return c10Args{U: []uint64{rng.U64()}} }, func(a c10Args) { otp.To8ByteBigEndian(a.U[0]) }},
		{"LeftPadHex", func(rng *gen.RNG) c10Args {
			return c10Args{S: []string{hs(hostileString(rng))}, I: []int64{int64(gen.Pick(rng, []int{0, 1, 2, 16, 255, 256, 65536, 1 << 20, rng.Intn(1 << 20)}))}}
		}, func(a c10Args) { otp.LeftPadHex(uhs(a.S[0]), int(a.I[0])) }},
	}
}

// excluded by the property text
var c10Excluded = map[string]string{
	"MustRawSuite":   "documented Must* helper (panics by contract)",
	"MustHexPadLeft": "documented Must* helper (panics by contract)",
}

// exportedAPI lists the exported functions and methods of package otp as compiled natively without tags.
func exportedAPI(repo string) ([]string, error) {
	fset := token.NewFileSet()
	ents, err := os.ReadDir(repo)
	if err != nil {
		return nil, err
	}
	var out []string
	ctx := build.Default
	ctx.GOOS, ctx.GOARCH = "linux", "amd64"
	ctx.BuildTags = nil
	for _, e := range ents {
		n := e.Name()
		if e.IsDir() || !strings.HasSuffix(n, ".go") || strings.HasSuffix(n, "_test.go") {
			continue
		}
		if ok, _ := ctx.MatchFile(repo, n); !ok {
			continue
		}
		f, err := parser.ParseFile(fset, filepath.Join(repo, n), nil, 0)
		if err != nil {
			return nil, err
		}
		if f.Name.Name != "otp" {
			continue
		}
		for _, d := range f.Decls {
			fd, ok := d.(*ast.FuncDecl)
			if !ok || !fd.Name.IsExported() {
				continue
			}
			name := fd.Name.Name
			if fd.Recv != nil && len(fd.Recv.List) == 1 {
				t := fd.Recv.List[0].Type
				if st, ok := t.(*ast.StarExpr); ok {
					t = st.X
				}
				id, ok := t.(*ast.Ident)
				if !ok || !id.IsExported() {
					continue
				}
				name = id.Name + "." + name
			}
			out = append(out, name)
		}
	}
	sort.Strings(out)
	return out, nil
}

type c10Batch struct {
	Index int `json:"index"`
	Calls int `json:"calls"`
	// RaiseProcs: the processor count is raised above its value at package initialisation before the calls
	RaiseProcs bool `json:"raise_gomaxprocs"`
}

// the child: executes one batch, logging each call before issuing it
func c10RunBatch(c *Ctx, b c10Batch) {
	r := c.R
	rng := c.RNG.Fork(uint64(1000 + b.Index))
	if b.RaiseProcs {
		n := runtime.GOMAXPROCS(0)
		runtime.GOMAXPROCS(4*n + 3)
		r.Count("batches_with_gomaxprocs_raised_after_init", 1)
	}
	ds := drivers()
	logPath := filepath.Join(c.Env["VERIF_SCRATCH"], fmt.Sprintf("c10-batch-%d-%s.log", b.Index, c.Env["VERIF_C10_FLAVOUR"]))
	lf, _ := os.Create(logPath)
	defer lf.Close()
	hooked := hooks.Install(&hooks.Config{MaxCalls: 64})
	if hooked {
		defer hooks.Remove()
	}
	var cur atomic.Int64
	var curStart atomic.Int64
	done := make(chan struct{})
	// hang watchdog: logical corroboration (derivations or allocations), never wall-clock alone
	go func() {
		var ms runtime.MemStats
		lastIdx, lastMallocs := int64(-1), uint64(0)
		for {
			select {
			case <-done:
				return
			case <-time.After(250 * time.Millisecond):
			}
			idx := cur.Load()
			runtime.ReadMemStats(&ms)
			if idx != lastIdx {
				lastIdx, lastMallocs = idx, ms.Mallocs
				continue
			}
			if time.Now().UnixNano()-curStart.Load() > int64(30*time.Second) && ms.Mallocs-lastMallocs > 50_000_000 {
				fmt.Fprintf(lf, "HANG-SUSPECT call %d: >30 s and %d allocations\n", idx, ms.Mallocs-lastMallocs)
				lf.Sync()
				os.Exit(4)
			}
		}
	}()
	for i := 0; i < b.Calls; i++ {
		d := ds[rng.Intn(len(ds))]
		if i < len(ds) {
			d = ds[i] // every driver at least once per batch
		}
		a := d.gen(rng)
		aj, _ := json.Marshal(a)
		call := apiCall{Op: d.name, Args: string(aj)}
		line := fmt.Sprintf("%d %s %s\n", i, d.name, clipS(string(aj)))
		lf.WriteString(line)
		cur.Store(int64(i))
		curStart.Store(time.Now().UnixNano())
		if hooked {
			hooks.ResetCalls()
		}
		pan := monCatch(func() { d.call(a) })
		r.Eval(1)
		r.Count("calls:"+d.name, 1)
		r.Nontrivial(d.name + "|" + string(aj))
		if pan == hooks.Cutoff {
			r.Violate("C10|"+d.name+"|unbounded-work|", d.name+" performs work unbounded in an argument (cut off after 64 HMAC derivations)", "api", call, "returns after bounded work", "more than 64 derivations in one call")
		} else if pan != nil {
			r.Violate("C10|"+d.name+"|panic|"+panicClass(pan), d.name+" panics: "+panicClass(pan), "api", call, "an error result or a documented default", panicStr(pan))
		}
		if r.WantSample() {
			r.Sample(map[string]any{"op": d.name, "args": clipS(string(aj))})
		}
	}
	close(done)
}

func panicClass(p any) string {
	s := fmt.Sprint(p)
	switch {
	case strings.Contains(s, "divide by zero"):
		return "divide-by-zero"
	case strings.Contains(s, "index out of range"):
		return "index-out-of-range"
	case strings.Contains(s, "slice bounds"):
		return "slice-bounds"
	case strings.Contains(s, "nil pointer"):
		return "nil-dereference"
	case strings.Contains(s, "negative Repeat") || strings.Contains(s, "makeslice"):
		return "bad-length"
	}
	if len(s) > 40 {
		s = s[:40]
	}
	return s
}

func c10Replay(c *Ctx, call apiCall) {
	var a c10Args
	if json.Unmarshal([]byte(call.Args), &a) != nil {
		return
	}
	for _, d := range drivers() {
		if d.name != call.Op {
			continue
		}
		hooked := hooks.Install(&hooks.Config{MaxCalls: 64})
		pan := monCatch(func() { d.call(a) })
		if hooked {
			hooks.Remove()
		}
		c.R.Eval(1)
		if pan == hooks.Cutoff {
			c.R.Violate("C10|"+d.name+"|unbounded-work|", d.name+" performs work unbounded in an argument", "api", call, "bounded work", "cut off after 64 derivations")
		} else if pan != nil {
			c.R.Violate("C10|"+d.name+"|panic|"+panicClass(pan), d.name+" panics: "+panicClass(pan), "api", call, "an error result", panicStr(pan))
		}
	}
}

func init() {
	childParts["C10/batch"] = func(c *Ctx, arg json.RawMessage) {
		var b c10Batch
		json.Unmarshal(arg, &b)
		c10RunBatch(c, b)
	}
	register(&Prop{
		ID: "C10",
		Rule: "every exported function and method of package otp (listed at run time with go/parser over /repo; Must* helpers excluded as the property says) is called with hostile arguments: all 256 digit and hash values, period/skew/counter extremes, instants from year 1 to year 292277026596, strings incl. invalid UTF-8 and 64 KiB, nil/empty/64 KiB byte fields, arbitrary SuiteConfig/OCRAInput combinations, parsed and hand-built URLs and nil; string arguments of one call are often derived from each other (other letter case incl. length-changing mappings, prefix:, suffix, doubled); the exported default TimeCounterFunc and the operations that exist only in the js/wasm build (DeriveRFC4226Wasm, ValidateOTPWasm; compiled natively through an overlay, digits -2^63..2^16) are driven too; calls run in child processes (plain, -race/checkptr, thorough also -asan), each logged before it is issued, under recover() and with a derivation cut-off; " +
			"distinct_nontrivial counts distinct (operation, arguments) calls that returned or panicked under observation",
		Run: func(c *Ctx) {
			r := c.R
			api, err := exportedAPI(c.Env["VERIF_REPO"])
			if err != nil {
				r.Inconclusive("API coverage assertion: cannot list exported API: " + err.Error())
			}
			have := map[string]bool{}
			for _, d := range drivers() {
				have[d.name] = true
			}
			uncovered := []string{}
			for _, n := range api {
				if !have[n] && c10Excluded[n] == "" {
					uncovered = append(uncovered, n)
				}
			}
			r.Extra["exported_api"] = api
			r.Extra["excluded_by_property"] = c10Excluded
			r.Extra["uncovered_exported_symbols"] = uncovered
			if len(uncovered) > 0 {
				r.Inconclusive("exported symbols without a driver (not exercised): " + strings.Join(uncovered, ", "))
			}
			type flavour struct{ env, name string }
			fl := []flavour{{"VERIF_PLAIN_BIN", "plain"}, {"VERIF_RACE_BIN", "race+checkptr"}}
			if c.Thorough {
				fl = append(fl, flavour{"VERIF_ASAN_BIN", "asan"})
			}
			nb := c.N(4, 16)
			per := c.N(25000, 150000)
			for _, f := range fl {
				calls := per
				if f.name != "plain" {
					calls = per / 4
				}
				type out struct {
					res *childResult
					b   c10Batch
				}
				results := make([]out, nb)
				monParallel(nb, c.N(4, 8), func(i int) {
					b := c10Batch{Index: i, Calls: calls, RaiseProcs: i%2 == 1}
					results[i] = out{runChildPart(c, f.env, "batch", b, 20*time.Minute, "VERIF_C10_FLAVOUR="+f.name), b}
				})
				for _, o := range results {
					if o.res == nil || !o.res.Ran {
						continue
					}
					r.Count("batches:"+f.name, 1)
					judgeRaceReports(c, o.res, "none", nil)
					if o.res.ExitErr != nil {
						// the child died: attribute to the last logged call
						logPath := filepath.Join(c.Env["VERIF_SCRATCH"], fmt.Sprintf("c10-batch-%d-%s.log", o.b.Index, f.name))
						lb, _ := os.ReadFile(logPath)
						lines := strings.Split(strings.TrimSpace(string(lb)), "\n")
						last := lines[len(lines)-1]
						switch {
						case o.res.TimedOut:
							r.Inconclusive(fmt.Sprintf("batch %d (%s) hit the wall-clock watchdog without logical corroboration; last call: %s", o.b.Index, f.name, clipS(last)))
						case strings.HasPrefix(last, "HANG-SUSPECT"):
							r.Violate("C10|api|hang|", "a call did not return and kept allocating (hang)", "none", lines[max(0, len(lines)-2)], "returns", last)
						default:
							r.Violate("C10|api|process-fatal|"+f.name, "a call ends the process with a fatal error ("+f.name+" build)", "none", last, "returns normally", clipS(last)+"\n"+o.res.Output)
						}
					}
				}
			}
		},
		Replay: func(c *Ctx, kind string, raw json.RawMessage) error {
			if kind != "api" {
				return fmt.Errorf("kind %q has no single-case replay", kind)
			}
			return replayAs(raw, func(k apiCall) { c10Replay(c, k) })
		},
	})
}
