package props

import (
	"bytes"
	"encoding/json"
	"fmt"
	"net/url"
	"reflect"
	"sort"
	"sync"
	"time"
	"unsafe"

	"github.com/ja7ad/otp"

	"verifh/gen"
	"verifh/hooks"
	"verifh/ref"
)

// ---- C12: caller data and package defaults are never modified ----

const guardLen = 64

// canary is a byte field carved out of a larger array: [guard 64][data n][spare][guard 64].
type canary struct {
	backing []byte
	snap    []byte
	slice   []byte
	shape   int
	n       int
}

func canaryByte(i int, salt byte) byte { return byte(i*131+17) ^ salt ^ 0xA5 }

// newCanary: shape 0 len==cap, 1 spare capacity (cap stops before the tail guard), 2 sub-slice of the bigger array (cap runs through the tail guard), 3 nil.
func newCanary(data []byte, shape int, spare int, salt byte) *canary {
	c := &canary{shape: shape, n: len(data)}
	if shape == 3 {
		return c
	}
	if shape == 0 {
		spare = 0
	}
	total := guardLen + len(data) + spare + guardLen
	c.backing = make([]byte, total)
	for i := range c.backing {
		c.backing[i] = canaryByte(i, salt)
	}
	copy(c.backing[guardLen:], data)
	switch shape {
	case 0:
		c.slice = c.backing[guardLen : guardLen+len(data) : guardLen+len(data)]
	case 1:
		c.slice = c.backing[guardLen : guardLen+len(data) : guardLen+len(data)+spare]
	default:
		c.slice = c.backing[guardLen : guardLen+len(data)]
	}
	c.snap = append([]byte(nil), c.backing...)
	return c
}

func (c *canary) intact() (bool, string) {
	if c.shape == 3 {
		return true, ""
	}
	if bytes.Equal(c.backing, c.snap) {
		return true, ""
	}
	for i := range c.backing {
		if c.backing[i] != c.snap[i] {
			region := "data"
			switch {
			case i < guardLen:
				region = "leading guard"
			case i >= guardLen+c.n && i < len(c.backing)-guardLen:
				region = "spare capacity behind the length"
			case i >= len(c.backing)-guardLen:
				region = "trailing guard / neighbouring bytes"
			}
			return false, fmt.Sprintf("%s modified at backing offset %d (data length %d, shape %d): %02x -> %02x", region, i, c.n, c.shape, c.snap[i], c.backing[i])
		}
	}
	return false, "?"
}

type c12OCRACase struct {
	Base   ocraCase `json:"base"`
	Shapes [5]int   `json:"shapes"`
	Spare  [5]int   `json:"spare"`
}

// retained: canaried inputs of earlier calls, re-checked after later calls (a later call must not be able to
// alter an earlier caller's buffers either)
type retainedCanaries struct {
	mu   sync.Mutex
	keep [][5]*canary
	desc []c12OCRACase
}

var c12Retained retainedCanaries

func (rc *retainedCanaries) add(cs [5]*canary, k c12OCRACase) {
	rc.mu.Lock()
	if len(rc.keep) < 20000 {
		rc.keep = append(rc.keep, cs)
		rc.desc = append(rc.desc, k)
	}
	rc.mu.Unlock()
}

func (rc *retainedCanaries) recheck(c *Ctx, when string) {
	rc.mu.Lock()
	defer rc.mu.Unlock()
	names := []string{"Counter", "Challenge", "Password", "SessionInfo", "Timestamp"}
	for i, cs := range rc.keep {
		for f, cn := range cs {
			if ok, what := cn.intact(); !ok {
				c.R.Violate("C12|later-call|earlier-input-modified|"+names[f], "an OCRA input field of an EARLIER call was modified by a later call ("+when+")", "c12ocra", rc.desc[i], "backing array unchanged", what)
				cn.snap = append([]byte(nil), cn.backing...)
			}
		}
	}
	c.R.Count("retained_inputs_rechecked", len(rc.keep))
}

func judgeC12OCRA(c *Ctx, k c12OCRACase) {
	r := c.R
	in := k.Base.Input.ref()
	fields := [5][]byte{in.Counter, in.Challenge, in.Password, in.Session, in.Timestamp}
	var cs [5]*canary
	for i := range fields {
		sh := k.Shapes[i]
		if fields[i] == nil {
			sh = 3
		}
		cs[i] = newCanary(fields[i], sh, k.Spare[i], byte(i*29))
	}
	oin := otp.OCRAInput{Counter: cs[0].slice, Challenge: cs[1].slice, Password: cs[2].slice, SessionInfo: cs[3].slice, Timestamp: cs[4].slice}
	hdr := [5][3]uintptr{}
	for i, s := range [][]byte{oin.Counter, oin.Challenge, oin.Password, oin.SessionInfo, oin.Timestamp} {
		hdr[i] = [3]uintptr{uintptr(unsafe.Pointer(unsafe.SliceData(s))), uintptr(len(s)), uintptr(cap(s))}
	}
	suite, serr, pan := makeSuite(k.Base.Via, k.Base.Suite)
	if pan != nil || serr != nil || suite == nil {
		return
	}
	cfgBefore := suite.Config()
	names := []string{"Counter", "Challenge", "Password", "SessionInfo", "Timestamp"}
	check := func(op string) {
		for i, cn := range cs {
			if ok, what := cn.intact(); !ok {
				r.Violate("C12|"+op+"|input-field-modified|"+names[i], op+" modifies the caller's OCRA input field "+names[i], "c12ocra", k, "backing array unchanged", what)
				cn.snap = append([]byte(nil), cn.backing...)
			}
		}
		for i, s := range [][]byte{oin.Counter, oin.Challenge, oin.Password, oin.SessionInfo, oin.Timestamp} {
			h := [3]uintptr{uintptr(unsafe.Pointer(unsafe.SliceData(s))), uintptr(len(s)), uintptr(cap(s))}
			if h != hdr[i] {
				r.Violate("C12|"+op+"|input-header-modified|"+names[i], op+" changes the caller's slice header", "c12ocra", k, fmt.Sprint(hdr[i]), fmt.Sprint(h))
			}
		}
		if suite.Config() != cfgBefore {
			r.Violate("C12|"+op+"|suite-modified|", op+" modifies the suite configuration it was given", "c12ocra", k, fmt.Sprintf("%+v", cfgBefore), fmt.Sprintf("%+v", suite.Config()))
		}
	}
	var verr error
	if p := monCatch(func() { verr = oin.Validate(suite.Config()) }); p == nil {
		check("OCRAInput.Validate")
	}
	_ = verr
	code, gerr, gpan := callGenerateOCRA(k.Base.Secret, suite, oin)
	r.Eval(1)
	r.Nontrivial("o|" + mustJSON(k))
	if gpan == nil {
		check("GenerateOCRA")
	}
	// results must not depend on the shape the caller presents the bytes in
	model := k.Base.Suite
	if k.Base.Via == viaRaw {
		model, _ = ref.ParseSuiteName(k.Base.Suite.Raw)
	}
	if gerr == nil && gpan == nil && ref.SuiteUsable(model) && ref.Admit(model, in) {
		if want := ref.OCRA(unhex(k.Base.KeyHex), model, in); code != want {
			r.Violate("C12|GenerateOCRA|result-depends-on-capacity|", "the OCRA code differs from the reference when fields are presented with spare capacity / as sub-slices", "c12ocra", k, want, code)
		}
	}
	sub := code
	if gerr != nil {
		sub = "000000"
	}
	if _, _, vpan := callValidateOCRA(k.Base.Secret, sub, suite, oin); vpan == nil {
		r.Eval(1)
		check("ValidateOCRA")
	}
	c12Retained.add(cs, k)
	if r.WantSample() {
		r.Sample(map[string]any{"suite": k.Base.Suite, "field_lengths": []int{lenOrNil(in.Counter), lenOrNil(in.Challenge), lenOrNil(in.Password), lenOrNil(in.Session), lenOrNil(in.Timestamp)}, "shapes(0 len==cap,1 spare,2 subslice,3 nil)": k.Shapes, "spare": k.Spare})
	}
}

// ---- package state ----

type pkgState struct {
	hotpPtr, totpPtr uintptr
	hotp, totp       otp.Param
	tcf              uintptr
	algoStr          [256]string
	registry         map[string]otp.SuiteConfig
	list             []string
	viaHook          bool
}

func snapshotPkg() pkgState {
	var s pkgState
	s.hotpPtr = reflect.ValueOf(otp.DefaultHOTPParam).Pointer()
	s.totpPtr = reflect.ValueOf(otp.DefaultTOTPParam).Pointer()
	if otp.DefaultHOTPParam != nil {
		s.hotp = *otp.DefaultHOTPParam
	}
	if otp.DefaultTOTPParam != nil {
		s.totp = *otp.DefaultTOTPParam
	}
	s.tcf = reflect.ValueOf(otp.TimeCounterFunc).Pointer()
	for a := 0; a < 256; a++ {
		s.algoStr[a] = otp.Algorithm(a).String()
	}
	s.registry = map[string]otp.SuiteConfig{}
	if hooks.Available() {
		s.viaHook = true
		for k, v := range hooks.KnownSuites() {
			s.registry[k] = v
		}
	} else {
		for _, n := range otp.ListSuites() {
			s.registry[n] = otp.SuiteConfigFromRaws(n)
		}
	}
	s.list = otp.ListSuites()
	sort.Strings(s.list)
	return s
}

func comparePkg(c *Ctx, before pkgState, after string) {
	r := c.R
	now := snapshotPkg()
	r.Count("package_state_comparisons", 1)
	v := func(cls, what, exp, obs string) {
		r.Violate("C12|package-state|"+cls+"|", what+" ("+after+")", "none", after, exp, obs)
	}
	if now.hotpPtr != before.hotpPtr || now.hotp != before.hotp {
		v("DefaultHOTPParam", "the exported default HOTP parameter set was modified", fmt.Sprintf("%+v", before.hotp), fmt.Sprintf("%+v", now.hotp))
	}
	if now.totpPtr != before.totpPtr || now.totp != before.totp {
		v("DefaultTOTPParam", "the exported default TOTP parameter set was modified", fmt.Sprintf("%+v", before.totp), fmt.Sprintf("%+v", now.totp))
	}
	if now.tcf != before.tcf {
		v("TimeCounterFunc", "the time-counter function variable was replaced", "unchanged", "changed")
	}
	if now.algoStr != before.algoStr {
		v("Algorithm.String", "the hash-name table was modified", "unchanged", "changed")
	}
	if !reflect.DeepEqual(now.registry, before.registry) || !reflect.DeepEqual(now.list, before.list) {
		diff := ""
		for k, b := range before.registry {
			if n, ok := now.registry[k]; !ok || n != b {
				diff = fmt.Sprintf("%s: %+v -> %+v", k, b, n)
				break
			}
		}
		if diff == "" {
			diff = fmt.Sprintf("%d -> %d entries", len(before.registry), len(now.registry))
		}
		v("registry", "the suite registry was modified", "unchanged", diff)
	}
}

// ---- parameter structs, URLs, returned values ----

func c12Params(c *Ctx) {
	r := c.R
	rng := c.RNG.Fork(121)
	shared := &otp.Param{Digits: 8, Algorithm: otp.SHA256, Period: 0, Skew: 3}
	for i := 0; i < c.N(30000, 600000); i++ {
		key := rng.Bytes(20)
		sec := ref.Base32Encode(key)
		var p *otp.Param
		switch i % 4 {
		case 0:
			p = nil
		case 1:
			p = shared
		default:
			pp, _ := hostileParam(rng, true)
			if pp != nil && pp.Skew > 10 {
				pp.Skew = uint(rng.Intn(11))
			}
			p = pp
		}
		var snap otp.Param
		if p != nil {
			snap = *p
		}
		t := time.Unix(int64(rng.Intn(1<<31)), 0)
		ops := []struct {
			name string
			f    func()
		}{
			{"GenerateHOTP", func() { otp.GenerateHOTP(sec, uint64(i), p) }},
			{"ValidateHOTP", func() { otp.ValidateHOTP(sec, "123456", uint64(i), p) }},
			{"GenerateTOTP", func() { otp.GenerateTOTP(sec, t, p) }},
			{"ValidateTOTP", func() { otp.ValidateTOTP(sec, "12345678", t, p) }},
		}
		for _, op := range ops {
			if pan := monCatch(op.f); pan != nil {
				continue
			}
			r.Eval(1)
			if p != nil && *p != snap {
				r.Violate("C12|"+op.name+"|param-modified|", op.name+" modifies the caller's parameter struct", "none", fmt.Sprintf("%+v", snap), fmt.Sprintf("%+v", snap), fmt.Sprintf("%+v", *p))
				*p = snap
			}
		}
		r.Nontrivial(fmt.Sprintf("p|%d|%+v", i%4, snap))
	}
}

type urlSnap struct {
	scheme, opaque, host, path, rawPath, rawQuery, fragment, rawFragment string
	forceQuery, omitHost                                                 bool
	user                                                                 string
	userPtr                                                              *url.Userinfo
}

func snapURL(u *url.URL) urlSnap {
	s := urlSnap{scheme: u.Scheme, opaque: u.Opaque, host: u.Host, path: u.Path, rawPath: u.RawPath, rawQuery: u.RawQuery, fragment: u.Fragment, rawFragment: u.RawFragment, forceQuery: u.ForceQuery, omitHost: u.OmitHost, userPtr: u.User}
	if u.User != nil {
		s.user = u.User.String()
	}
	return s
}

func c12URLs(c *Ctx) {
	r := c.R
	rng := c.RNG.Fork(122)
	for i := 0; i < c.N(30000, 600000); i++ {
		iss, acc := gen.URLString(rng, false), gen.URLString(rng, true)
		text := "otpauth://totp/" + url.PathEscape(iss+":"+acc) + "?secret=ABCD&issuer=" + url.QueryEscape(iss) + "&digits=" + fmt.Sprint(rng.Intn(300)) + "&period=" + fmt.Sprint(rng.Intn(100))
		if i%5 == 0 {
			text = "otpauth://user:pw@hotp/" + url.PathEscape(iss+":"+acc) + "?secret=ABCD#frag"
		}
		if i%7 == 3 {
			// query shapes real links have: HTML-escaped separators, ';', bad escapes, '+', repeated and empty pairs
			text = "otpauth://totp/" + url.PathEscape(iss+":"+acc) + "?secret=ABCD" + gen.Pick(rng, []string{"&amp;digits=8", "&amp;amp;period=60", ";digits=8", "&digits=%zz", "&%zz=1", "&digits=6&digits=8", "&&&", "&=", "&issuer=a+b%20c", "&secret=EFGH", "&amp;", "&algorithm=sha256;period=15", "%26amp%3Bdigits=8"}) + gen.Pick(rng, []string{"", "&period=30", "&amp;issuer=x"})
		}
		if i%7 == 5 {
			// delimiters in unusual places: raw '#', '?', '&', ';', '%XX' injected at random positions of a well-formed text
			b := []byte("otpauth://totp/Acme:bob?secret=ABCD&issuer=Acme&digits=8")
			for n := 1 + rng.Intn(3); n > 0; n-- {
				pos := 15 + rng.Intn(len(b)-15)
				ins := gen.Pick(rng, []string{"#", "?", "&", ";", "%23", "%3F", "#1?", "?#", "//", "@", "+", "%"})
				b = append(b[:pos], append([]byte(ins), b[pos:]...)...)
			}
			text = string(b)
		}
		if i%11 == 4 {
			// other shapes net/url delivers for what a user may paste: no "//" after the scheme (an opaque URL: no host,
			// no path, the label still escaped), an empty authority, a rootless or empty path, other schemes and cases
			lab := url.PathEscape(iss + ":" + acc)
			text = gen.Pick(rng, []string{"otpauth:totp/" + lab + "?secret=ABCD&issuer=" + url.QueryEscape(iss), "otpauth:hotp/" + lab + "?secret=ABCD&counter=0", "otpauth:TOTP/" + lab + "?secret=ABCD", "OTPAUTH:totp/" + lab + "?secret=ABCD",
				"otpauth:///totp/" + lab + "?secret=ABCD", "otpauth:/totp/" + lab + "?secret=ABCD", "otpauth:?secret=ABCD", "otpauth:totp", "otpauth:", "otpauth://totp?secret=ABCD", "otpauth://totp/?secret=ABCD", "otpauth://totp//" + lab + "?secret=ABCD",
				"otpauth:totp/" + lab + "#frag", "otpauth:totp%2F" + lab + "?secret=ABCD", "https://totp/" + lab + "?secret=ABCD", "//totp/" + lab + "?secret=ABCD", "totp/" + lab + "?secret=ABCD", "otpauth://TOTP:80/" + lab + "?secret=ABCD", "otpauth://[::1]/" + lab + "?secret=ABCD"})
		}
		u, err := url.Parse(text)
		if err != nil {
			continue
		}
		if i%13 == 6 {
			// a URL value built or edited by hand: fields net/url's parser would never combine (Opaque beside Host and Path,
			// RawPath that is not an encoding of Path, OmitHost, ForceQuery, a fragment given raw)
			lab := iss + ":" + acc
			hb := []*url.URL{
				{Scheme: "otpauth", Opaque: "totp/" + url.PathEscape(lab), RawQuery: "secret=ABCD"},
				{Scheme: "otpauth", Opaque: "totp/" + lab, Host: "hotp", Path: "/" + lab, RawQuery: "secret=ABCD&digits=8"},
				{Scheme: "otpauth", Host: "totp", Path: "/" + lab, RawPath: "/" + url.PathEscape("other:label"), RawQuery: "secret=ABCD"},
				{Scheme: "otpauth", Host: "totp", Path: lab, RawQuery: "secret=ABCD", ForceQuery: true},
				{Scheme: "otpauth", Host: "totp", Path: "/" + lab, OmitHost: true, RawQuery: "secret=ABCD"},
				{Scheme: "otpauth", Path: "totp/" + lab, RawQuery: "secret=ABCD"},
				{Scheme: "otpauth", Path: "//totp/" + lab, RawQuery: "secret=ABCD", Fragment: "f g", RawFragment: "f%20g"},
				{Scheme: "OtpAuth", Host: "ToTp", Path: "/" + lab, RawQuery: "secret=ABCD", User: url.UserPassword("u", "p")},
				{Opaque: "totp/" + lab, RawQuery: "secret=ABCD"},
				{},
			}
			u = hb[rng.Intn(len(hb))]
			text = fmt.Sprintf("hand-built %#v", *u)
			r.Count("hand_built_url_values", 1)
		}
		if u.Opaque != "" {
			r.Count("opaque_form_urls", 1)
		}
		before := snapURL(u)
		var p1 *otp.URLParam
		if pan := monCatch(func() { p1, _ = otp.ParseOTPAuthURL(u) }); pan != nil {
			continue
		}
		r.Eval(1)
		r.Nontrivial("pu|" + text)
		if snapURL(u) != before {
			r.Violate("C12|ParseOTPAuthURL|url-modified|", "ParseOTPAuthURL modifies the parsed URL it was given", "none", text, fmt.Sprintf("%+v", before), fmt.Sprintf("%+v", snapURL(u)))
		}
		// a returned *URLParam is the caller's: mutating it must not affect a following call
		if p1 != nil {
			want := *p1
			p1.Issuer, p1.AccountName, p1.Secret, p1.Digits, p1.Period = "mutated", "mutated", "mutated", 99, 99
			var p2 *otp.URLParam
			monCatch(func() { p2, _ = otp.ParseOTPAuthURL(u) })
			if p2 == nil || *p2 != want {
				r.Violate("C12|ParseOTPAuthURL|result-shared|", "mutating a returned URLParam alters a following call", "none", text, fmt.Sprintf("%+v", want), fmt.Sprintf("%+v", p2))
			}
			if p2 == p1 {
				r.Violate("C12|ParseOTPAuthURL|result-shared|", "two calls return the same URLParam pointer", "none", text, "distinct values", "same pointer")
			}
		}
		// generated URLs: mutate the returned *url.URL, generate again
		up := otp.URLParam{Issuer: iss, AccountName: acc, Secret: "ABCD", Digits: 6, Period: 30}
		var g1, g2 *url.URL
		var s1 string
		monCatch(func() {
			g1, _ = otp.GenerateTOTPURL(up)
			if g1 != nil {
				s1 = g1.String()
				g1.Path, g1.RawPath, g1.RawQuery, g1.Host = "/x", "", "a=b", "zzz"
			}
			g2, _ = otp.GenerateTOTPURL(up)
		})
		r.Eval(1)
		if g1 != nil && (g2 == nil || g2.String() != s1 || g1 == g2) {
			r.Violate("C12|GenerateTOTPURL|result-shared|", "mutating a returned URL alters a following call", "none", up, s1, fmt.Sprint(g2))
		}
		if (up != otp.URLParam{Issuer: iss, AccountName: acc, Secret: "ABCD", Digits: 6, Period: 30}) {
			r.Violate("C12|GenerateTOTPURL|param-modified|", "GenerateTOTPURL modifies its parameter value", "none", up, "unchanged", fmt.Sprintf("%+v", up))
		}
	}
}

type addrRange struct {
	lo, hi uintptr
	what   string
}

// c12Aliasing: returned slices must be disjoint from argument memory and from each other
// (every result is kept alive, so an overlap cannot be allocator reuse).
func c12Aliasing(c *Ctx) {
	r := c.R
	rng := c.RNG.Fork(123)
	var keep [][]byte
	var ranges []addrRange
	var args []addrRange
	add := func(b []byte, what string) {
		if len(b) == 0 {
			return
		}
		keep = append(keep, b)
		p := uintptr(unsafe.Pointer(unsafe.SliceData(b)))
		ranges = append(ranges, addrRange{p, p + uintptr(cap(b)), what})
	}
	addArg := func(s string, what string) {
		if len(s) == 0 {
			return
		}
		p := uintptr(unsafe.Pointer(unsafe.StringData(s)))
		args = append(args, addrRange{p, p + uintptr(len(s)), what})
	}
	var keepStr []string
	for i := 0; i < c.N(10000, 100000); i++ {
		dec := fmt.Sprint(rng.U64())
		hx := fmt.Sprintf("%x", rng.Bytes(1+rng.Intn(64)))
		sec := ref.Base32Encode(rng.Bytes(1 + rng.Intn(64)))
		keepStr = append(keepStr, dec, hx, sec)
		addArg(dec, "decimal argument")
		addArg(hx, "hex argument")
		addArg(sec, "secret argument")
		monCatch(func() {
			add(otp.To8ByteBigEndian(rng.U64()), "To8ByteBigEndian")
			b, _ := otp.ParseDecimalToBigEndian8(dec)
			add(b, "ParseDecimalToBigEndian8")
			b, _ = otp.ParseDecimal64BigEndian(dec)
			add(b, "ParseDecimal64BigEndian")
			b, _ = otp.ParseDecimalChallengeRFC6287(dec)
			add(b, "ParseDecimalChallengeRFC6287")
			b, _ = otp.ParseHexTimestamp(hx[:min(len(hx), 16)&^1])
			add(b, "ParseHexTimestamp")
			b, _ = otp.DecodeSecret(sec)
			add(b, "DecodeSecret")
			in, _ := otp.HexInputToOCRA(hx, hx, hx, hx, hx)
			add(in.Counter, "HexInputToOCRA.Counter")
			add(in.Challenge, "HexInputToOCRA.Challenge")
			add(in.Password, "HexInputToOCRA.Password")
			add(in.SessionInfo, "HexInputToOCRA.SessionInfo")
			add(in.Timestamp, "HexInputToOCRA.Timestamp")
		})
		r.Eval(11)
	}
	// hot secrets: decode the same text repeatedly, wipe every returned key (the caller owns it), and make sure
	// the library still sees the right key afterwards
	for i := 0; i < c.N(3000, 30000); i++ {
		key := []byte(fmt.Sprintf("hot-secret-%02d-padding", i%16))
		sec := ref.Base32Encode(key)
		monCatch(func() {
			b, err := otp.DecodeSecret(sec)
			if err != nil || hexs(b) != hexs(key) {
				r.Violate("C12|DecodeSecret|result-shared|", "decoding a secret again after an earlier result was wiped by its owner returns different bytes", "none", sec, hexs(key), fmt.Sprintf("%x err=%v", b, err))
			}
			for j := range b {
				b[j] = 0
			}
			got, gerr := otp.GenerateHOTP(sec, uint64(i), nil)
			if want := ref.HOTP(key, uint64(i), 6, ref.SHA1); gerr != nil || got != want {
				r.Violate("C12|DecodeSecret|result-shared|", "a key returned by DecodeSecret shares memory with library state: wiping it changes later results", "none", sec, want, fmt.Sprintf("%q err=%v", got, gerr))
			}
		})
		r.Eval(2)
	}
	all := append(append([]addrRange{}, ranges...), args...)
	sort.Slice(all, func(i, j int) bool { return all[i].lo < all[j].lo })
	for i := 1; i < len(all); i++ {
		if all[i].lo < all[i-1].hi {
			r.Violate("C12|returned-slices|aliasing|"+all[i-1].what+"+"+all[i].what, "a returned slice shares memory with an argument or with another result", "none", nil, "disjoint memory", fmt.Sprintf("%s [%x,%x) overlaps %s [%x,%x)", all[i-1].what, all[i-1].lo, all[i-1].hi, all[i].what, all[i].lo, all[i].hi))
			break
		}
	}
	r.Count("returned_slices_checked_for_aliasing", len(ranges))
	r.Nontrivial(fmt.Sprintf("alias|%d", len(ranges)))
	_ = keepStr
	// registry results are copies: mutate and look up again
	for _, n := range liveNames() {
		monCatch(func() {
			a := otp.SuiteConfigFromRaws(n)
			want := a
			a.Digits, a.Raw, a.IncludeCounter = 99, "mutated", !a.IncludeCounter
			if b := otp.SuiteConfigFromRaws(n); b != want {
				r.Violate("C12|SuiteConfigFromRaws|result-shared|", "mutating a returned configuration alters the registry", "none", n, fmt.Sprintf("%+v", want), fmt.Sprintf("%+v", b))
			}
			s, err := otp.NewRawSuite(n)
			if err == nil {
				cfg := s.Config()
				want := cfg
				cfg.Digits = 77
				if s2, _ := otp.NewRawSuite(n); s2 == nil || s2.Config() != want {
					r.Violate("C12|NewRawSuite|result-shared|", "mutating a returned configuration alters a following instantiation", "none", n, fmt.Sprintf("%+v", want), "different")
				}
			}
		})
		r.Eval(2)
	}
	l1 := otp.ListSuites()
	want := append([]string(nil), l1...)
	sort.Strings(want)
	for i := range l1 {
		l1[i] = "mutated"
	}
	l2 := otp.ListSuites()
	sort.Strings(l2)
	if !reflect.DeepEqual(l2, want) {
		r.Violate("C12|ListSuites|result-shared|", "mutating the returned list alters a following call", "none", nil, "same set", "different")
	}
}

func c12OCRACases(c *Ctx, emit0 func(c12OCRACase)) {
	rng := c.RNG.Fork(12)
	// half of the fields get a spare capacity chosen so that the slice's total capacity is a round number (the sizes
	// scratch buffers and pools tend to have), the others keep the spare drawn below
	rr := c.RNG.Fork(1212)
	emit := func(k c12OCRACase) {
		in := k.Base.Input.ref()
		lens := [5]int{len(in.Counter), len(in.Challenge), len(in.Password), len(in.Session), len(in.Timestamp)}
		for f := 0; f < 5; f++ {
			if rr.Bool() {
				continue
			}
			target := gen.Pick(rr, []int{8, 16, 32, 64, 128, 256, 512, 1024, 2048, 4096})
			if target > lens[f] {
				k.Spare[f] = target - lens[f]
				k.Shapes[f] = 1 // capacity ends exactly at the round number
			}
		}
		emit0(k)
	}
	lens := []int{0, 7, 8, 9, 19, 20, 21, 31, 32, 33, 63, 64, 65, 127, 128, 129}
	hb := handBuiltSuites(rng, []string{"OCRA-1:c12"})
	for _, s := range hb {
		for v := 0; v < c.N(24, 200); v++ {
			in := admissibleInput(rng, s, rng.Intn(1000))
			if v%3 == 2 {
				// arbitrary (possibly inadmissible) lengths around the padding widths, in every field
				in = ref.Input{Counter: rng.Bytes(gen.Pick(rng, lens)), Challenge: rng.Bytes(gen.Pick(rng, lens)), Password: rng.Bytes(gen.Pick(rng, lens)), Session: rng.Bytes(gen.Pick(rng, lens)), Timestamp: rng.Bytes(gen.Pick(rng, lens))}
			} else {
				in = garbageUnselected(rng, s, in, v)
			}
			k := c12OCRACase{Base: ocraCase{KeyHex: hexs([]byte("12345678901234567890")), Secret: "GEZDGNBVGY3TQOJQGEZDGNBVGY3TQOJQ", Via: gen.Pick(rng, []string{viaBare, viaRawValue, viaNewSuite}), Suite: s, Input: inputToJ(in)}}
			for f := 0; f < 5; f++ {
				k.Shapes[f] = rng.Intn(3)
				k.Spare[f] = gen.Pick(rng, []int{1, 8, 120, 128, 200, 512})
			}
			emit(k)
		}
	}
	for _, n := range liveNames() {
		m, ok := ref.ParseSuiteName(n)
		if !ok {
			continue
		}
		for v := 0; v < c.N(20, 200); v++ {
			k := c12OCRACase{Base: ocraCase{KeyHex: hexs([]byte("12345678901234567890")), Secret: "GEZDGNBVGY3TQOJQGEZDGNBVGY3TQOJQ", Via: viaRaw, Suite: ref.Suite{Raw: n}, Input: inputToJ(admissibleInput(rng, m, v))}}
			for f := 0; f < 5; f++ {
				k.Shapes[f] = (v + f) % 3
				k.Spare[f] = gen.Pick(rng, []int{1, 8, 120, 128, 200})
			}
			emit(k)
		}
	}
	// parsed, unregistered suite strings across the grammar (explicit session widths, every time-step unit, all hashes)
	seen := map[string]bool{}
	for tries := 0; len(seen) < c.N(120, 1500) && tries < 100000; tries++ {
		n := genSuiteName(rng)
		m, ok := ref.ParseSuiteName(n)
		if !ok || !ref.SuiteUsable(m) || seen[n] {
			continue
		}
		seen[n] = true
		for v := 0; v < c.N(6, 12); v++ {
			k := c12OCRACase{Base: ocraCase{KeyHex: hexs([]byte("12345678901234567890")), Secret: "GEZDGNBVGY3TQOJQGEZDGNBVGY3TQOJQ", Via: viaRaw, Suite: ref.Suite{Raw: n}, Input: inputToJ(admissibleInput(rng, m, v+rng.Intn(12)))}}
			for f := 0; f < 5; f++ {
				k.Shapes[f] = 1 + (v+f)%2
				k.Spare[f] = gen.Pick(rng, []int{1, 8, 64, 120, 128, 200, 512, 1024})
			}
			emit(k)
		}
	}
}

func c12Main(c *Ctx) {
	st := snapshotPkg()
	var cases []c12OCRACase
	c12OCRACases(c, func(k c12OCRACase) { cases = append(cases, k) })
	// batches, with the package state compared after each
	nb := 8
	for b := 0; b < nb; b++ {
		lo, hi := b*len(cases)/nb, (b+1)*len(cases)/nb
		if b%2 == 0 {
			parallelJudge(c, cases[lo:hi], judgeC12OCRA)
		} else {
			for _, k := range cases[lo:hi] { // a sequential history on one goroutine
				judgeC12OCRA(c, k)
			}
		}
		c12Retained.recheck(c, fmt.Sprintf("after OCRA batch %d", b))
		comparePkg(c, st, fmt.Sprintf("after OCRA batch %d", b))
	}
	c12Params(c)
	comparePkg(c, st, "after the parameter-struct batch")
	c12URLs(c)
	comparePkg(c, st, "after the URL batch")
	c12Aliasing(c)
	comparePkg(c, st, "after the aliasing batch")
	c.R.Extra["registry_compared_via_hook"] = st.viaHook
}

func init() {
	childParts["C12/main"] = func(c *Ctx, arg json.RawMessage) { c12Main(c) }
	register(&Prop{
		ID: "C12",
		Rule: "OCRA inputs are carved out of canary-filled arrays [guard 64][data][spare][guard 64] in three shapes (len==cap, spare capacity, sub-slice of a larger array) with lengths around 8/128/20/32/64 (admissible and not) and passed to OCRAInput.Validate, GenerateOCRA, ValidateOCRA: full backing arrays, slice headers and the suite are compared before/after; Param pointers (nil, shared, fresh) through HOTP/TOTP calls; parsed URLs through ParseOTPAuthURL, among them the opaque form without \"//\", empty authorities, other schemes and url.URL values built by hand (Opaque beside Host and Path, inconsistent RawPath, OmitHost, ForceQuery); returned URLParam / url.URL / SuiteConfig / list values are mutated and the call repeated; address ranges of all returned slices are checked pairwise and against arguments for overlap; after every batch the defaults, TimeCounterFunc, hash-name table and registry (via hook) are compared with a start-of-run snapshot; " +
			"distinct_nontrivial counts distinct canaried OCRA cases, parameter-struct states and parsed URLs",
		Run: func(c *Ctx) {
			c12Main(c)
			if c.Thorough {
				for _, f := range [][2]string{{"VERIF_RACE_BIN", "race+checkptr"}, {"VERIF_ASAN_BIN", "asan"}} {
					res := runChildPart(c, f[0], "main", nil, 20*time.Minute)
					if !res.Ran {
						continue
					}
					judgeRaceReports(c, res, "none", nil)
					if res.ExitErr != nil && !res.TimedOut {
						c.R.Violate("C12|workload|process-fatal|"+f[1], "the canary workload ends with a fatal error under the "+f[1]+" build (invalid memory access)", "none", nil, "clean exit", res.Output)
					} else if res.TimedOut {
						c.R.Inconclusive(f[1] + " child hit the watchdog")
					}
				}
			}
		},
		Replay: func(c *Ctx, kind string, raw json.RawMessage) error {
			if kind != "c12ocra" {
				return fmt.Errorf("kind %q has no single-case replay", kind)
			}
			return replayAs(raw, func(k c12OCRACase) { judgeC12OCRA(c, k) })
		},
	})
}
