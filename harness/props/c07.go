package props

import (
	"encoding/base64"
	"encoding/json"
	"fmt"
	"strings"
	"time"

	"github.com/ja7ad/otp"

	"verifh/gen"
	"verifh/hooks"
	"verifh/ref"
)

// ---- C07: every spelling of a base32 secret decodes to the same key ----

type spellCase struct {
	KeyHex string `json:"key_hex"`
	Text   string `json:"text"`
	Valid  bool   `json:"valid"`
	Class  string `json:"class"`
}

func callDecode(text string) (b []byte, err error, pan any) {
	defer func() {
		if x := recover(); x != nil {
			pan = x
		}
	}()
	b, err = otp.DecodeSecret(text)
	return
}

func judgeSpell(c *Ctx, k spellCase) {
	r := c.R
	b, err, pan := callDecode(k.Text)
	r.Eval(1)
	if pan != nil {
		r.Violate("C07|DecodeSecret|panic|"+k.Class, "DecodeSecret panics", "spell", k, "bytes or an error", panicStr(pan))
		return
	}
	r.Nontrivial("s|" + k.Class + "|" + k.Text)
	if k.Valid {
		if err != nil || hexs(b) != k.KeyHex {
			r.Violate("C07|DecodeSecret|valid-spelling|"+k.Class, "DecodeSecret does not return the encoded bytes for an accepted spelling ("+k.Class+")", "spell", k, k.KeyHex, fmt.Sprintf("%x err=%v", b, err))
		}
	} else if k.Class == "wrapped-in-unicode-white-space" {
		// whether white space beyond space / tab / newline counts as "surrounded by white space" is not stated: the text is
		// refused, or decoded to exactly the bytes - never to anything else
		if err == nil && hexs(b) != k.KeyHex {
			r.Violate("C07|DecodeSecret|valid-spelling|"+k.Class, "a text wrapped in Unicode white space is accepted but decoded to other bytes", "spell", k, k.KeyHex+" or an error", fmt.Sprintf("%x", b))
		}
	} else if err == nil {
		r.Violate("C07|DecodeSecret|invalid-accepted|"+k.Class, "DecodeSecret accepts invalid text ("+k.Class+")", "spell", k, "an error", fmt.Sprintf("bytes %x", b))
	}
	if r.WantSample() {
		r.Sample(map[string]any{"case": k, "decoded": hexs(b), "err": fmt.Sprint(err)})
	}
}

// entryPointCase: all generation/validation entry points must behave identically
// for every spelling of one secret (and see the same key, observed at the HMAC).
type entryCase struct {
	KeyHex string   `json:"key_hex"`
	Texts  []string `json:"texts"`
}

func judgeEntry(c *Ctx, k entryCase) {
	r := c.R
	key := unhex(k.KeyHex)
	t := time.Unix(1700000000, 0)
	suiteM := ref.Suite{Raw: "OCRA-1:HOTP-SHA256-8:C-QN08", Hash: 1, Digits: 8, C: true, Q: true, Challenge: ref.QN08}
	in := ref.Input{Counter: ref.BE8(5), Challenge: []byte("12345678")}
	wantH := ref.HOTP(key, 42, 8, ref.SHA256)
	wantT := ref.TOTP(key, 1700000000, 30, 6, ref.SHA1)
	wantO := ref.OCRA(key, suiteM, in)
	suite := toCfg(suiteM)
	for _, text := range k.Texts {
		var evs []hooks.Event
		hooked := hooks.Install(&hooks.Config{Record: func(e hooks.Event) { evs = append(evs, e) }})
		type res struct {
			op  string
			got string
		}
		var results []res
		pan := monCatch(func() {
			h, e1 := otp.GenerateHOTP(text, 42, &otp.Param{Digits: 8, Algorithm: otp.SHA256})
			results = append(results, res{"GenerateHOTP", fmt.Sprintf("%s/%v", h, e1)})
			tt, e2 := otp.GenerateTOTP(text, t, nil)
			results = append(results, res{"GenerateTOTP", fmt.Sprintf("%s/%v", tt, e2)})
			o, e3 := otp.GenerateOCRA(text, suite, toOCRAInput(in))
			results = append(results, res{"GenerateOCRA", fmt.Sprintf("%s/%v", o, e3)})
			ok1, e4 := otp.ValidateHOTP(text, wantH, 42, &otp.Param{Digits: 8, Algorithm: otp.SHA256})
			results = append(results, res{"ValidateHOTP", fmt.Sprintf("%v/%v", ok1, e4)})
			ok2, e5 := otp.ValidateTOTP(text, wantT, t, nil)
			results = append(results, res{"ValidateTOTP", fmt.Sprintf("%v/%v", ok2, e5)})
			ok3, e6 := otp.ValidateOCRA(text, wantO, suite, toOCRAInput(in))
			results = append(results, res{"ValidateOCRA", fmt.Sprintf("%v/%v", ok3, e6)})
		})
		if hooked {
			hooks.Remove()
		}
		r.Eval(6)
		r.Nontrivial("e|" + text)
		if pan != nil {
			r.Violate("C07|entry-points|panic|", "an entry point panics on an accepted spelling", "entry", entryCase{k.KeyHex, []string{text}}, "results", panicStr(pan))
			continue
		}
		want := []string{wantH + "/<nil>", wantT + "/<nil>", wantO + "/<nil>", "true/<nil>", "true/<nil>", "true/<nil>"}
		for i, rs := range results {
			if rs.got != want[i] {
				r.Violate("C07|"+rs.op+"|spelling-dependent|", rs.op+" does not see the same key for every spelling of a secret", "entry", entryCase{k.KeyHex, []string{text}}, want[i], rs.got)
			}
		}
		if hooked {
			r.Count("hmac_events", len(evs))
			for _, e := range evs {
				if hexs(e.Key) != k.KeyHex {
					r.Violate("C07|entry-points|hmac-key|", "the HMAC key differs from the decoded secret for some spelling", "entry", entryCase{k.KeyHex, []string{text}}, k.KeyHex, hexs(e.Key))
					break
				}
			}
		}
	}
}

// judgeEntryNeighbours: at every generation / validation entry point, a valid text is used first and then texts that
// differ from it by one outside character (Unicode case-folding look-alikes of its letters, full-width forms, digits
// 0/1/8/9, a line break, a blank inside): each of them must be refused there as well - whatever the previous call left
// behind (a memo of the last decoded secret, a scratch buffer) must not stand in for decoding the text at hand.
func judgeEntryNeighbours(c *Ctx, key []byte, rng *gen.RNG) {
	r := c.R
	valid := ref.Base32EncodeNoPad(key)
	if len(valid) < 2 {
		return
	}
	t := time.Unix(1700000000, 0)
	suite := toCfg(ref.Suite{Raw: "OCRA-1:HOTP-SHA256-8:C-QN08", Hash: 1, Digits: 8, C: true, Q: true, Challenge: ref.QN08})
	oin := toOCRAInput(ref.Input{Counter: ref.BE8(5), Challenge: []byte("12345678")})
	wantH := ref.HOTP(key, 42, 8, ref.SHA256)
	fold := map[byte][]string{'S': {"\u017f"}, 'K': {"\u212a"}, 'I': {"\u0131", "\u0130"}, 'O': {"0"}, 'L': {"1"}, 'B': {"8"}, 'G': {"9"}}
	var bad []string
	for i := 0; i < len(valid) && len(bad) < 24; i++ {
		for _, f := range fold[valid[i]] {
			bad = append(bad, valid[:i]+f+valid[i+1:])
		}
	}
	p := 1 + rng.Intn(len(valid)-1)
	bad = append(bad, valid[:p]+"\n"+valid[p:], valid[:p]+" "+valid[p:], valid[:p]+string(rune(0xFF00+int(valid[p])-0x20))+valid[p+1:], strings.ToLower(valid[:p])+"\u017f"+valid[p:])
	ops := []struct {
		name string
		call func(text string) (okOrCode string, err error)
	}{
		{"GenerateHOTP", func(text string) (string, error) {
			return otp.GenerateHOTP(text, 42, &otp.Param{Digits: 8, Algorithm: otp.SHA256})
		}},
		{"GenerateTOTP", func(text string) (string, error) { return otp.GenerateTOTP(text, t, nil) }},
		{"GenerateOCRA", func(text string) (string, error) { return otp.GenerateOCRA(text, suite, oin) }},
		{"ValidateHOTP", func(text string) (string, error) {
			ok, err := otp.ValidateHOTP(text, wantH, 42, &otp.Param{Digits: 8, Algorithm: otp.SHA256})
			return fmt.Sprint(ok), err
		}},
		{"ValidateTOTP", func(text string) (string, error) {
			ok, err := otp.ValidateTOTP(text, ref.TOTP(key, 1700000000, 30, 6, ref.SHA1), t, nil)
			return fmt.Sprint(ok), err
		}},
		{"ValidateOCRA", func(text string) (string, error) {
			ok, err := otp.ValidateOCRA(text, ref.OCRA(key, ref.Suite{Raw: "OCRA-1:HOTP-SHA256-8:C-QN08", Hash: 1, Digits: 8, C: true, Q: true, Challenge: ref.QN08}, ref.Input{Counter: ref.BE8(5), Challenge: []byte("12345678")}), suite, oin)
			return fmt.Sprint(ok), err
		}},
	}
	for _, op := range ops {
		for _, b := range bad {
			if _, derr := ref.Base32Decode(b); derr == nil {
				continue // happens to be a valid text again
			}
			var res string
			var err error
			pan := monCatch(func() {
				op.call(valid) // the valid text first
				res, err = op.call(b)
			})
			r.Eval(2)
			r.Nontrivial("en|" + op.name + "|" + b)
			if pan != nil {
				r.Violate("C07|"+op.name+"|panic|invalid-after-valid", op.name+" panics on an invalid text used right after the valid one", "entry", entryCase{hexs(key), []string{valid, b}}, "an error", panicStr(pan))
			} else if err == nil {
				r.Violate("C07|"+op.name+"|invalid-accepted|after-the-valid-text", op.name+" accepts a text with a character outside the alphabet when it is used right after the valid text it resembles", "entry", entryCase{hexs(key), []string{valid, b}}, "an error", "result "+res)
			}
		}
	}
	r.Count("entry_point_invalid_neighbour_groups", 1)
}

func allSpellings(rng *gen.RNG, key []byte) []string {
	enc := ref.Base32Encode(key)
	seen := map[string]bool{}
	var out []string
	for v := 0; v < gen.NSpellings; v++ {
		s := gen.Spell(rng, enc, v)
		if !seen[s] {
			seen[s] = true
			out = append(out, s)
		}
	}
	return out
}

// invalid classes of C07: character outside the alphabet anywhere (incl. Unicode
// letters whose upper-case mapping lands in the alphabet), impossible lengths, padding in the middle.
func invalidTexts(rng *gen.RNG, emit func(text, class string)) {
	outside := []string{"0", "1", "8", "9", "!", "-", "_", ".", "/", "+", "@", "é", "\u017f", "\u0131", "Ａ", "а" /* cyrillic a */, "\x00", "\xff", "\u212a" /* Kelvin sign */}
	key := rng.Bytes(5 * (1 + rng.Intn(6)))
	valid := ref.Base32EncodeNoPad(key)
	// substitute k characters by an outside character, preserving the character count
	for _, o := range outside {
		for _, k := range []int{1, 2, 8, 16} {
			b := []rune(valid)
			if k > len(b) {
				k = len(b)
			}
			pos := rng.Intn(len(b) - k + 1)
			var sb strings.Builder
			for i, r := range b {
				if i >= pos && i < pos+k {
					sb.WriteString(o)
				} else {
					sb.WriteRune(r)
				}
			}
			emit(sb.String(), "character-outside-alphabet")
		}
		// whole text of outside characters in a multiple of 8 bytes
		n := 8
		for (n*len(o))%8 != 0 {
			n++
		}
		emit(strings.Repeat(o, n), "character-outside-alphabet")
		emit(strings.Repeat(o, 8)+valid, "character-outside-alphabet")
		// inserted
		p := rng.Intn(len(valid) + 1)
		emit(valid[:p]+o+valid[p:], "character-outside-alphabet")
	}
	// every single byte value outside A-Z a-z 2-7 = at an interior position (and at both ends when it is not white space)
	for b := 0; b < 256; b++ {
		c := byte(b)
		if c >= 'A' && c <= 'Z' || c >= 'a' && c <= 'z' || c >= '2' && c <= '7' || c == '=' {
			continue
		}
		p := 1 + rng.Intn(len(valid)-2)
		emit(valid[:p]+string([]byte{c})+valid[p+1:], "character-outside-alphabet")
		if !(c == ' ' || c == '\t' || c == '\n' || c == '\r' || c == '\v' || c == '\f' || c == 0x85 || c == 0xA0) {
			emit(string([]byte{c})+valid[1:], "character-outside-alphabet")
			emit(valid[:len(valid)-1]+string([]byte{c}), "character-outside-alphabet")
		}
	}
	// impossible lengths: 1, 3, 6 mod 8 data characters
	for _, m := range []int{1, 3, 6} {
		for _, blocks := range []int{0, 1, 3} {
			n := 8*blocks + m
			s := ""
			for i := 0; i < n; i++ {
				s += string("ABCDEFGHIJKLMNOPQRSTUVWXYZ234567"[rng.Intn(32)])
			}
			emit(s, "impossible-length")
			emit(s+strings.Repeat("=", 8-m), "impossible-length")
			emit(strings.ToLower(s), "impossible-length")
		}
	}
	// padding in the middle
	for i := 0; i < 6; i++ {
		p := 1 + rng.Intn(len(valid)-2) // at least one data character follows the '='
		emit(valid[:p]+"="+valid[p:], "padding-in-the-middle")
		emit(valid[:p]+"="+valid[p+1:], "padding-in-the-middle")
		emit("="+valid, "padding-in-the-middle")
		emit(valid[:p]+"========"+valid[p:], "padding-in-the-middle")
	}
}

// insertedOutsiders: k copies (k = 1..8, 16, 24) of every byte value outside A-Z a-z 2-7 = inserted at interior
// positions of valid texts (spread out and as one run), for texts of every padding class, padded and unpadded -
// so that also combinations whose total length looks possible again are presented.
func insertedOutsiders(rng *gen.RNG, keyLens []int, emit func(text, class string)) {
	for _, n := range keyLens {
		key := rng.Bytes(n)
		for _, valid := range []string{ref.Base32EncodeNoPad(key), ref.Base32Encode(key)} {
			data := strings.TrimRight(valid, "=")
			if len(data) < 2 {
				continue
			}
			for b := 0; b < 256; b++ {
				c := byte(b)
				if c >= 'A' && c <= 'Z' || c >= 'a' && c <= 'z' || c >= '2' && c <= '7' || c == '=' {
					continue
				}
				for _, k := range []int{1, 2, 3, 4, 5, 6, 7, 8, 16, 24} {
					// spread: each copy at its own interior position of the data characters
					t := []byte(data)
					for i := 0; i < k; i++ {
						p := 1 + rng.Intn(len(t)-1)
						t = append(t[:p], append([]byte{c}, t[p:]...)...)
					}
					emit(string(t)+valid[len(data):], "character-outside-alphabet")
					// one run
					p := 1 + rng.Intn(len(data)-1)
					emit(data[:p]+strings.Repeat(string([]byte{c}), k)+data[p:]+valid[len(data):], "character-outside-alphabet")
				}
			}
		}
	}
}

// otherEncodings: a valid text carried in the encoding of some other layer (percent-encoded padding or letters,
// quoted-printable / HTML-entity padding, quotes and brackets around it, a scheme-like prefix, the key in hex or
// base64 instead of base32). Each contains characters outside the alphabet and must be rejected; texts that happen to
// be valid base32 again (per the reference decoder) are not emitted.
func otherEncodings(rng *gen.RNG, keyLens []int, emit func(text, class string)) {
	out := func(t string) {
		if _, err := ref.Base32Decode(t); err != nil {
			emit(t, "other-encoding-of-a-valid-text")
		}
	}
	pct := func(s string, all bool, lower bool) string {
		var sb strings.Builder
		for i := 0; i < len(s); i++ {
			if all || s[i] == '=' {
				f := "%%%02X"
				if lower {
					f = "%%%02x"
				}
				fmt.Fprintf(&sb, f, s[i])
			} else {
				sb.WriteByte(s[i])
			}
		}
		return sb.String()
	}
	for _, n := range keyLens {
		key := rng.Bytes(n)
		padded, bare := ref.Base32Encode(key), ref.Base32EncodeNoPad(key)
		for _, v := range []string{padded, strings.ToLower(padded)} {
			out(pct(v, false, false))
			out(pct(v, false, true))
			out(pct(v, true, false))
			out(strings.ReplaceAll(v, "=", "=3D"))
			out(strings.ReplaceAll(v, "=", "&#61;"))
			out(strings.ReplaceAll(v, "=", "&equals;"))
			out(strings.ReplaceAll(v, "=", "\\u003d"))
		}
		for _, w := range [][2]string{{"\"", "\""}, {"'", "'"}, {"<", ">"}, {"(", ")"}, {"[", "]"}, {"base32:", ""}, {"secret=", ""}, {"", "&digits=6"}, {"otpauth://totp/x?secret=", ""}, {"", ";"}, {"", ","}, {"0x", ""}} {
			out(w[0] + bare + w[1])
			out(w[0] + padded + w[1])
		}
		out(fmt.Sprintf("%x", key))
		out(fmt.Sprintf("%X", key))
		out(base64.StdEncoding.EncodeToString(key))
		out(base64.RawURLEncoding.EncodeToString(key))
		// groups of four separated by blanks or dashes, as authenticator apps display them
		var grp []string
		for i := 0; i < len(bare); i += 4 {
			grp = append(grp, bare[i:min(i+4, len(bare))])
		}
		if len(grp) > 1 {
			out(strings.Join(grp, " "))
			out(strings.Join(grp, "-"))
		}
	}
}

// c07TwinHistory: one goroutine; a valid canonical text, then "twins" of it - the same text with one or two characters
// replaced by another byte with the same low five bits (digits 2..7 and the letters R..W, '*' and 'J', a letter with
// its high bit set, control bytes), by the byte with the other case bit, or with the low six / seven bits kept - then
// the valid text again. A twin is judged on its own by the reference decoder: another valid text must give ITS bytes,
// anything else must be refused. Whatever is remembered about the last text under a folded, masked or shortened
// form of it answers a twin with the first text's bytes.
func c07TwinHistory(c *Ctx) {
	rng := c.RNG.Fork(78)
	for w := 0; w < c.N(60, 1200); w++ {
		key := rng.Bytes(gen.Pick(rng, []int{5, 10, 10, 15, 20, 20, 32, 40}))
		valid := ref.Base32EncodeNoPad(key)
		base := spellCase{KeyHex: hexs(key), Text: valid, Valid: true, Class: "canonical text (twin history)"}
		judgeSpell(c, base)
		for n := 0; n < 12; n++ {
			b := []byte(valid)
			nrep := 1 + rng.Intn(2)
			for j := 0; j < nrep; j++ {
				i := rng.Intn(len(b) - 1) // never the last character (its spare bits have rules of their own)
				ch := b[i]
				switch rng.Intn(5) {
				case 0, 1, 2:
					nb := ch&0x1f | byte(rng.Intn(8))<<5
					if nb == ch {
						nb ^= 0x40
					}
					b[i] = nb
				case 3:
					b[i] = ch ^ 0x80
				default:
					b[i] = ch&0x3f | byte(rng.Intn(4))<<6
				}
			}
			t := string(b)
			if t == valid {
				continue
			}
			k := spellCase{Text: t, Class: "twin of the previous valid text"}
			if kb, err := ref.Base32Decode(t); err == nil {
				if ref.Base32EncodeNoPad(kb) != strings.ToUpper(t) {
					continue // accepted by the reference only through rules about spare bits: not a clear case
				}
				k.Valid, k.KeyHex = true, hexs(kb)
			}
			judgeSpell(c, k)
			judgeSpell(c, base)
			c.R.Count("twin_history_steps", 1)
		}
	}
}

func c07History(c *Ctx, cases []spellCase) {
	rng := c.RNG.Fork(77)
	var valid, invalid []spellCase
	for i, k := range cases {
		if k.Valid && i%37 == 0 && len(valid) < 400 {
			valid = append(valid, k)
		}
		if !k.Valid && i%11 == 0 && len(invalid) < 2000 {
			invalid = append(invalid, k)
		}
	}
	if len(valid) == 0 || len(invalid) == 0 {
		return
	}
	n := c.N(40000, 600000)
	for i := 0; i < n; i++ {
		hot := valid[rng.Intn(min(len(valid), 1+i%24))] // a small hot set, revisited
		switch rng.Intn(4) {
		case 0:
			judgeSpell(c, invalid[rng.Intn(len(invalid))])
		case 1:
			// an unrelated valid text, then an invalid one made of valid characters with an impossible length
			judgeSpell(c, valid[rng.Intn(len(valid))])
			t := valid[rng.Intn(len(valid))].Text
			t = strings.TrimRight(strings.TrimSpace(t), "=")
			for len(t)%8 != 1 && len(t)%8 != 3 && len(t)%8 != 6 {
				t += "A"
			}
			if len(t) >= 9 {
				judgeSpell(c, spellCase{Text: t, Class: "impossible-length"})
			}
		}
		judgeSpell(c, hot)
		c.R.Count("history_steps", 1)
	}
}

func init() {
	register(&Prop{
		ID: "C07",
		Rule: "for byte strings of every length 0..256 x content classes: every accepted spelling (padded, unpadded, partially padded; upper, lower, mixed case; leading/trailing space, tab, CR, LF) must decode to exactly those bytes and give identical results at all six generation/validation entry points (HMAC key observed through the hook); invalid texts (characters outside the alphabet incl. U+017F/U+0131/U+212A whose upper-case mapping is a base32 letter, lengths 1/3/6 mod 8, padding in the middle) must be rejected; " +
			"a one-goroutine history of valid canonical texts each followed by twins (one or two characters replaced by bytes with the same low five, six or seven bits or the other case bit) judged on their own by the reference decoder (observed.twin_history_steps); " +
			"distinct_nontrivial counts distinct (class, text) pairs",
		Run: func(c *Ctx) {
			rng := c.RNG.Fork(7)
			var lens []int
			for rep := 0; rep < c.N(1, 12); rep++ {
				for n := 0; n <= 256; n++ {
					lens = append(lens, n)
				}
			}
			var cases []spellCase
			var entries []entryCase
			for _, n := range lens {
				for cl := 0; cl < 3; cl++ {
					key := gen.SecretBytes(rng, n, cl)
					sp := allSpellings(rng, key)
					for _, s := range sp {
						cases = append(cases, spellCase{KeyHex: hexs(key), Text: s, Valid: true, Class: "accepted-spelling"})
					}
					if n%7 == 0 || n < 6 {
						entries = append(entries, entryCase{KeyHex: hexs(key), Texts: sp})
					}
				}
			}
			for i := 0; i < c.N(100, 2000); i++ {
				invalidTexts(rng, func(text, class string) {
					cases = append(cases, spellCase{Text: text, Class: class})
				})
			}
			insertedOutsiders(rng, []int{2, 5, 10, 1, 3, 4, 20}[:c.N(3, 7)], func(text, class string) {
				cases = append(cases, spellCase{Text: text, Class: class})
			})
			for _, n := range []int{1, 5, 10, 20, 33} {
				key := rng.Bytes(n)
				for _, ws := range []string{"\u00a0", "\u0085", "\u2028", "\u3000", "\v", "\f", "\u2003", "\u1680", "\ufeff", "\u200b"} {
					for _, enc := range []string{ref.Base32Encode(key), strings.ToLower(ref.Base32EncodeNoPad(key))} {
						cases = append(cases, spellCase{KeyHex: hexs(key), Text: ws + enc, Class: "wrapped-in-unicode-white-space"},
							spellCase{KeyHex: hexs(key), Text: enc + ws, Class: "wrapped-in-unicode-white-space"}, spellCase{KeyHex: hexs(key), Text: ws + enc + ws + " ", Class: "wrapped-in-unicode-white-space"})
					}
				}
			}
			otherEncodings(rng, []int{1, 2, 3, 4, 5, 10, 16, 20, 32, 33}, func(text, class string) {
				cases = append(cases, spellCase{Text: text, Class: class})
			})
			parallelJudge(c, cases, judgeSpell)
			// sequential history on one goroutine: hot valid spellings repeated byte-identically, interleaved with invalid
			// texts of every class (a decoder that remembers or reuses anything across calls shows up here)
			c07History(c, cases)
			c07TwinHistory(c)
			if !hooks.Available() {
				c.R.Inconclusive("HMAC key observation per spelling: verif hooks unavailable")
			}
			for _, e := range entries { // sequential: the recording wrapper is process-global
				judgeEntry(c, e)
			}
			// the same entries once more in a seeded shuffled order together with much longer keys, so that short keys
			// follow long ones and vice versa on one goroutine (the pass above visits lengths in ascending order)
			alt := append([]entryCase(nil), entries...)
			for _, n := range []int{257, 300, 512, 1000, 4096} {
				key := gen.SecretBytes(rng, n, 0)
				alt = append(alt, entryCase{KeyHex: hexs(key), Texts: allSpellings(rng, key)[:4]})
			}
			for i := len(alt) - 1; i > 0; i-- {
				j := rng.Intn(i + 1)
				alt[i], alt[j] = alt[j], alt[i]
			}
			for _, e := range alt {
				judgeEntry(c, e)
				c.R.Count("entry_cases_in_shuffled_length_order", 1)
			}
			// invalid neighbours right after the valid text, at every entry point (keys whose text has plenty of S, K, I, O, L, B, G)
			for i := 0; i < c.N(40, 400); i++ {
				key := []byte(gen.Pick(rng, []string{"KISS-LOCK-KEY-SKILLS", "SKI BOOKS GO BIG", "kissing books is silly!", "JKLSSKKII"}))
				if i%2 == 1 {
					key = rng.Bytes(10 + rng.Intn(30))
				}
				judgeEntryNeighbours(c, key, rng)
			}
		},
		Replay: func(c *Ctx, kind string, raw json.RawMessage) error {
			switch kind {
			case "spell":
				return replayAs(raw, func(k spellCase) { judgeSpell(c, k) })
			case "entry":
				return replayAs(raw, func(k entryCase) { judgeEntry(c, k) })
			}
			return fmt.Errorf("unknown kind %q", kind)
		},
	})
}
