package props

import (
	"encoding/json"
	"errors"
	"fmt"
	"net/url"
	"reflect"
	"strings"
	"time"

	"github.com/ja7ad/otp"

	"verifh/gen"
	"verifh/ref"
)

// leakCheck is C13's disclosure clause: an error text (and every Unwrap level)
// must contain neither the secret (any spelling used, raw bytes, hex) nor a code
// that would have been accepted. Only for keys >= 10 bytes and codes >= 6 digits,
// so that a short number inside a message cannot coincide.
func leakCheck(c *Ctx, op string, err error, secretText string, key []byte, accepted func() []string, kind string, k any) {
	if err == nil {
		return
	}
	var texts []string
	for e := err; e != nil; e = errors.Unwrap(e) {
		texts = append(texts, e.Error())
	}
	// "contains" is read broadly: what a logger or an API layer would emit for the error value
	// (%+v, %#v, JSON encoding) and any exported string / byte-slice field reachable from it
	texts = append(texts, fmt.Sprintf("%+v", err), fmt.Sprintf("%#v", err))
	if jb, jerr := json.Marshal(err); jerr == nil {
		texts = append(texts, string(jb))
	}
	texts = append(texts, exportedStrings(reflect.ValueOf(err), 0)...)
	txt := strings.Join(texts, "\n")
	c.R.Count("error_texts_scanned", 1)
	c.R.Nontrivial("errtext|" + op + "|" + txt)
	if len(key) >= 10 {
		enc := ref.Base32Encode(key)
		needles := map[string]string{
			"secret as supplied":        strings.TrimSpace(secretText),
			"secret (canonical base32)": enc,
			"secret (unpadded base32)":  strings.TrimRight(enc, "="),
			"secret (lower-case)":       strings.ToLower(strings.TrimRight(enc, "=")),
			"raw key bytes":             string(key),
			"key in hex":                hexs(key),
			"key in upper-case hex":     strings.ToUpper(hexs(key)),
		}
		for what, n := range needles {
			if len(n) >= 10 && strings.Contains(txt, n) {
				c.R.Violate("C13|"+op+"|error-leaks-secret|", op+": error text contains the "+what, kind, k, "error text without the secret", txt)
				return
			}
		}
	}
	if accepted != nil {
		for _, code := range accepted() {
			if len(code) >= 6 && strings.Contains(txt, code) {
				c.R.Violate("C13|"+op+"|error-leaks-expected-code|", op+": error text contains a code that would have been accepted", kind, k, "error text without the expected code", fmt.Sprintf("%s (contains %s)", txt, code))
				return
			}
		}
	}
}

// set by c13_wasm.go when the js/wasm sources are compiled natively through the overlay
var (
	wasmValidate func(code string, secret []byte, counter uint64, digits, algo uint8) (bool, error)
	wasmDerive   func(secret []byte, counter uint64, digits int, algo uint8) (string, error)
)

type wasmVCase struct {
	KeyHex    string `json:"key_hex"`
	Counter   uint64 `json:"counter"`
	Digits    uint8  `json:"digits"`
	Algo      uint8  `json:"algo"`
	Submitted string `json:"submitted_hex"`
	Note      string `json:"note"`
}

func judgeWasmV(c *Ctx, k wasmVCase) {
	if wasmValidate == nil {
		return
	}
	key := unhex(k.KeyHex)
	sub := string(unhex(k.Submitted))
	var ok bool
	var err error
	pan := monCatch(func() { ok, err = wasmValidate(sub, key, k.Counter, k.Digits, k.Algo) })
	c.R.Eval(1)
	if pan != nil {
		return
	}
	c.R.Count("ValidateOTPWasm_pairs_judged(native overlay build)", 1)
	pairRule(c, "ValidateOTPWasm", ok, err, "wasmv", k)
	leakCheck(c, "ValidateOTPWasm", err, ref.Base32Encode(key), key, func() []string {
		if k.Digits >= 6 && k.Digits <= 10 && ref.HashSupported(int(k.Algo)) {
			return []string{ref.HOTP(key, k.Counter, int(k.Digits), int(k.Algo))}
		}
		return nil
	}, "wasmv", k)
	// the verdict itself (C20 decides the binding; here only supported parameters, as a cross-check of the pair)
	if k.Digits >= 1 && k.Digits <= 10 && ref.HashSupported(int(k.Algo)) {
		if want := sub == ref.HOTP(key, k.Counter, int(k.Digits), int(k.Algo)); ok != want {
			c.R.Violate("C13|ValidateOTPWasm|verdict|", "ValidateOTPWasm's verdict differs from equality with the RFC 4226 code", "wasmv", k, fmt.Sprint(want), fmt.Sprintf("(%v, %v)", ok, err))
		}
	}
}

// exportedStrings collects exported string and []byte fields reachable from an error value (depth-limited).
func exportedStrings(v reflect.Value, depth int) []string {
	if depth > 4 || !v.IsValid() {
		return nil
	}
	switch v.Kind() {
	case reflect.Interface, reflect.Pointer:
		if v.IsNil() {
			return nil
		}
		return exportedStrings(v.Elem(), depth+1)
	case reflect.Struct:
		var out []string
		for i := 0; i < v.NumField(); i++ {
			if !v.Type().Field(i).IsExported() {
				continue
			}
			out = append(out, exportedStrings(v.Field(i), depth+1)...)
		}
		return out
	case reflect.String:
		return []string{v.String()}
	case reflect.Slice:
		if v.Type().Elem().Kind() == reflect.Uint8 {
			return []string{string(v.Bytes()), hexs(v.Bytes())}
		}
	}
	return nil
}

type genFailCase struct {
	Op     string `json:"op"`
	KeyHex string `json:"key_hex"`
	Secret string `json:"secret"`
	Digits uint8  `json:"digits"`
	Algo   uint8  `json:"algo"`
	URL    string `json:"url,omitempty"`
}

func judgeGenFail(c *Ctx, k genFailCase) {
	key := unhex(k.KeyHex)
	var err error
	pan := monCatch(func() {
		switch k.Op {
		case "GenerateHOTP":
			_, err = otp.GenerateHOTP(k.Secret, 5, &otp.Param{Digits: otp.Digits(k.Digits), Algorithm: otp.Algorithm(k.Algo)})
		case "GenerateTOTP":
			_, err = otp.GenerateTOTP(k.Secret, time.Unix(1700000000, 0), &otp.Param{Digits: otp.Digits(k.Digits), Algorithm: otp.Algorithm(k.Algo), Period: 30})
		case "GenerateOCRA":
			_, err = otp.GenerateOCRA(k.Secret, otp.SuiteConfig{Raw: "r", Hash: otp.Algorithm(k.Algo), Digits: int(k.Digits), IncludeCounter: true}, otp.OCRAInput{Counter: make([]byte, 7)})
		case "DecodeSecret":
			_, err = otp.DecodeSecret(k.Secret)
		case "ParseOTPAuthURL":
			u, e := url.Parse(k.URL)
			if e != nil {
				return
			}
			_, err = otp.ParseOTPAuthURL(u)
		case "GenerateTOTPURL":
			_, err = otp.GenerateTOTPURL(otp.URLParam{Issuer: "", AccountName: "a", Secret: k.Secret})
		case "GenerateHOTPURL":
			_, err = otp.GenerateHOTPURL(otp.URLParam{Issuer: "i", AccountName: "", Secret: k.Secret})
		}
	})
	c.R.Eval(1)
	if pan != nil {
		return // C10's business
	}
	if err != nil {
		c.R.Count("failing_calls_of_other_operations", 1)
	}
	leakCheck(c, k.Op, err, k.Secret, key, nil, "genfail", k)
}

func init() {
	register(&Prop{
		ID: "C13",
		Rule: "every (ok, err) pair of ValidateHOTP / ValidateTOTP / ValidateOCRA over reduced C03, C04 and C06 workloads (accepting and rejecting cases; failure causes wrong code, wrong length, undecodable secret, unsupported hash/digits, refused skew, unusable suite, inadmissible input) must be (true,nil) or (false,error), also along histories in which one secret and one submitted code are validated while the counter / instant walks across the window and back (observed.same_code_walk_calls); every error text (all Unwrap levels) of those and of failing Generate*/DecodeSecret/ParseOTPAuthURL/Generate*URL calls is scanned for the secret (as supplied, canonical, lower-case, raw bytes, hex; keys >= 10 bytes) and for any code of the acceptance window (>= 6 digits); " +
			"distinct_nontrivial counts distinct validation cases whose (ok, err) pair was judged plus distinct error texts scanned",
		Run: func(c *Ctx) {
			// reduced versions of the C03 / C04 / C06 workloads (every 4th case)
			n3, n4, n6 := 0, 0, 0
			bh := newBatcher(c, judgeVHOTP, 0)
			c03Cases(c, func(k vhotpCase) {
				if n3++; n3%4 == 0 {
					bh.add(k)
				}
			})
			bh.flush()
			bt := newBatcher(c, judgeVTOTP, 0)
			c04Cases(c, func(k vtotpCase) {
				if n4++; n4%4 == 0 {
					bt.add(k)
				}
			})
			for _, k := range refusedSkewCases(c, []uint64{11, 100, 10000}) {
				bt.add(k)
			}
			bt.flush()
			// one code while the counter / instant walks across the window that contains it (the verdict flips twice)
			c03SameCodeWalk(c)
			c04SameCodeWalk(c)
			bo := newBatcher(c, judgeOCRAV, 0)
			c06Cases(c, func(k ocraVCase) {
				if n6++; n6%4 == 0 {
					bo.add(k)
				}
			})
			bo.flush()
			// explicit failure-cause sweep for HOTP/TOTP validation
			rng := c.RNG.Fork(13)
			var fh []vhotpCase
			var ft []vtotpCase
			for i := 0; i < c.N(3000, 50000); i++ {
				key := rng.Bytes(10 + rng.Intn(40))
				enc := ref.Base32EncodeNoPad(key)
				d := 6 + rng.Intn(5)
				good := ref.HOTP(key, 9, d, 0)
				causes := []struct {
					secret string
					sub    string
					d, a   int
					skew   uint64
					note   string
				}{
					{enc, good, d, 0, 1, "accepting"},
					{enc, ref.HOTP(key, 500, d, 0), d, 0, 1, "wrong code"},
					{enc, good[:d-1], d, 0, 1, "wrong length"},
					{enc[:len(enc)-1] + "!", good, d, 0, 1, "undecodable secret"},
					{enc + "=A", good, d, 0, 1, "undecodable secret"},
					{enc, good, d, 3 + rng.Intn(250), 1, "unsupported hash"},
					{enc, good, 11 + rng.Intn(200), 0, 1, "unsupported digits"},
					{enc, "", 0, 0, 1, "unsupported digits 0"},
					{enc, good, d, 0, 11 + uint64(rng.Intn(100)), "refused skew"},
				}
				for _, cs := range causes {
					fh = append(fh, vhotpCase{KeyHex: hexs(key), Secret: cs.secret, Counter: 9, Skew: cs.skew, Digits: uint8(cs.d), Algo: uint8(cs.a), Submitted: []string{hexs([]byte(cs.sub))}, Notes: []string{cs.note}})
					tsub := cs.sub
					if cs.note == "accepting" {
						tsub = ref.TOTP(key, 1700000000, 30, d, 0)
					}
					ft = append(ft, vtotpCase{KeyHex: hexs(key), Secret: cs.secret, At: gen.InstantSpec{Unix: 1700000000}, Period: 30, Skew: cs.skew, Digits: uint8(cs.d), Algo: uint8(cs.a), Submitted: []string{hexs([]byte(tsub))}, Notes: []string{cs.note}})
				}
			}
			parallelJudge(c, fh, judgeVHOTP)
			parallelJudge(c, ft, judgeVTOTP)
			// failing calls of the other operations
			var gf []genFailCase
			for i := 0; i < c.N(3000, 50000); i++ {
				key := rng.Bytes(10 + rng.Intn(40))
				enc := ref.Base32EncodeNoPad(key)
				badSecret := enc[:3] + "1" + enc[4:]
				// undecodable secret texts that contain the true secret intact (an error that echoes its input leaks it)
				embed := []string{enc + "!", "secret=" + enc, "otpauth://totp/100%:acc?secret=" + enc + "&digits=6", "otpauth://totp/I:a?secret=" + enc + "\x7f", enc + " " + enc, "\x7f" + enc, enc + "%", "key:" + enc, enc + "=" + enc, "[" + enc + "]"}
				for _, op := range []string{"GenerateHOTP", "GenerateTOTP", "GenerateOCRA", "DecodeSecret"} {
					gf = append(gf, genFailCase{Op: op, KeyHex: hexs(key), Secret: embed[(i+len(op))%len(embed)], Digits: 6, Algo: 0})
					gf = append(gf, genFailCase{Op: op, KeyHex: hexs(key), Secret: badSecret, Digits: 6, Algo: 0})
					gf = append(gf, genFailCase{Op: op, KeyHex: hexs(key), Secret: enc, Digits: uint8(rng.Intn(256)), Algo: uint8(rng.Intn(256))})
				}
				gf = append(gf, genFailCase{Op: "GenerateTOTPURL", KeyHex: hexs(key), Secret: enc}, genFailCase{Op: "GenerateHOTPURL", KeyHex: hexs(key), Secret: enc})
				for _, q := range []string{"digits=x", "period=-1", "algorithm=MD5", "digits=999", "digits=%zz", "%zz=1", "digits=6;period=30", "period=%", "amp;digits=8", "digits=8&x=%gg", "algorithm=%41%4", "digits=99999999999999999999", "period=1e3"} {
					gf = append(gf, genFailCase{Op: "ParseOTPAuthURL", KeyHex: hexs(key), Secret: enc, URL: "otpauth://totp/I:a?secret=" + enc + "&" + q})
				}
				gf = append(gf, genFailCase{Op: "ParseOTPAuthURL", KeyHex: hexs(key), Secret: enc, URL: "otpauth://user:" + enc + "@totp/I:a?secret=" + enc + "&digits=%zz"},
					genFailCase{Op: "ParseOTPAuthURL", KeyHex: hexs(key), Secret: enc, URL: "otpauth://totp/I:" + enc + "?secret=" + enc + "&digits=x"},
					genFailCase{Op: "ParseOTPAuthURL", KeyHex: hexs(key), Secret: enc, URL: "otpauth://totp/nolabel-" + enc + "?secret=" + enc},
					genFailCase{Op: "ParseOTPAuthURL", KeyHex: hexs(key), Secret: enc, URL: "otpauth://totp/I:a?secret=" + enc + "#" + enc + "&digits=x"})
				gf = append(gf, genFailCase{Op: "ParseOTPAuthURL", KeyHex: hexs(key), Secret: enc, URL: "otpauth://xotp/I:a?secret=" + enc}, genFailCase{Op: "ParseOTPAuthURL", KeyHex: hexs(key), Secret: enc, URL: "otpauth://totp/nolabel?secret=" + enc}, genFailCase{Op: "ParseOTPAuthURL", KeyHex: hexs(key), Secret: enc, URL: "https://totp/I:a?secret=" + enc})
				// one URL per key from the cross product label x type x query oddity x secret position: whatever the
				// parser objects to (or not), its error must not carry the secret the URL holds
				{
					labels := []string{"I:a", "I:" + enc, enc + ":a", "nolabel", "", ":a", "I:", "I%3Aa", "I:a:b", "I: a", "J:a", "i:a"}
					types := []string{"totp", "hotp", "totp", "xotp", "", "TOTP"}
					extras := []string{"", "issuer=Other", "issuer=", "issuer=I&issuer=J", "issuer=I", "issuer=J%3A", "issuer=" + enc, "counter=x", "counter=-1", "counter=99999999999999999999", "counter=1",
						"algorithm=", "algorithm=sha1", "algorithm=SHA3", "digits=", "period=", "digits=0", "period=0", "digits=6&digits=x", "digits=11", "period=4294967296", "image=x", "secret=", "secret=" + enc + "!", "secret=" + badSecret}
					for rep := 0; rep < 3; rep++ {
						l, ty, ex := gen.Pick(rng, labels), gen.Pick(rng, types), gen.Pick(rng, extras)
						ex2 := gen.Pick(rng, extras)
						var q string
						switch rng.Intn(3) {
						case 0:
							q = "secret=" + enc + "&" + ex + "&" + ex2
						case 1:
							q = ex + "&" + ex2 + "&secret=" + enc
						default:
							q = ex + "&secret=" + enc + "&" + ex2
						}
						gf = append(gf, genFailCase{Op: "ParseOTPAuthURL", KeyHex: hexs(key), Secret: enc, URL: "otpauth://" + ty + "/" + l + "?" + q})
					}
				}
			}
			parallelJudge(c, gf, judgeGenFail)
			// the js/wasm validator, compiled natively through the overlay
			if wasmValidate == nil {
				c.R.Inconclusive("ValidateOTPWasm (bool, error) pairs: the js/wasm sources could not be compiled natively in this run (C20 still checks the binding's verdicts under Node)")
			} else {
				var ws []wasmVCase
				for i := 0; i < c.N(20000, 500000); i++ {
					key := rng.Bytes(10 + rng.Intn(40))
					d, a := []int{6, 8, 9, 10}[rng.Intn(4)], rng.Intn(3)
					ctr := gen.Counter(rng)
					good := ref.HOTP(key, ctr, d, a)
					subs := []struct{ s, note string }{{good, "accepting"}, {ref.HOTP(key, ctr+1, d, a), "wrong code"}, {good[:d-1], "wrong length"}, {"", "empty"}}
					x := subs[i%len(subs)]
					dd, aa := d, a
					switch i % 11 {
					case 9:
						aa = 3 + rng.Intn(250)
						x.note = "unsupported hash"
					case 10:
						dd = gen.Pick(rng, []int{0, 1, 5, 7, 11, 200})
						x.note = "other digit count"
						if dd >= 1 && dd <= 10 {
							x.s = ref.HOTP(key, ctr, dd, a)
						}
					}
					ws = append(ws, wasmVCase{KeyHex: hexs(key), Counter: ctr, Digits: uint8(dd), Algo: uint8(aa), Submitted: hexs([]byte(x.s)), Note: x.note})
				}
				parallelJudge(c, ws, judgeWasmV)
			}
		},
		Replay: func(c *Ctx, kind string, raw json.RawMessage) error {
			switch kind {
			case "vhotp":
				return replayAs(raw, func(k vhotpCase) { judgeVHOTP(c, k) })
			case "vtotp":
				return replayAs(raw, func(k vtotpCase) { judgeVTOTP(c, k) })
			case "ocrav":
				return replayAs(raw, func(k ocraVCase) { judgeOCRAV(c, k) })
			case "genfail":
				return replayAs(raw, func(k genFailCase) { judgeGenFail(c, k) })
			case "wasmv":
				return replayAs(raw, func(k wasmVCase) { judgeWasmV(c, k) })
			}
			return fmt.Errorf("unknown kind %q", kind)
		},
	})
}
