package props

import (
	"errors"
	"fmt"
	"strings"

	"verifh/ref"
)

// leakCheck is C13's disclosure clause: an error text (and every Unwrap level)
// must contain neither the secret (any spelling used, raw bytes, hex) nor a code
// that would have been accepted. Only for keys >= 10 bytes and codes >= 6 digits,
// so that a short number inside a message cannot coincide.
func leakCheck(c *Ctx, op string, err error, secretText string, key []byte, accepted func() []string, kind string, k any) {
	if err == nil {
		return
	}
	var texts []string
	for e := err; e != nil; e = errors.Unwrap(e) {
		texts = append(texts, e.Error())
	}
	txt := strings.Join(texts, "\n")
	c.R.Count("error_texts_scanned", 1)
	c.R.Nontrivial("errtext|" + op + "|" + txt)
	if len(key) >= 10 {
		enc := ref.Base32Encode(key)
		needles := map[string]string{
			"secret as supplied":        strings.TrimSpace(secretText),
			"secret (canonical base32)": enc,
			"secret (unpadded base32)":  strings.TrimRight(enc, "="),
			"secret (lower-case)":       strings.ToLower(strings.TrimRight(enc, "=")),
			"raw key bytes":             string(key),
			"key in hex":                hexs(key),
			"key in upper-case hex":     strings.ToUpper(hexs(key)),
		}
		for what, n := range needles {
			if len(n) >= 10 && strings.Contains(txt, n) {
				c.R.Violate("C13|"+op+"|error-leaks-secret|", op+": error text contains the "+what, kind, k, "error text without the secret", txt)
				return
			}
		}
	}
	if accepted != nil {
		for _, code := range accepted() {
			if len(code) >= 6 && strings.Contains(txt, code) {
				c.R.Violate("C13|"+op+"|error-leaks-expected-code|", op+": error text contains a code that would have been accepted", kind, k, "error text without the expected code", fmt.Sprintf("%s (contains %s)", txt, code))
				return
			}
		}
	}
}
