package props

import (
	"encoding/json"
	"fmt"
	"math/big"
	"sort"
	"strings"

	"github.com/ja7ad/otp"

	"verifh/gen"
	"verifh/hooks"
	"verifh/ref"
)

// ---- C15: a suite's configuration means what its name says ----

type nameCase struct {
	Name  string `json:"name"`
	Class string `json:"class"` // "registered" | "grammar" | "malformed:<kind>"
}

// sameMeaning compares a library configuration with what the name says. Metadata
// of fields that are not selected is not compared (it has no effect).
func sameMeaning(cfg ref.Suite, m ref.Suite) string {
	var d []string
	if cfg.Hash != m.Hash {
		d = append(d, fmt.Sprintf("hash %d, name says %d", cfg.Hash, m.Hash))
	}
	if cfg.Digits != m.Digits {
		d = append(d, fmt.Sprintf("digits %d, name says %d", cfg.Digits, m.Digits))
	}
	for i, p := range [][2]bool{{cfg.C, m.C}, {cfg.Q, m.Q}, {cfg.P, m.P}, {cfg.S, m.S}, {cfg.T, m.T}} {
		if p[0] != p[1] {
			d = append(d, fmt.Sprintf("include-%c %v, name says %v", "CQPST"[i], p[0], p[1]))
		}
	}
	if m.Q && cfg.Q && cfg.Challenge != m.Challenge {
		d = append(d, fmt.Sprintf("challenge format %d, name says %d", cfg.Challenge, m.Challenge))
	}
	if m.P && cfg.P && cfg.PasswordHash != m.PasswordHash {
		d = append(d, fmt.Sprintf("password hash %d, name says %d", cfg.PasswordHash, m.PasswordHash))
	}
	if m.T && cfg.T && cfg.TimeStep != m.TimeStep {
		d = append(d, fmt.Sprintf("time step %d s, name says %d s", cfg.TimeStep, m.TimeStep))
	}
	return strings.Join(d, "; ")
}

func judgeName(c *Ctx, k nameCase) {
	r := c.R
	var s otp.Suite
	var err error
	pan := monCatch(func() { s, err = otp.NewRawSuite(k.Name) })
	r.Eval(1)
	if pan != nil {
		r.Violate("C15|NewRawSuite|panic|", "NewRawSuite panics", "name", k, "a suite or an error", panicStr(pan))
		return
	}
	// the other constructor for suite strings: MustRawSuite must agree with NewRawSuite on every string - the same
	// configuration and the same reported name where NewRawSuite succeeds, a panic (its documented refusal) where it fails
	{
		var ms otp.Suite
		mpan := monCatch(func() { ms = otp.MustRawSuite(k.Name) })
		r.Eval(1)
		switch {
		case err != nil && mpan == nil:
			r.Violate("C15|MustRawSuite|accepts-what-NewRawSuite-rejects|", "MustRawSuite returns a suite for a string NewRawSuite rejects", "name", k, "a panic (documented refusal)", fmt.Sprintf("%+v", ms))
		case err == nil && mpan != nil:
			r.Violate("C15|MustRawSuite|rejects-what-NewRawSuite-accepts|", "MustRawSuite panics for a string NewRawSuite accepts", "name", k, "a suite", panicStr(mpan))
		case err == nil && s != nil && ms != nil:
			var c1, c2 otp.SuiteConfig
			var n2 string
			if monCatch(func() { c1, c2, n2 = s.Config(), ms.Config(), ms.String() }) == nil && (c1 != c2 || n2 != k.Name) {
				r.Violate("C15|MustRawSuite|differs-from-NewRawSuite|", "MustRawSuite and NewRawSuite disagree on the configuration or the reported name of a suite string", "name", k, fmt.Sprintf("%+v named %q", c1, k.Name), fmt.Sprintf("%+v named %q", c2, n2))
			}
		}
	}
	switch {
	case k.Class == "registered":
		r.Nontrivial("r|" + k.Name)
		m, ok := ref.ParseSuiteName(k.Name)
		if !ok {
			r.Violate("C15|registry|name-not-well-formed|"+k.Name, "an advertised suite name is not a well-formed RFC 6287 suite string", "name", k, "well-formed name", k.Name)
			return
		}
		if err != nil {
			r.Violate("C15|NewRawSuite|advertised-name-not-instantiable|"+k.Name, "an advertised suite name cannot be instantiated", "name", k, "a suite", "error: "+err.Error())
			return
		}
		var cfg, cfg2 otp.SuiteConfig
		var str string
		var known bool
		if p := monCatch(func() {
			cfg = s.Config()
			str = s.String()
			known = otp.IsKnownSuite(k.Name)
			cfg2 = otp.SuiteConfigFromRaws(k.Name)
		}); p != nil {
			r.Violate("C15|registry|panic|", "a registry accessor panics", "name", k, "values", panicStr(p))
			return
		}
		if d := sameMeaning(fromCfg(cfg), m); d != "" {
			r.Violate("C15|NewRawSuite|registered-config-differs|"+k.Name, "the configuration of an advertised suite does not mean what its name says", "name", k, fmt.Sprintf("%+v", m), d)
		}
		if d := sameMeaning(fromCfg(cfg2), m); d != "" {
			r.Violate("C15|SuiteConfigFromRaws|registered-config-differs|"+k.Name, "lookup by name returns a configuration that does not mean what the name says", "name", k, fmt.Sprintf("%+v", m), d)
		}
		if str != k.Name || cfg.Raw != k.Name {
			r.Violate("C15|NewRawSuite|name-not-reported|", "a suite instantiated from a string does not report that string as its name", "name", k, k.Name, fmt.Sprintf("String()=%q Config().Raw=%q", str, cfg.Raw))
		}
		// lookup by name must agree with instantiation by name: the suite it returns is the suite of that name, so it
		// carries the name (a nameless copy derives other codes than the suite of the same name)
		if cfg2.Raw != k.Name || cfg2.String() != k.Name {
			r.Violate("C15|SuiteConfigFromRaws|name-not-reported|", "lookup by name returns the suite without its name, so it disagrees with instantiation by name (and derives other codes)", "name", k, k.Name, fmt.Sprintf("Raw=%q String()=%q", cfg2.Raw, cfg2.String()))
		}
		if !known {
			r.Violate("C15|IsKnownSuite|disagrees-with-list|", "an advertised name is not known to the known-suite test", "name", k, "true", "false")
		}
		if verr := s.Validate(); verr != nil {
			r.Violate("C15|registry|advertised-suite-invalid|"+k.Name, "an advertised suite does not validate", "name", k, "nil", verr.Error())
		}
	case k.Class == "grammar":
		m, ok := ref.ParseSuiteName(k.Name)
		if !ok {
			return // generator bug guard
		}
		if err != nil {
			r.Count("grammar_strings_rejected", 1)
			return // rejection of an unregistered string is always permitted
		}
		r.Count("grammar_strings_accepted", 1)
		r.Nontrivial("g|" + k.Name)
		cfg := s.Config()
		if d := sameMeaning(fromCfg(cfg), m); d != "" {
			cls := "other"
			switch {
			case strings.Contains(d, "time step"):
				cls = "time-step"
			case strings.Contains(d, "challenge format"):
				cls = "challenge-format"
			case strings.Contains(d, "password hash"):
				cls = "password-hash"
			case strings.Contains(d, "digits"):
				cls = "digits"
			case strings.Contains(d, "hash"):
				cls = "hash"
			case strings.Contains(d, "include-"):
				cls = "field-selection"
			}
			r.Violate("C15|NewRawSuite|parsed-config-differs|"+cls, "the parser accepts a suite string but the configuration does not mean what the string says ("+cls+")", "name", k, fmt.Sprintf("%+v", m), d)
		}
		if s.String() != k.Name || cfg.Raw != k.Name {
			r.Violate("C15|NewRawSuite|name-not-reported|", "a suite instantiated from a string does not report that string as its name", "name", k, k.Name, fmt.Sprintf("String()=%q Config().Raw=%q", s.String(), cfg.Raw))
		}
		if r.WantSample() {
			r.Sample(map[string]any{"name": k.Name, "accepted": true, "config": cfg})
		}
	case k.Class == "case-variant":
		m, ok := ref.ParseSuiteNameFold(k.Name)
		if !ok {
			return
		}
		if err != nil {
			r.Count("case_variant_strings_rejected", 1)
			return
		}
		r.Count("case_variant_strings_accepted", 1)
		r.Nontrivial("cv|" + k.Name)
		cfg := s.Config()
		if d := sameMeaning(fromCfg(cfg), m); d != "" {
			r.Violate("C15|NewRawSuite|parsed-config-differs|case-variant", "the parser accepts a case variant of a suite string but the configuration does not mean what the string says", "name", k, fmt.Sprintf("%+v", m), d)
		}
		if s.String() != k.Name || cfg.Raw != k.Name {
			r.Violate("C15|NewRawSuite|name-not-reported|case-variant", "a suite instantiated from a string does not report that string as its name (it reports another spelling)", "name", k, k.Name, fmt.Sprintf("String()=%q Config().Raw=%q", s.String(), cfg.Raw))
		}
	case strings.HasPrefix(k.Class, "number:"):
		// a numeric field written with many digits: reject, or represent exactly — never a wrapped value
		f := strings.Split(k.Class, ":")
		want, _ := new(big.Int).SetString(f[2], 10)
		r.Nontrivial("n|" + k.Name)
		if err != nil {
			r.Count("large_number_strings_rejected", 1)
			return
		}
		cfg := s.Config()
		var got *big.Int
		if f[1] == "digits" {
			got = big.NewInt(int64(cfg.Digits))
		} else {
			got = big.NewInt(int64(cfg.TimeStep))
			want = new(big.Int).Mul(want, big.NewInt(map[string]int64{"S": 1, "M": 60, "H": 3600}[f[3]]))
		}
		if got.Cmp(want) != 0 {
			r.Violate("C15|NewRawSuite|number-wrapped|"+f[1], "the parser accepts a suite string whose "+f[1]+" number it cannot represent and approximates it (wrapped value)", "name", k, "rejection, or exactly "+want.String(), fmt.Sprintf("accepted with %s = %s (config %+v)", f[1], got, cfg))
		}
		if s.String() != k.Name {
			r.Violate("C15|NewRawSuite|name-not-reported|", "a suite instantiated from a string does not report that string as its name", "name", k, k.Name, s.String())
		}
	default: // malformed
		r.Nontrivial("m|" + k.Name)
		if err == nil {
			r.Violate("C15|NewRawSuite|accepted-malformed|"+k.Class, "the parser accepts a malformed suite string ("+strings.TrimPrefix(k.Class, "malformed:")+") instead of rejecting it", "name", k, "an error", fmt.Sprintf("accepted as %+v", s.Config()))
		}
		if r.WantSample() {
			r.Sample(map[string]any{"name": k.Name, "class": k.Class, "err": fmt.Sprint(err)})
		}
	}
}

func grammarStrings(stride int, emit func(string)) (total int) {
	type tval struct{ s string }
	var times []string
	times = append(times, "")
	for n := 1; n <= 59; n++ {
		times = append(times, fmt.Sprintf("-T%dS", n))
	}
	for n := 1; n <= 59; n++ {
		times = append(times, fmt.Sprintf("-T%dM", n))
	}
	for n := 1; n <= 48; n++ {
		times = append(times, fmt.Sprintf("-T%dH", n))
	}
	boundary := map[string]bool{"": true, "-T1S": true, "-T59S": true, "-T1M": true, "-T59M": true, "-T1H": true, "-T48H": true, "-T30S": true, "-T2M": true}
	i := 0
	for _, h := range []string{"SHA1", "SHA256", "SHA512"} {
		for d := 0; d <= 11; d++ {
			for _, cpre := range []string{"", "C-"} {
				for _, q := range []string{"QN08", "QN10", "QA08", "QA10", "QH08", "QH10"} {
					for _, p := range []string{"", "-PSHA1", "-PSHA256", "-PSHA512"} {
						for _, s := range []string{"", "-S", "-S064", "-S128", "-S512"} {
							for _, t := range times {
								i++
								total++
								if stride > 1 && i%stride != 0 && !(boundary[t] && i%3 == 0) {
									continue
								}
								emit(fmt.Sprintf("OCRA-1:HOTP-%s-%d:%s%s%s%s%s", h, d, cpre, q, p, s, t))
							}
						}
					}
				}
			}
		}
	}
	return
}

// caseVariants: spellings of grammar strings that differ only in letter case of tokens the parser folds.
func caseVariants(rng *gen.RNG, name string, n int) []string {
	parts := strings.SplitN(name, ":", 3)
	var out []string
	for v := 0; v < n; v++ {
		b := []byte(parts[1] + ":" + parts[2])
		for i := range b {
			// keep the unit letter of a time token (last letter of the string after "-T<n>") upper case
			if b[i] >= 'A' && b[i] <= 'Z' && rng.Bool() && !(i == len(b)-1 && strings.Contains(parts[2], "-T")) {
				b[i] += 32
			}
		}
		out = append(out, parts[0]+":"+string(b))
	}
	return out
}

// largeNumberStrings: numeric fields written with many digits (2^32+k, 2^63±, 2^64+k, 10^19 …).
func largeNumberStrings(emit func(name, class string)) {
	nums := []string{"262", "266", "518", "65542", "65546", "4294967302", "4294967326", "9223372036854775807", "9223372036854775808", "9223372036854775814", "18446744073709551615", "18446744073709551616",
		"18446744073709551622", "18446744073709551646", "36893488147419103238", "99999999999999999999", "340282366920938463463374607431768211462", "00000000000000000006", "0000000000000000000000030"}
	// numbers that fit the machine word themselves but whose product with the unit (60, 3600) does not, chosen so that
	// the wrapped product is a small positive value: ceil(k*2^w / unit) for w = 31, 32, 63, 64
	for _, w := range []uint{31, 32, 63, 64} {
		for k := int64(1); k <= 3; k++ {
			for _, unit := range []int64{60, 3600} {
				n := new(big.Int).Lsh(big.NewInt(k), w)
				n.Div(n, big.NewInt(unit))
				n.Add(n, big.NewInt(1))
				nums = append(nums, n.String())
			}
		}
	}
	for _, n := range nums {
		emit("OCRA-1:HOTP-SHA1-"+n+":QN08", "number:digits:"+n)
		emit("OCRA-1:HOTP-SHA256-"+n+":C-QN10-PSHA1", "number:digits:"+n)
		for _, u := range []string{"S", "M", "H"} {
			emit("OCRA-1:HOTP-SHA1-6:QN08-T"+n+u, "number:time:"+n+":"+u)
		}
	}
}

// bitFlipStrings: every single-bit flip of every character of some good strings. A flip that only changes the
// letter case of a token letter is a case variant (judged by the folding reference); every other flip yields a
// string that says something the parser must not approximate (look-alike control bytes, neighbouring characters).
func bitFlipStrings(emit func(name, class string)) {
	for _, g := range []string{"OCRA-1:HOTP-SHA1-6:QN08", "OCRA-1:HOTP-SHA256-8:C-QA10-PSHA256-S064-T30S", "OCRA-1:HOTP-SHA512-10:QH10-PSHA1-T2H"} {
		b := []byte(g)
		for i := range b {
			for bit := uint(0); bit < 8; bit++ {
				x := append([]byte{}, b...)
				x[i] ^= 1 << bit
				sname := string(x)
				if _, ok := ref.ParseSuiteNameFold(sname); ok {
					emit(sname, "case-variant")
					continue
				}
				// token order and repetition are not judged (the property does not speak about them): a flip that
				// only produces another arrangement of valid tokens is skipped
				if parts := strings.Split(sname, ":"); len(parts) == 3 && parts[0] == "OCRA-1" && strings.EqualFold(parts[1], strings.Split(g, ":")[1]) && ref.ValidDataTokens(parts[2]) {
					continue
				}
				emit(sname, "malformed:bit-flip")
			}
		}
	}
}

// unicodeFoldStrings: good strings with one ASCII letter replaced by a non-ASCII letter that Unicode case mapping or
// folding sends onto it (U+017F long s -> S, U+212A Kelvin sign -> K, U+0131 dotless i / U+0130 -> I), or by its
// full-width form. None of them is the RFC token; accepting them approximates.
func unicodeFoldStrings(emit func(name, kind string)) {
	repl := map[byte][]string{'S': {"\u017f"}, 's': {"\u017f"}, 'K': {"\u212a"}, 'k': {"\u212a"}, 'I': {"\u0131", "\u0130"}, 'i': {"\u0131", "\u0130"}}
	for _, g := range []string{"OCRA-1:HOTP-SHA1-6:QN08", "OCRA-1:HOTP-SHA256-8:C-QA10-PSHA256-S064-T30S", "OCRA-1:HOTP-SHA512-10:QH10-PSHA1-S-T2H", "ocra-1:hotp-sha1-6:qn08-psha1-s-t1s"} {
		for i := 0; i < len(g); i++ {
			for _, r := range repl[g[i]] {
				emit(g[:i]+r+g[i+1:], "malformed:unicode-fold")
			}
			if c := g[i]; c >= 'A' && c <= 'Z' || c >= 'a' && c <= 'z' || c >= '0' && c <= '9' {
				emit(g[:i]+string(rune(0xFF00+int(c)-0x20))+g[i+1:], "malformed:full-width")
			}
		}
	}
}

// repeatedTokenStrings: a data input written twice with two different values (QN08-QA10, PSHA1-PSHA256, T1M-T2M,
// S064-S128) or simply twice (C-C): no configuration denotes both, so the string cannot be represented faithfully.
// (The order of otherwise valid, distinct tokens is not judged.)
func repeatedTokenStrings(emit func(name, kind string)) {
	for _, base := range []string{"OCRA-1:HOTP-SHA1-6:", "OCRA-1:HOTP-SHA256-8:C-", "OCRA-1:HOTP-SHA512-10:"} {
		for _, d := range []string{"QN08-QA10", "QA10-QN08", "QN08-QN10", "QH08-QH08", "QN08-PSHA1-PSHA256", "QN08-PSHA512-PSHA1", "QN08-T1M-T2M", "QN08-T30S-T1H", "QN08-S064-S128", "QN08-S-S", "QN08-S-S064",
			"C-C-QN08", "C-QN08-C", "QN08-PSHA1-QA10", "QN08-T1M-QH10", "QN08-PSHA1-S-T1M-PSHA256", "qn08-QA10", "QN08-psha1-PSHA256", "QN08-T1M-S-T5M"} {
			if strings.HasSuffix(base, "C-") && strings.HasPrefix(d, "C-") {
				continue
			}
			emit(base+d, "malformed:repeated-token")
		}
	}
}

// signedNumberStrings: a numeric field of the name written with a sign. The RFC 6287 naming scheme writes plain decimal
// numbers; "+6" is not one of its spellings even though a lenient integer parser reads it as 6.
func signedNumberStrings(emit func(name, kind string)) {
	for _, n := range []string{"OCRA-1:HOTP-SHA1-+6:QN08", "OCRA-1:HOTP-SHA256-+8:C-QN10-PSHA1", "OCRA-1:HOTP-SHA512-+10:QH10", "OCRA-1:HOTP-SHA1-6:QN08-T+1M", "OCRA-1:HOTP-SHA1-6:QN08-T+30S",
		"OCRA-1:HOTP-SHA1-6:C-QA08-PSHA256-S064-T+2H", "OCRA-1:HOTP-SHA1-+06:QN08", "OCRA-1:HOTP-SHA1-6:QN08-T+01M"} {
		emit(n, "malformed:signed-number")
	}
}

func malformedStrings(emit func(name, kind string)) {
	good := []string{"OCRA-1:HOTP-SHA1-6:QN08", "OCRA-1:HOTP-SHA256-8:C-QN10-PSHA1", "OCRA-1:HOTP-SHA512-8:QN08-T1M", "OCRA-1:HOTP-SHA1-6:C-QN08-PSHA1-S-T1"}
	for _, g := range good {
		parts := strings.SplitN(g, ":", 3)
		// wrong version
		for _, v := range []string{"OCRA-2", "OCRA-10", "OCRA-11", "OCRA-1x", "OCRA-1.1", "OCRA-12345", "OCRA-1 ", "OCRA-0", "OCRA-", "OCRA", "OCRA-3", "XOCRA-1", "OCRA-1-1"} {
			emit(v+":"+parts[1]+":"+parts[2], "wrong-version")
		}
		// missing parts
		emit(parts[0]+":"+parts[1], "missing-parts")
		emit(parts[0]+":"+parts[2], "missing-parts")
		emit(parts[1]+":"+parts[2], "missing-parts")
		emit(parts[0], "missing-parts")
		emit(parts[0]+":"+parts[1]+":", "missing-parts")
		emit(parts[0]+"::"+parts[2], "missing-parts")
		emit(":"+parts[1]+":"+parts[2], "missing-parts")
		emit("", "missing-parts")
		emit("::", "missing-parts")
		emit(parts[0]+":HOTP-SHA1:"+parts[2], "missing-parts")
		emit(parts[0]+":HOTP:"+parts[2], "missing-parts")
		emit(parts[0]+":SHA1-6:"+parts[2], "missing-parts")
		// extra parts
		emit(g+":extra", "extra-part")
		emit(g+":", "extra-part")
		emit(g+":QN08", "extra-part")
		emit(parts[0]+":"+parts[1]+":"+parts[2]+":"+parts[2], "extra-part")
		// unknown tokens in the crypto function
		for _, cf := range []string{"HOTP-MD5-6", "TOTP-SHA1-6", "HOTP-SHA3-6", "HOTP-SHA1-x", "HOTP-SHA1-", "HOTP-SHA1-6-7", "HMAC-SHA1-6", "HOTP-SHA1X-6", "HOTP-SHA-6", "HOTP-SHA384-6"} {
			emit(parts[0]+":"+cf+":"+parts[2], "unknown-token")
		}
		// unknown tokens in the data input
		for _, tok := range []string{"X", "FOO", "Z9", "QX08", "QN99", "QN8", "QN", "Q", "PMD5", "PSHA", "PSHA2", "PSHA1X", "T", "TX", "T5X", "TxM", "SXYZ", "SESSION", "S12", "S1234", "SABC", "CC", "D", "N08", "08"} {
			emit(g+"-"+tok, "unknown-token")
			emit(parts[0]+":"+parts[1]+":"+tok, "unknown-token")
		}
	}
}

func init() {
	register(&Prop{
		ID: "C15",
		Rule: "registry: every advertised name (exhaustive) is instantiated and its configuration compared field by field with an independent strict parser of the name; list, known-suite test and lookup must agree; parser: every string of the grammar OCRA-1:HOTP-<3 hashes>-<0..11>:[C-]Q<N|A|H><08|10>[-PSHA<1|256|512>][-S|-S064|-S128|-S512][-T<1..59>S|<1..59>M|<1..48>H] (1 442 880 strings; thorough enumerates all, quick every 11th plus boundary time values) is either rejected or accepted with exactly the meaning of the string and String() equal to it; ~350 malformed strings (wrong version, missing/extra parts, unknown tokens), every single-bit flip of good strings, good strings with one letter replaced by its Unicode case-folding look-alike (U+017F, U+212A, U+0131/0130) or full-width form must be rejected; numeric fields written with many digits, incl. time values whose product with 60/3600 overflows 32 or 64 bits, must be rejected or represented exactly; case variants are judged by a case-folding reference and must report their own spelling; " +
			"a reduced differential against the same reference models also runs in a binary built for GOARCH=386 (32-bit int/uint; observed.evaluations_on_a_32bit_build); " +
			"distinct_nontrivial counts advertised names + accepted grammar strings + malformed strings",
		Run: func(c *Ctx) {
			r := c.R
			names := liveNames()
			sort.Strings(names)
			seen := map[string]bool{}
			for _, n := range names {
				if seen[n] {
					r.Violate("C15|ListSuites|duplicate|", "the advertised list contains a name twice", "none", n, "distinct names", n)
				}
				seen[n] = true
				judgeName(c, nameCase{Name: n, Class: "registered"})
			}
			r.Extra["advertised_names"] = len(names)
			pinned := map[string]bool{}
			for _, n := range registeredNames {
				pinned[n] = true
			}
			added, removed := 0, 0
			for _, n := range names {
				if !pinned[n] {
					added++
				}
			}
			for _, n := range registeredNames {
				if !seen[n] {
					removed++
				}
			}
			r.Extra["names_added_since_pinned_tree"] = added
			r.Extra["names_removed_since_pinned_tree"] = removed
			// registry map (hook) vs list
			if hooks.Available() {
				ks := hooks.KnownSuites()
				if len(ks) != len(names) {
					r.Violate("C15|ListSuites|disagrees-with-registry|", "the advertised list and the registry differ in size", "none", nil, fmt.Sprint(len(ks)), fmt.Sprint(len(names)))
				}
				for n := range ks {
					if !seen[n] {
						r.Violate("C15|ListSuites|disagrees-with-registry|", "a registered name is not advertised", "none", n, "listed", "not listed")
					}
				}
			} else {
				r.Inconclusive("registry map comparison: verif hooks unavailable (list/known/lookup agreement still checked through the API)")
			}
			// names that are not advertised must not be known
			var cases []nameCase
			stride := c.N(11, 1)
			total := grammarStrings(stride, func(s string) {
				if !seen[s] {
					cases = append(cases, nameCase{Name: s, Class: "grammar"})
				}
			})
			r.Extra["grammar_size"] = total
			r.Extra["grammar_enumerated_completely"] = stride == 1
			malformedStrings(func(n, kind string) {
				if !seen[n] {
					cases = append(cases, nameCase{Name: n, Class: "malformed:" + kind})
				}
			})
			largeNumberStrings(func(n, class string) { cases = append(cases, nameCase{Name: n, Class: class}) })
			unicodeFoldStrings(func(n, class string) { cases = append(cases, nameCase{Name: n, Class: class}) })
			repeatedTokenStrings(func(n, class string) { cases = append(cases, nameCase{Name: n, Class: class}) })
			signedNumberStrings(func(n, class string) { cases = append(cases, nameCase{Name: n, Class: class}) })
			runArch386(c)
			bitFlipStrings(func(n, class string) {
				if !seen[n] {
					cases = append(cases, nameCase{Name: n, Class: class})
				}
			})
			// case variants, each followed by another spelling of the same suite (history: a memo keyed by a
			// folded form would hand the first spelling's name to the second)
			rngCV := c.RNG.Fork(15)
			var history []nameCase
			cvBase := 0
			grammarStrings(c.N(997, 97), func(sname string) {
				cvBase++
				for _, v := range caseVariants(rngCV, sname, 2) {
					if !seen[v] {
						history = append(history, nameCase{Name: v, Class: "case-variant"})
					}
				}
				if !seen[sname] {
					history = append(history, nameCase{Name: sname, Class: "grammar"})
				}
			})
			// constructor history: a hand-built configuration whose Raw text is a well-formed, unregistered suite string that
			// says something else is handed to NewSuite BEFORE that string has ever been parsed; parsing the string
			// afterwards must still yield what the string says
			for i, k := range history {
				if i%3 != 0 || k.Class != "grammar" {
					continue
				}
				monCatch(func() {
					otp.NewSuite(otp.SuiteConfig{Raw: k.Name, Hash: otp.SHA512, Digits: 9, IncludeCounter: true})
					otp.NewSuite(otp.SuiteConfig{Raw: k.Name, Hash: otp.SHA1, Digits: 4, IncludeChallenge: true, Challenge: otp.ChallengeHex10, IncludeSession: true})
				})
				r.Count("constructor_history_steps", 1)
			}
			parallelJudge(c, cases, judgeName)
			// the history is judged sequentially, in order, twice
			for pass := 0; pass < 2; pass++ {
				for _, k := range history {
					judgeName(c, k)
				}
			}
			r.Extra["case_variant_history_length"] = 2 * len(history)
			// unknown names: known-suite test false, lookup returns the zero configuration
			for i, k := range cases {
				if i%53 != 0 {
					continue
				}
				var known bool
				var cfg otp.SuiteConfig
				pan := monCatch(func() { known = otp.IsKnownSuite(k.Name); cfg = otp.SuiteConfigFromRaws(k.Name) })
				r.Eval(1)
				if pan != nil || known || cfg != (otp.SuiteConfig{}) {
					r.Violate("C15|IsKnownSuite|disagrees-with-list|", "a name that is not advertised is known to the known-suite test or to lookup", "name", k, "false / zero configuration", fmt.Sprintf("known=%v cfg=%+v panic=%v", known, cfg, pan))
				}
			}
		},
		Replay: func(c *Ctx, kind string, raw json.RawMessage) error {
			if kind != "name" {
				return fmt.Errorf("kind %q has no single-case replay", kind)
			}
			return replayAs(raw, func(k nameCase) { judgeName(c, k) })
		},
	})
}
