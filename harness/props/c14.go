package props

import (
	"encoding/json"
	"fmt"
	"strings"

	"github.com/ja7ad/otp"

	"verifh/ref"
)

// ---- C14: admission <=> the suite's field requirements; usability of configurations ----

type usableCase struct {
	Suite ref.Suite `json:"suite"`
}

// validInputFor: an input meeting every requirement derivable from the configuration.
func validInputFor(s ref.Suite) ref.Input {
	in := ref.Input{Counter: make([]byte, 8), Challenge: make([]byte, 16), Session: make([]byte, 5), Timestamp: make([]byte, 8)}
	switch s.PasswordHash {
	case ref.PSHA1:
		in.Password = make([]byte, 20)
	case ref.PSHA256:
		in.Password = make([]byte, 32)
	case ref.PSHA512:
		in.Password = make([]byte, 64)
	default:
		in.Password = make([]byte, 20)
	}
	return in
}

func judgeUsable(c *Ctx, k usableCase) {
	r := c.R
	want := ref.SuiteUsable(k.Suite)
	cfg := toCfg(k.Suite)
	var verr, nerr error
	pan := monCatch(func() { verr = cfg.Validate() })
	r.Eval(1)
	r.Nontrivial("u|" + mustJSON(k.Suite))
	rule := usableRule(k.Suite)
	if pan != nil {
		r.Violate("C14|SuiteConfig.Validate|panic|", "SuiteConfig.Validate panics", "usable", k, "an error or nil", panicStr(pan))
		return
	}
	if (verr == nil) != want {
		r.Violate("C14|SuiteConfig.Validate|usability|"+rule, "SuiteConfig.Validate disagrees with the usability rule ("+rule+")", "usable", k, fmt.Sprintf("usable=%v", want), "error: "+fmt.Sprint(verr))
	}
	pan = monCatch(func() { _, nerr = otp.NewSuite(cfg) })
	r.Eval(1)
	if pan != nil || (nerr == nil) != want {
		r.Violate("C14|NewSuite|usability|"+rule, "NewSuite disagrees with the usability rule ("+rule+")", "usable", k, fmt.Sprintf("usable=%v", want), fmt.Sprintf("error: %v panic: %v", nerr, pan))
	}
	// generation / validation with an input that is valid as far as derivable
	in := validInputFor(k.Suite)
	admitted := ref.Admit(k.Suite, in)
	// every 5th configuration also as a constructed-then-edited RawSuite value: the outcome must not depend on how the value was made
	if (k.Suite.Digits+k.Suite.Hash+k.Suite.Challenge+k.Suite.TimeStep)%5 == 0 {
		via2 := viaEdited
		if (k.Suite.Digits+k.Suite.Hash)%2 == 0 {
			via2 = viaPointer
		}
		if es, eerr, epan := makeSuite(via2, k.Suite); eerr == nil && epan == nil && es != nil {
			_, e2, p2 := callGenerateOCRA("GEZDGNBVGY3TQOJQGEZDGNBVGY3TQOJQ", es, toOCRAInput(in))
			var verr2 error
			p3 := monCatch(func() { verr2 = es.Validate() })
			r.Eval(2)
			if p2 != nil || p3 != nil || (e2 == nil) != (want && admitted) || (verr2 == nil) != want {
				r.Violate("C14|"+via2+"|usability|"+rule, "a suite obtained from a constructor and then edited by the caller, or handed over by pointer and reconfigured in place, is judged differently from the same configuration built directly ("+rule+")", "usable", k, fmt.Sprintf("usable=%v", want), fmt.Sprintf("Validate err=%v, GenerateOCRA err=%v panic=%v/%v", verr2, e2, p2, p3))
			}
		}
	}
	code, gerr, gpan := callGenerateOCRA("GEZDGNBVGY3TQOJQGEZDGNBVGY3TQOJQ", cfg, toOCRAInput(in))
	r.Eval(1)
	if gpan != nil {
		r.Violate("C14|GenerateOCRA|panic|"+rule, "GenerateOCRA panics on an arbitrary configuration ("+rule+")", "usable", k, "a code or an error", panicStr(gpan))
		return
	}
	if (gerr == nil) != (want && admitted) {
		r.Violate("C14|GenerateOCRA|usability|"+rule, "GenerateOCRA success disagrees with suite usability ("+rule+")", "usable", k, fmt.Sprintf("success=%v", want && admitted), fmt.Sprintf("code=%q err=%v", code, gerr))
	}
	sub := code
	if gerr != nil {
		d := k.Suite.Digits
		if d < 0 {
			d = 0
		}
		if d > 64 {
			d = 64 // a code of the claimed length cannot be built for absurd lengths; any string serves
		}
		sub = strings.Repeat("0", d)
	}
	ok, verr2, vpan := callValidateOCRA("GEZDGNBVGY3TQOJQGEZDGNBVGY3TQOJQ", sub, cfg, toOCRAInput(in))
	r.Eval(1)
	if vpan != nil {
		r.Violate("C14|ValidateOCRA|panic|"+rule, "ValidateOCRA panics on an arbitrary configuration ("+rule+")", "usable", k, "a verdict", panicStr(vpan))
		return
	}
	if want && admitted && gerr == nil && !ok {
		r.Violate("C14|ValidateOCRA|usability|"+rule, "ValidateOCRA rejects the generated code for a usable suite", "usable", k, "(true, nil)", fmt.Sprintf("(%v, %v)", ok, verr2))
	}
	if !(want && admitted) && (ok || verr2 == nil) {
		r.Violate("C14|ValidateOCRA|usability|"+rule, "ValidateOCRA does not fail for an unusable suite ("+rule+")", "usable", k, "(false, error)", fmt.Sprintf("(%v, %v)", ok, verr2))
	}
	if r.WantSample() {
		r.Sample(map[string]any{"suite": k.Suite, "usable": want, "validate_err": fmt.Sprint(verr), "generate_err": fmt.Sprint(gerr)})
	}
}

// usableRule names the first rule that makes a configuration unusable (for signatures).
func usableRule(s ref.Suite) string {
	switch {
	case s.Digits < 4:
		return "digits<4"
	case s.Digits > 10:
		return "digits>10"
	case !ref.HashSupported(s.Hash):
		return "hash-unsupported"
	case s.Q && s.Challenge == 0:
		return "challenge-without-format"
	case s.P && s.PasswordHash == 0:
		return "password-without-hash"
	case s.T && s.TimeStep <= 0:
		return "timestamp-without-step"
	}
	return "usable"
}

type admitCase struct {
	Suite ref.Suite `json:"suite"`
	Input inputJ    `json:"input"`
	Field string    `json:"field"`
	// Parsed: the suite object is what the library's own parser / registry returns for Suite.Raw (NewRawSuite), not a
	// configuration built by the monitor; Suite holds what the strict reference parser says the string means
	Parsed bool `json:"parsed,omitempty"`
}

func judgeAdmit(c *Ctx, k admitCase) {
	r := c.R
	in := k.Input.ref()
	want := ref.Admit(k.Suite, in)
	var cfg otp.Suite = toCfg(k.Suite)
	vcfg := toCfg(k.Suite)
	if k.Parsed {
		var ps otp.Suite
		var perr error
		if pan := monCatch(func() { ps, perr = otp.NewRawSuite(k.Suite.Raw) }); pan != nil || perr != nil || ps == nil {
			r.Count("parsed_suite_strings_refused_by_the_parser", 1) // whether it should be is C15's question
			return
		}
		cfg = ps
		if pan := monCatch(func() { vcfg = ps.Config() }); pan != nil {
			r.Violate("C14|Suite.Config|panic|", "Config() of a parsed suite panics", "admit", k, "a configuration", panicStr(pan))
			return
		}
		r.Count("admission_cases_on_parser_made_suites", 1)
	}
	oin := toOCRAInput(in)
	var ierr error
	pan := monCatch(func() { ierr = oin.Validate(vcfg) })
	r.Eval(1)
	lens := fmt.Sprintf("%d,%d,%d,%d,%d", lenOrNil(in.Counter), lenOrNil(in.Challenge), lenOrNil(in.Password), lenOrNil(in.Session), lenOrNil(in.Timestamp))
	r.Nontrivial(fmt.Sprintf("a|%+v|%s", k.Suite, lens))
	rule := admitRule(k.Suite, in)
	if k.Parsed {
		rule += ",parser-made suite"
	}
	if pan != nil {
		r.Violate("C14|OCRAInput.Validate|panic|", "OCRAInput.Validate panics", "admit", k, "an error or nil", panicStr(pan))
		return
	}
	if (ierr == nil) != want {
		r.Violate("C14|OCRAInput.Validate|admission|"+rule, "OCRAInput.Validate disagrees with the field requirements ("+rule+")", "admit", k, fmt.Sprintf("admitted=%v", want), "error: "+fmt.Sprint(ierr))
	}
	secret := "GEZDGNBVGY3TQOJQGEZDGNBVGY3TQOJQ"
	code, gerr, gpan := callGenerateOCRA(secret, cfg, oin)
	r.Eval(1)
	if gpan != nil {
		r.Violate("C14|GenerateOCRA|panic|"+rule, "GenerateOCRA panics ("+rule+")", "admit", k, "a code or an error", panicStr(gpan))
		return
	}
	if (gerr == nil) != want {
		r.Violate("C14|GenerateOCRA|admission|"+rule, "GenerateOCRA admission disagrees with the field requirements ("+rule+")", "admit", k, fmt.Sprintf("admitted=%v", want), fmt.Sprintf("code=%q err=%v", code, gerr))
	}
	sub := code
	if gerr != nil {
		sub = strings.Repeat("0", k.Suite.Digits)
	}
	ok, verr, vpan := callValidateOCRA(secret, sub, cfg, oin)
	r.Eval(1)
	if vpan != nil {
		r.Violate("C14|ValidateOCRA|panic|"+rule, "ValidateOCRA panics ("+rule+")", "admit", k, "a verdict", panicStr(vpan))
		return
	}
	if want && gerr == nil && !ok {
		r.Violate("C14|ValidateOCRA|admission|"+rule, "ValidateOCRA rejects the generated code of an admitted input", "admit", k, "(true, nil)", fmt.Sprintf("(%v, %v)", ok, verr))
	}
	if !want && (ok || verr == nil) {
		r.Violate("C14|ValidateOCRA|admission|"+rule, "ValidateOCRA does not fail for an inadmissible input ("+rule+")", "admit", k, "(false, error)", fmt.Sprintf("(%v, %v)", ok, verr))
	}
	if r.WantSample() {
		r.Sample(map[string]any{"suite": k.Suite, "field_lengths(C,Q,P,S,T;-1=nil)": lens, "admitted": want, "generate_err": fmt.Sprint(gerr)})
	}
}

func lenOrNil(b []byte) int {
	if b == nil {
		return -1
	}
	return len(b)
}

func admitRule(s ref.Suite, in ref.Input) string {
	switch {
	case s.C && len(in.Counter) != 8:
		return "counter!=8"
	case s.Q && len(in.Challenge) > 128:
		return "challenge>128"
	case s.Q && !ref.Admit(ref.Suite{Q: true, Challenge: s.Challenge}, ref.Input{Challenge: in.Challenge}):
		return "challenge<min"
	case s.P && len(in.Password) == 0:
		return "password-missing"
	case s.P && !ref.Admit(ref.Suite{P: true, PasswordHash: s.PasswordHash}, ref.Input{Password: in.Password}):
		return "password-length"
	case s.S && len(in.Session) > 128:
		return "session>128"
	case s.T && len(in.Timestamp) != 8:
		return "timestamp!=8"
	}
	return "admitted"
}

func admissionSuites() (out []ref.Suite) {
	defer func() {
		// every third class also with an advertised suite string as its Raw text
		regs := liveNames()
		n0 := len(out)
		for i := 0; i < n0 && len(regs) > 0; i += 3 {
			x := out[i]
			x.Raw = regs[i%len(regs)]
			out = append(out, x)
		}
		// ... and with suite strings that say something else (other lengths, session sizes, time steps) as Raw text
		for i := 1; i < n0; i += 3 {
			x := out[i]
			x.Raw = []string{"OCRA-1:HOTP-SHA512-8:C-QA10-PSHA512-S064-T2H", "OCRA-1:HOTP-SHA1-4:QH08-S512", "OCRA-1:HOTP-SHA256-10:QN10-S256-T59S", "OCRA-1:HOTP-SHA1-6:C-QN08-S001", "ocra-1:hotp-sha1-6:qn08-s128"}[(i/3)%5]
			out = append(out, x)
		}
	}()
	for sub := 0; sub < 32; sub++ {
		s := ref.Suite{Raw: "OCRA-1:x", Hash: sub % 3, Digits: 4 + sub%7, C: sub&1 != 0, Q: sub&2 != 0, P: sub&4 != 0, S: sub&8 != 0, T: sub&16 != 0}
		if s.T {
			s.TimeStep = 60
		}
		formats := []int{0}
		if s.Q {
			formats = []int{ref.QN08, ref.QN10, ref.QA08, ref.QA10, ref.QH08, ref.QH10}
		}
		pws := []int{0}
		if s.P {
			pws = []int{ref.PSHA1, ref.PSHA256, ref.PSHA512}
		}
		for _, f := range formats {
			for _, p := range pws {
				x := s
				x.Challenge, x.PasswordHash = f, p
				out = append(out, x)
				// the same class with the metadata of the fields it does NOT select filled in (a format, a password
				// hash, a time step): fields a suite does not select stay unconstrained whatever that metadata says
				y := x
				if !y.Q {
					y.Challenge = []int{ref.QN08, ref.QA10, ref.QH08}[sub%3]
				}
				if !y.P {
					y.PasswordHash = []int{ref.PSHA1, ref.PSHA256, ref.PSHA512}[sub%3]
				}
				if !y.T {
					y.TimeStep = []int{1, 60, 3600}[sub%3]
				}
				if y != x {
					out = append(out, y)
				}
			}
		}
	}
	return out
}

var boundaryLens = []int{0, 7, 8, 9, 10, 11, 19, 20, 21, 31, 32, 33, 63, 64, 65, 127, 128, 129, 140}

func setField(in *ref.Input, f int, n int, nilWhenZero bool) {
	var b []byte
	if n > 0 || !nilWhenZero {
		b = make([]byte, n)
		for i := range b {
			b[i] = byte(i*7 + f)
		}
	}
	switch f {
	case 0:
		in.Counter = b
	case 1:
		in.Challenge = b
	case 2:
		in.Password = b
	case 3:
		in.Session = b
	case 4:
		in.Timestamp = b
	}
}

func c14Admission(c *Ctx, emit func(admitCase)) {
	names := []string{"counter", "challenge", "password", "session", "timestamp"}
	for _, s := range admissionSuites() {
		valid := validInputFor(s)
		// each field alone at every length 0..140, nil vs empty at 0, others valid
		for f := 0; f < 5; f++ {
			for n := 0; n <= 140; n++ {
				in := valid
				setField(&in, f, n, false)
				emit(admitCase{Suite: s, Input: inputToJ(in), Field: names[f]})
				if n == 0 {
					setField(&in, f, 0, true)
					emit(admitCase{Suite: s, Input: inputToJ(in), Field: names[f] + " (nil)"})
				}
			}
		}
		if !c.Thorough {
			continue
		}
		// pairs of fields over the boundary lengths
		for f := 0; f < 5; f++ {
			for g := f + 1; g < 5; g++ {
				for _, n := range boundaryLens {
					for _, m := range boundaryLens {
						in := valid
						setField(&in, f, n, n == 0 && m%2 == 0)
						setField(&in, g, m, false)
						emit(admitCase{Suite: s, Input: inputToJ(in), Field: names[f] + "+" + names[g]})
					}
				}
			}
		}
	}
}

// parsedAdmissionStrings: suite strings whose suite object comes from the library's parser or registry. The admission
// rule is a function of the selected fields alone: a session token that carries a number (S001, S064, S128, S129,
// S256, S512, S999), a challenge format, a time step or the spelling of the string do not move any bound.
func parsedAdmissionStrings(c *Ctx) []string {
	var out []string
	regs := liveNames()
	for i, n := range regs {
		if i%4 == 0 || c.Thorough {
			out = append(out, n)
		}
	}
	sess := []string{"S", "S000", "S001", "S007", "S008", "S020", "S063", "S064", "S065", "S100", "S127", "S128", "S129", "S130", "S140", "S256", "S512", "S999"}
	heads := []string{"OCRA-1:HOTP-SHA1-6:QN08", "OCRA-1:HOTP-SHA256-8:C-QA10-PSHA1", "OCRA-1:HOTP-SHA512-10:QH10-PSHA512", "ocra-1:hotp-sha1-7:c-qn10"}
	tails := []string{"", "-T1M", "-T30S", "-T2H"}
	for i, sx := range sess {
		for j, h := range heads {
			if !c.Thorough && (i+j)%2 == 1 && sx != "S064" && sx != "S512" {
				continue
			}
			t := tails[(i+j)%len(tails)]
			x := h + "-" + sx + t
			if h[0] == 'o' {
				x = h + "-" + strings.ToLower(sx) + t
			}
			out = append(out, x)
		}
	}
	return out
}

func c14ParsedAdmission(c *Ctx, emit func(admitCase)) {
	names := []string{"counter", "challenge", "password", "session", "timestamp"}
	for _, raw := range parsedAdmissionStrings(c) {
		s, ok := ref.ParseSuiteNameFold(raw)
		if !ok {
			continue
		}
		s.Raw = raw
		valid := validInputFor(s)
		for f := 0; f < 5; f++ {
			lens := make([]int, 0, 160)
			for n := 0; n <= 140; n++ {
				lens = append(lens, n)
			}
			if f == 3 {
				lens = append(lens, 255, 256, 257, 511, 512, 513, 998, 999, 1000, 1024, 4096)
			}
			for _, n := range lens {
				if f != 3 && !c.Thorough && n > 12 && n < 126 && n%8 > 1 && n != 19 && n != 20 && n != 21 && n != 31 && n != 32 && n != 33 && n != 63 && n != 64 && n != 65 {
					continue // quick: the session field at every length, the other fields around their bounds
				}
				in := valid
				setField(&in, f, n, false)
				emit(admitCase{Suite: s, Input: inputToJ(in), Field: names[f], Parsed: true})
			}
		}
	}
}

func init() {
	register(&Prop{
		ID: "C14",
		Rule: "usability: the complete grid of 32 field subsets x digits -1..12 x hashes 0..4 x challenge formats 0..6 x password hashes 0..3 x time steps {-1,0,1,60} (250 880 configurations) judged by SuiteConfig.Validate, NewSuite, GenerateOCRA and ValidateOCRA against the usability predicate; admission: for 160 usable configuration classes each field alone at every length 0..140 (nil and empty at 0) with the others valid, thorough adds all pairs of fields over 19 boundary lengths; the same single-field sweep (session 0..140 and 255..4096 at every length) on suite objects made by the library's own parser and registry from advertised names and from strings with numbered session tokens (S000..S999), time steps and lower-case spellings, judged by what the strict reference parser says the string selects (observed.admission_cases_on_parser_made_suites); outcomes of OCRAInput.Validate, GenerateOCRA and ValidateOCRA compared with the independent admission predicate; " +
			"distinct_nontrivial counts distinct configurations plus distinct (configuration, five field lengths) tuples",
		Run: func(c *Ctx) {
			var us []usableCase
			for sub := 0; sub < 32; sub++ {
				for d := -1; d <= 12; d++ {
					for h := 0; h <= 4; h++ {
						for f := 0; f <= 6; f++ {
							for p := 0; p <= 3; p++ {
								for _, ts := range []int{-1, 0, 1, 60} {
									us = append(us, usableCase{ref.Suite{Raw: "OCRA-1:grid", Hash: h, Digits: d, Challenge: f, PasswordHash: p, TimeStep: ts,
										C: sub&1 != 0, Q: sub&2 != 0, P: sub&4 != 0, S: sub&8 != 0, T: sub&16 != 0}})
								}
							}
						}
					}
				}
			}
			// numbers far outside the grid that are congruent to an in-grid value modulo 2^8, 2^16 or 2^32 (what a
			// narrowing conversion in a range check would turn into a usable-looking value): all unusable
			n1 := len(us)
			for i := 0; i < n1; i += 13 {
				for _, w := range []int{1 << 8, 1 << 16, 1 << 32, -1 << 8} {
					x := us[i]
					switch (i / 13) % 3 { // (the hash is a uint8 in the library's configuration: nothing to narrow there)
					case 0:
						x.Suite.Digits += w
					case 1:
						x.Suite.Digits -= w
					default:
						x.Suite.Digits += 2 * w
					}
					us = append(us, x)
				}
			}
			// the suite text is arbitrary: repeat a slice of the grid with advertised names as Raw (a configuration
			// must be judged by its own fields, not by what a registry says about its text)
			regs := liveNames()
			if len(regs) > 0 {
				n0 := len(us)
				for i := 0; i < n0; i += 7 {
					x := us[i]
					x.Suite.Raw = regs[(i/7)%len(regs)]
					us = append(us, x)
				}
			}
			c.R.Extra["usability_grid_configurations"] = len(us)
			c.R.Extra["usability_grid_exhaustive"] = true
			parallelJudge(c, us, judgeUsable)
			var as []admitCase
			c14Admission(c, func(k admitCase) { as = append(as, k) })
			c14ParsedAdmission(c, func(k admitCase) { as = append(as, k) })
			c.R.Extra["admission_cases"] = len(as)
			parallelJudge(c, as, judgeAdmit)
		},
		Replay: func(c *Ctx, kind string, raw json.RawMessage) error {
			switch kind {
			case "usable":
				return replayAs(raw, func(k usableCase) { judgeUsable(c, k) })
			case "admit":
				return replayAs(raw, func(k admitCase) { judgeAdmit(c, k) })
			}
			return fmt.Errorf("unknown kind %q", kind)
		},
	})
}
