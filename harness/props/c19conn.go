package props

import (
	"bufio"
	"bytes"
	"context"
	"fmt"
	"io"
	"net"
	"net/http"
	"strings"
	"time"

	"verifh/gen"
	"verifh/ref"
)

// Connection-level and header-level hostility for C19: what a client can send that is not a body, a method or a path.

// ---- hostile request headers ----

var hostileHeaderNames = []string{"If-None-Match", "If-Match", "If-Modified-Since", "If-Unmodified-Since", "If-Range", "Range", "Accept", "Accept-Encoding",
	"Accept-Language", "Accept-Charset", "Content-Type", "Cookie", "Authorization", "Origin", "Access-Control-Request-Method", "Access-Control-Request-Headers",
	"X-Forwarded-For", "X-Request-Id", "Forwarded", "User-Agent", "Referer", "Cache-Control", "Pragma", "TE", "Via", "X-Http-Method-Override", "Content-Encoding"}

func hostileHeaderValues(rng *gen.RNG) []string {
	vals := []string{"", " ", "*", `"x"`, `"x", abc, "y"`, `abc,def,`, `abc, "x"`, `W/"x", , "y"`, `"unterminated`, `", ", ","`, `,,,,`, `"x" "y"`,
		"bytes=0-", "bytes=-1", "bytes=5-2", "bytes=0-0,1-1,2-2", "bytes=18446744073709551615-", "bytes=-18446744073709551616", "bytes=a-b", "bytes=0-1,", "bytes=" + strings.Repeat("0-1,", 2000) + "0-1",
		"gzip", "br;q=1.0, gzip;q=0.8, *;q=0.1", "gzip;q=", "gzip;q=2", ";q=1", "identity;q=0, *;q=0", strings.Repeat("gzip, ", 3000) + "br",
		"Mon, 02 Jan 2006 15:04:05 GMT", "Mon, 99 Jan 9999 99:99:99 GMT", "0", "-1", "99999999999999999999999", "Thu, 01 Jan 1970 00:00:00 GMT",
		"application/json", "application/json; charset=", "multipart/form-data", "multipart/form-data; boundary=", "multipart/form-data; boundary=x", "application/x-www-form-urlencoded", "text/plain; charset=utf-16", "*/*;q=0",
		"a=b; c=d", "Basic", "Basic !!!!", "Bearer " + strings.Repeat("A", 6000), "null", "http://[::1", "for=\"_x\";by=", "1.1.1.1, 2.2.2.2, ", "close, keep-alive", "trailers, deflate;q=0.5",
		strings.Repeat("x", 3000), strings.Repeat("\"a\", ", 1500) + "b", "\x01\x02\x7f", "café K", "%00%0d%0a", "DELETE", "no-cache, max-age=-1, max-age=99999999999999999999"}
	for i := 0; i < 12; i++ {
		// a catalogue value with a piece of another one (and of case-odd text) spliced in at a seeded place
		a, b := gen.Pick(rng, vals[:40]), gen.Pick(rng, vals[:40])+gen.CaseOddString(rng)
		at := rng.Intn(len(a) + 1)
		vals = append(vals, a[:at]+b+a[at:])
	}
	return vals
}

func (s *server) doHdr(method, path string, body []byte, hdr [][2]string, timeout time.Duration) httpResult {
	for busy := 0; ; busy++ {
		ctx, cancel := context.WithTimeout(context.Background(), timeout)
		req, err := http.NewRequestWithContext(ctx, method, "http://"+s.addr+path, bytes.NewReader(body))
		if err != nil {
			cancel()
			return httpResult{Err: err}
		}
		if body != nil {
			req.Header.Set("Content-Type", "application/json")
		}
		for _, h := range hdr {
			req.Header[h[0]] = append(req.Header[h[0]], h[1])
		}
		resp, err := s.client.Do(req)
		if err != nil {
			cancel()
			return httpResult{Err: err}
		}
		b, rerr := io.ReadAll(resp.Body)
		resp.Body.Close()
		cancel()
		if rerr == nil && resp.StatusCode == 429 && bytes.Contains(b, []byte("MaxConnsPerIP")) && busy < 100 {
			time.Sleep(30 * time.Millisecond)
			continue
		}
		return httpResult{Status: resp.StatusCode, Header: resp.Header, Body: b, Err: rerr}
	}
}

// c19HostileHeaders: every request-header name of the catalogue with every hostile value, on API paths (with a
// well-formed body, so the answer must also be the library's) and on the documentation paths, one at a time under CPU
// accounting. A complete response within the work bound is required; what the status is, is the server's business,
// except that a 2xx of an API path must carry the answer for the body's fields.
func c19HostileHeaders(c *Ctx, srv *server) *server {
	r := c.R
	rng := c.RNG.Fork(1951)
	vals := hostileHeaderValues(rng)
	key := []byte("12345678901234567890")
	sec := ref.Base32Encode(key)
	type target struct {
		method, path string
		k            *restCase
	}
	targets := []target{
		{"GET", "/docs/index.html", nil}, {"GET", "/docs/doc.json", nil}, {"GET", "/docs/swagger-ui.css", nil}, {"HEAD", "/docs/index.html", nil}, {"HEAD", "/docs/swagger-ui-bundle.js", nil},
		{"GET", "/", nil}, {"GET", "/ocra/suites", nil}, {"GET", "/docs", nil}, {"GET", "/no/such/path", nil},
		{"POST", "/hotp/generate", &restCase{EP: "hotp/generate", Method: "POST", F: map[string]any{"secret": sec, "counter": uint64(7)}, KeyHex: hexs(key)}},
		{"POST", "/totp/validate", &restCase{EP: "totp/validate", Method: "POST", F: map[string]any{"secret": sec, "timestamp": uint64(1700000123), "code": ref.TOTP(key, 1700000123, 30, 6, 0)}, KeyHex: hexs(key)}},
	}
	type hcase struct {
		t    target
		name string
		val  string
	}
	var cases []hcase
	for _, t := range targets {
		for _, n := range hostileHeaderNames {
			for _, v := range vals {
				cases = append(cases, hcase{t, n, v})
			}
		}
	}
	for i := len(cases) - 1; i > 0; i-- {
		j := rng.Intn(i + 1)
		cases[i], cases[j] = cases[j], cases[i]
	}
	if n := c.N(2500, len(cases)); n < len(cases) {
		cases = cases[:n]
	}
	valid := func(v string) bool { // what net/http lets a client write into a header value
		for i := 0; i < len(v); i++ {
			if b := v[i]; (b < 0x20 && b != '\t') || b == 0x7f {
				return false
			}
		}
		return true
	}
	for _, k := range cases {
		if !valid(k.val) {
			k.val = strings.Map(func(x rune) rune {
				if x < 0x20 || x == 0x7f {
					return '\t'
				}
				return x
			}, k.val)
		}
		var body []byte
		if k.t.k != nil {
			body = jsonBody(k.t.k.F)
		}
		t0, okT := srv.cpuTicks()
		res := srv.doHdr(k.t.method, k.t.path, body, [][2]string{{k.name, k.val}}, 30*time.Second)
		r.Eval(1)
		r.Count("hostile_header_requests", 1)
		r.Nontrivial("hdr|" + k.t.method + " " + k.t.path + "|" + k.name + "|" + k.val)
		cas := map[string]any{"method": k.t.method, "path": k.t.path, "header": k.name, "value": clipS(k.val), "value_len": len(k.val)}
		var burned float64
		if t1, ok := srv.cpuTicks(); ok && okT {
			burned = float64(t1-t0) / 100.0
		}
		if burned > 2.0 {
			r.Violate("C19|"+pathClass(k.t.path)+"|unbounded-work|header:"+k.name, fmt.Sprintf("a single request consumed %.1f CPU-seconds of server time (work unbounded in a request header)", burned), "none", cas, "<= 2 CPU-seconds", fmt.Sprintf("%.1f CPU-seconds", burned))
		}
		if res.Err != nil {
			switch {
			case !srv.alive():
				r.Violate("C19|"+pathClass(k.t.path)+"|server-died|header:"+k.name, "the server process exited while handling a request with a hostile header", "none", cas, "a response", res.Err.Error())
			case burned > 10:
				r.Violate("C19|"+pathClass(k.t.path)+"|no-response|header:"+k.name, "no response within 30 s while the server burned CPU (hang on a request header)", "none", cas, "a response", fmt.Sprintf("%v, %.1f CPU-seconds", res.Err, burned))
			case strings.Contains(res.Err.Error(), "deadline exceeded") || strings.Contains(res.Err.Error(), "Timeout"):
				r.Inconclusive("a request with a hostile header got no answer within 30 s but the server was idle (not attributed): " + k.name)
			default:
				// the server may refuse a header block by closing; the next request must be served
				r.Count("hostile_header_requests_refused_by_closing", 1)
				continue
			}
			// a spinning or dead server poisons everything after it: start a new one
			srv.stop()
			ns, err := startServer(c, "VERIF_SERVER_BIN")
			if err != nil {
				r.Inconclusive("server could not be restarted: " + err.Error())
				return nil
			}
			ns.client.CheckRedirect = srv.client.CheckRedirect
			srv = ns
			r.Count("server_restarts", 1)
			continue
		}
		r.Count(fmt.Sprintf("hostile_header_status_%dxx", res.Status/100), 1)
		if k.t.k != nil && res.Status == 200 {
			judgeRESTWith(c, srv, *k.t.k, &res, 0, 0)
		}
	}
	return srv
}

// ---- stalled clients, abandoned uploads, and what follows a refused request on the same connection ----

func rawProbe(key []byte, sec string, ctr uint64) (restCase, []byte) {
	k := restCase{EP: "hotp/generate", Method: "POST", F: map[string]any{"secret": sec, "counter": ctr}, KeyHex: hexs(key)}
	b := jsonBody(k.F)
	return k, []byte(fmt.Sprintf("POST /hotp/generate HTTP/1.1\r\nHost: x\r\nContent-Type: application/json\r\nContent-Length: %d\r\n\r\n%s", len(b), b))
}

// c19ConnectionFaults runs on a server of its own, beside the other phases (it waits out the server's read timeout).
func c19ConnectionFaults(c *Ctx, done chan<- struct{}) {
	defer close(done)
	r := c.R
	srv, err := startServer(c, "VERIF_SERVER_BIN")
	if err != nil {
		r.Inconclusive("connection faults: server could not be started: " + err.Error())
		return
	}
	defer srv.stop()
	key := []byte("12345678901234567890")
	sec := ref.Base32Encode(key)
	probes := func(n int, after string) bool {
		for i := 0; i < n; i++ {
			k, _ := rawProbe(key, sec, uint64(1000+i))
			k.Note = "probe after " + after
			k.Fresh = i%2 == 0
			judgeREST(c, srv, k)
			r.Count("probes", 1)
		}
		if !srv.alive() {
			r.Violate("C19|server|died|"+after, "the server process exited after "+after, "none", nil, "alive", "exited; see server log")
			return false
		}
		return true
	}
	big := bytes.Repeat([]byte("x"), 1<<20)

	// 1. what follows a refused or failed request on the SAME connection: if the server keeps the connection open, a
	// well-formed request sent on it must get the answer for its own fields
	type first struct {
		note, head string
		body       []byte // sent only after "100 Continue" when expect is set, otherwise right after the head
		expect     bool
	}
	firsts := []first{
		{"Expect: 100-continue with a Content-Length above the body limit", "POST /hotp/generate HTTP/1.1\r\nHost: x\r\nContent-Type: application/json\r\nExpect: 100-continue\r\nContent-Length: 1048577\r\n\r\n", append(big, 'x'), true},
		{"Expect: 100-continue with a huge Content-Length", "POST /totp/generate HTTP/1.1\r\nHost: x\r\nExpect: 100-continue\r\nContent-Length: 99999999999\r\n\r\n", nil, true},
		{"Expect: 100-continue with an acceptable body", "POST /hotp/generate HTTP/1.1\r\nHost: x\r\nContent-Type: application/json\r\nExpect: 100-continue\r\nContent-Length: 2\r\n\r\n", []byte("{}"), true},
		{"Expect: something else", "POST /hotp/generate HTTP/1.1\r\nHost: x\r\nExpect: 200-ok\r\nContent-Length: 2\r\n\r\n", []byte("{}"), false},
		{"broken JSON", "POST /hotp/generate HTTP/1.1\r\nHost: x\r\nContent-Length: 1\r\n\r\n", []byte("{"), false},
		{"wrong method", "DELETE /hotp/generate HTTP/1.1\r\nHost: x\r\n\r\n", nil, false},
		{"unknown path", "GET /nope HTTP/1.1\r\nHost: x\r\n\r\n", nil, false},
		{"HEAD of an API path", "HEAD /ocra/suites HTTP/1.1\r\nHost: x\r\n\r\n", nil, false},
		{"HEAD of the home page", "HEAD / HTTP/1.1\r\nHost: x\r\n\r\n", nil, false},
		{"HEAD of the secret endpoint", "HEAD /otp/secret?algorithm=SHA256 HTTP/1.1\r\nHost: x\r\n\r\n", nil, false},
		{"HEAD of a POST endpoint", "HEAD /totp/generate HTTP/1.1\r\nHost: x\r\n\r\n", nil, false},
		{"HEAD of the documentation index", "HEAD /docs/index.html HTTP/1.1\r\nHost: x\r\n\r\n", nil, false},
		{"HEAD of an unknown path", "HEAD /nope HTTP/1.1\r\nHost: x\r\n\r\n", nil, false},
		{"OPTIONS of an API path", "OPTIONS /hotp/generate HTTP/1.1\r\nHost: x\r\nOrigin: http://a\r\nAccess-Control-Request-Method: POST\r\n\r\n", nil, false},
		{"OPTIONS *", "OPTIONS * HTTP/1.1\r\nHost: x\r\n\r\n", nil, false},
		{"a large body with an early syntax error", "POST /hotp/generate HTTP/1.1\r\nHost: x\r\nContent-Length: 200001\r\n\r\n", append([]byte("}"), big[:200000]...), false},
		{"a large body after the first JSON value", "POST /hotp/generate HTTP/1.1\r\nHost: x\r\nContent-Length: 200002\r\n\r\n", append([]byte("{}"), big[:200000]...), false},
		{"a large body on a wrong method", "PUT /hotp/generate HTTP/1.1\r\nHost: x\r\nContent-Length: 200000\r\n\r\n", big[:200000], false},
		{"a large body on an unknown path", "POST /nope HTTP/1.1\r\nHost: x\r\nContent-Length: 200000\r\n\r\n", big[:200000], false},
		{"a large body on a GET endpoint", "GET /ocra/suites HTTP/1.1\r\nHost: x\r\nContent-Length: 200000\r\n\r\n", big[:200000], false},
		{"HEAD of a documentation asset", "HEAD /docs/swagger-ui.css HTTP/1.1\r\nHost: x\r\n\r\n", nil, false},
		{"conditional request for a documentation page", "GET /docs/index.html HTTP/1.1\r\nHost: x\r\nIf-None-Match: \"x\", abc, \"y\"\r\nIf-Modified-Since: Mon, 02 Jan 2006 15:04:05 GMT\r\n\r\n", nil, false},
		{"range request for a documentation asset", "GET /docs/swagger-ui.css HTTP/1.1\r\nHost: x\r\nRange: bytes=10-19\r\n\r\n", nil, false},
		{"empty chunked body", "POST /hotp/generate HTTP/1.1\r\nHost: x\r\nTransfer-Encoding: chunked\r\n\r\n0\r\n\r\n", nil, false},
		{"chunked body with a trailer", "POST /hotp/generate HTTP/1.1\r\nHost: x\r\nTransfer-Encoding: chunked\r\nTrailer: X-T\r\n\r\n2\r\n{}\r\n0\r\nX-T: 1\r\n\r\n", nil, false},
		{"Content-Length and Transfer-Encoding together", "POST /hotp/generate HTTP/1.1\r\nHost: x\r\nContent-Length: 2\r\nTransfer-Encoding: chunked\r\n\r\n2\r\n{}\r\n0\r\n\r\n", nil, false},
		{"HTTP/1.0 with keep-alive", "GET / HTTP/1.0\r\nHost: x\r\nConnection: keep-alive\r\n\r\n", nil, false},
		{"body on a GET", "GET /ocra/suites HTTP/1.1\r\nHost: x\r\nContent-Length: 2\r\n\r\n", []byte("{}"), false},
		{"a body of exactly the limit", "POST /hotp/generate HTTP/1.1\r\nHost: x\r\nContent-Length: 1048576\r\n\r\n", big, false},
		{"multipart body with a broken boundary", "POST /hotp/generate HTTP/1.1\r\nHost: x\r\nContent-Type: multipart/form-data; boundary=\r\nContent-Length: 4\r\n\r\n", []byte("--\r\n"), false},
		{"header line without a colon", "GET / HTTP/1.1\r\nHost: x\r\nBroken header\r\n\r\n", nil, false},
		{"many small headers", "GET / HTTP/1.1\r\nHost: x\r\n" + strings.Repeat("X-A: b\r\n", 300) + "\r\n", nil, false},
	}
	for rep := 0; rep < c.N(2, 8); rep++ {
		for fi, f := range firsts {
			conn, err := net.DialTimeout("tcp", srv.addr, 5*time.Second)
			if err != nil {
				continue
			}
			conn.SetDeadline(time.Now().Add(40 * time.Second))
			br := bufio.NewReader(conn)
			conn.Write([]byte(f.head))
			if !f.expect && f.body != nil {
				conn.Write(f.body)
			}
			method := strings.SplitN(f.head, " ", 2)[0]
			readOne := func() (*httpResult, bool) {
				resp, err := http.ReadResponse(br, &http.Request{Method: method})
				if err != nil {
					if strings.Contains(err.Error(), "malformed HTTP") {
						// not a closed connection: bytes arrived, and they are not the start of an HTTP response
						peek, _ := br.Peek(br.Buffered())
						r.Violate("C19|connection|bytes-that-are-no-response|", "after a complete response the server sends bytes that are not an HTTP response (the responses on this connection are framed wrongly)", "none",
							map[string]any{"first_request": f.note, "first_request_head": clipS(f.head)}, "an HTTP response, or a closed connection", err.Error()+" | next bytes: "+clipS(string(peek)))
					}
					return nil, false
				}
				b, rerr := io.ReadAll(resp.Body)
				resp.Body.Close()
				if rerr != nil {
					return nil, false
				}
				return &httpResult{Status: resp.StatusCode, Header: resp.Header, Body: b}, !resp.Close
			}
			ans, open := readOne()
			if ans != nil && ans.Status == 100 {
				// the server asked for the body: send it, then read the final answer
				if f.body == nil {
					r.Count("same_connection_body_asked_for_and_not_sent", 1)
					conn.Close()
					continue
				}
				conn.Write(f.body)
				ans, open = readOne()
			}
			r.Eval(1)
			r.Count("same_connection_first_requests", 1)
			if ans == nil || !open {
				r.Count("same_connection_closed_by_the_server_after_the_first_request", 1)
				conn.Close()
				continue
			}
			k, wire := rawProbe(key, sec, uint64(50000+rep*100+fi))
			k.Note = "second request on a connection whose first request was: " + f.note
			method = "POST"
			t0 := time.Now().Unix()
			if _, err := conn.Write(wire); err != nil {
				r.Count("same_connection_closed_by_the_server_after_the_first_request", 1)
				conn.Close()
				continue
			}
			ans2, _ := readOne()
			t1 := time.Now().Unix()
			conn.Close()
			if ans2 == nil {
				// a server may close an idle connection at any moment; the request is repeated on its own
				r.Count("same_connection_second_request_unanswered_and_sent_again", 1)
				judgeREST(c, srv, k)
				continue
			}
			r.Count("same_connection_second_requests_answered", 1)
			r.Nontrivial("same-conn|" + f.note)
			judgeRESTWith(c, srv, k, ans2, t0, t1)
		}
	}
	if !probes(3, "refused requests followed by well-formed ones on the same connection") {
		return
	}

	// 2. uploads that are announced and then abandoned (the connection is closed half-way through the body), more in
	// total than any sensible budget for buffered bodies; then probes
	nUp := c.N(64, 400)
	monParallel(nUp, 8, func(i int) {
		conn, err := net.DialTimeout("tcp", srv.addr, 5*time.Second)
		if err != nil {
			return
		}
		defer conn.Close()
		conn.SetDeadline(time.Now().Add(20 * time.Second))
		ep := []string{"/hotp/generate", "/totp/validate", "/ocra/generate", "/otp/url"}[i%4]
		ct := "application/json"
		if i%5 == 4 {
			ct = "multipart/form-data; boundary=xyz"
		}
		fmt.Fprintf(conn, "POST %s HTTP/1.1\r\nHost: x\r\nContent-Type: %s\r\nContent-Length: 1048576\r\n\r\n", ep, ct)
		conn.Write(big[:len(big)/2])
		r.Count("abandoned_uploads", 1)
		r.Eval(1)
	})
	if !probes(6, "abandoned uploads") {
		return
	}

	// 3. clients that start a request and then say nothing for longer than the server's read timeout (5 s)
	stalls := []string{
		"POST /hotp/gen",
		"POST /hotp/generate HTTP/1.1\r\nHost: x\r\nContent-Le",
		"POST /hotp/generate HTTP/1.1\r\nHost: x\r\nContent-Length: 100\r\n\r\n{\"secret\":",
		"POST /hotp/generate HTTP/1.1\r\nHost: x\r\nContent-Length: 100\r\n\r\n",
		"POST /ocra/generate HTTP/1.1\r\nHost: x\r\nTransfer-Encoding: chunked\r\n\r\nff\r\n{",
		"POST /totp/generate HTTP/1.1\r\nHost: x\r\nExpect: 100-continue\r\nContent-Length: 10\r\n\r\n",
		"GET /docs/index.html HTTP/1.1\r\nHost: x\r\n",
		"",
	}
	// 4. a kept connection that has been idle for longer than the server's write timeout (10 s) but well inside its idle
	// allowance (30 s), and then carries a request with "Expect: 100-continue"; beside it a control connection, idle just
	// as long, that carries the same request without the header. Opened here, used after the pauses below.
	type keptConn struct {
		conn net.Conn
		br   *bufio.Reader
		t0   time.Time
	}
	openKept := func(ctr uint64) *keptConn {
		conn, err := net.DialTimeout("tcp", srv.addr, 5*time.Second)
		if err != nil {
			return nil
		}
		conn.SetDeadline(time.Now().Add(60 * time.Second))
		_, wire := rawProbe(key, sec, ctr)
		conn.Write(wire)
		br := bufio.NewReader(conn)
		resp, err := http.ReadResponse(br, &http.Request{Method: "POST"})
		if err != nil {
			conn.Close()
			return nil
		}
		io.Copy(io.Discard, resp.Body)
		resp.Body.Close()
		if resp.StatusCode != 200 || resp.Close {
			conn.Close()
			return nil
		}
		return &keptConn{conn, br, time.Now()}
	}
	keptExpect, keptPlain := openKept(70001), openKept(70002)

	// 5. first requests that arrive slowly but inside every read deadline: nothing for 2.6 s after the connection is
	// accepted, then the first part, 3 s later the rest - complete more than 5 s (the read timeout) after accept. A
	// plain request, one with "Expect: 100-continue", and one the server's own parser refuses: each must get its answer.
	type slowReq struct {
		note, part1, part2 string
		body               []byte // sent after "100 Continue" (expect) or with part2
		expect, wellFormed bool
	}
	sk, _ := rawProbe(key, sec, 70020)
	sb := jsonBody(sk.F)
	slowHead := fmt.Sprintf("POST /hotp/generate HTTP/1.1\r\nHost: x\r\nContent-Type: application/json\r\nContent-Length: %d\r\n", len(sb))
	slows := []slowReq{
		{"a well-formed request", slowHead[:30], slowHead[30:] + "\r\n", sb, false, true},
		{"a well-formed request with Expect: 100-continue", slowHead[:30], slowHead[30:] + "Expect: 100-continue\r\n\r\n", sb, true, true},
		{"a request with an unparsable Content-Length", "POST /hotp/generate HTTP/1.1\r\nHo", "st: x\r\nContent-Length: abc\r\n\r\n", nil, false, false},
		{"a request for an unknown path", "GET /no/su", "ch/path HTTP/1.1\r\nHost: x\r\n\r\n", nil, false, false},
	}
	slowDone := make(chan struct{})
	go func() {
		defer close(slowDone)
		monParallel(len(slows), len(slows), func(i int) {
			q := slows[i]
			conn, err := net.DialTimeout("tcp", srv.addr, 5*time.Second)
			if err != nil {
				return
			}
			defer conn.Close()
			conn.SetDeadline(time.Now().Add(40 * time.Second))
			time.Sleep(2600 * time.Millisecond) // the client's pace is the input
			conn.Write([]byte(q.part1))
			time.Sleep(3 * time.Second)
			conn.Write([]byte(q.part2))
			if !q.expect && q.body != nil {
				conn.Write(q.body)
			}
			br := bufio.NewReader(conn)
			read := func() (*httpResult, error) {
				resp, err := http.ReadResponse(br, &http.Request{Method: "POST"})
				if err != nil {
					return nil, err
				}
				b, rerr := io.ReadAll(resp.Body)
				resp.Body.Close()
				if rerr != nil {
					return nil, rerr
				}
				return &httpResult{Status: resp.StatusCode, Header: resp.Header, Body: b}, nil
			}
			a, rerr := read()
			if rerr == nil && a.Status == 100 {
				conn.Write(q.body)
				a, rerr = read()
			}
			r.Eval(1)
			r.Count("slow_first_requests", 1)
			r.Nontrivial("slow-first|" + q.note)
			if rerr != nil {
				r.Violate("C19|connection|no-response|slow-first-request", "a first request that arrives slowly but inside the server's read deadlines (first bytes 2.6 s after the connection was accepted, the rest 3 s later) receives no response", "none",
					map[string]any{"request": q.note, "first_part": q.part1, "second_part": q.part2}, "a complete response", rerr.Error())
				return
			}
			if q.wellFormed {
				k := sk
				k.Note = "first request of a connection, sent slowly: " + q.note
				judgeRESTWith(c, srv, k, a, 0, 0)
			} else if a.Status >= 200 && a.Status < 300 {
				r.Violate("C19|connection|status-does-not-distinguish|slow-first-request", "a refused request is answered with a success status when it arrives slowly", "none", map[string]any{"request": q.note}, "a failure status", fmt.Sprint(a.Status))
			}
		})
	}()
	defer func() { <-slowDone }()

	var conns []net.Conn
	for rep := 0; rep < 3; rep++ {
		for _, s := range stalls {
			conn, err := net.DialTimeout("tcp", srv.addr, 5*time.Second)
			if err != nil {
				continue
			}
			conn.Write([]byte(s))
			conns = append(conns, conn)
			r.Count("stalled_connections", 1)
			r.Eval(1)
		}
	}
	// the pause lets the server's own read timeout (5 s) and idle handling act on these connections; it changes the
	// server's state and is not a verdict
	time.Sleep(6500 * time.Millisecond)
	ok := probes(4, "clients that stalled beyond the read timeout")
	for _, conn := range conns {
		conn.SetReadDeadline(time.Now().Add(50 * time.Millisecond))
		io.Copy(io.Discard, conn)
		conn.Close()
	}
	if ok {
		probes(2, "stalled clients went away")
	}
	c19ExpectAfterIdle(c, srv, key, sec, keptExpect != nil && keptPlain != nil, func() (net.Conn, *bufio.Reader, time.Time, net.Conn, *bufio.Reader) {
		return keptExpect.conn, keptExpect.br, keptExpect.t0, keptPlain.conn, keptPlain.br
	})
	c19UnparsableTargets(c, srv, key, sec)
	probes(3, "requests with unparsable targets or Host headers")
}

// c19ExpectAfterIdle: see item 4 above. The connections have been idle since t0; the wait below brings that to 11.5 s.
// A server may close an idle connection whenever it likes - so the verdict needs (a) both connections still open
// after the idle time (nothing to read, no EOF), and (b) the control request answered: then a request that differs only
// in carrying "Expect: 100-continue" must be answered too (100 Continue and then the answer, or the answer at once).
func c19ExpectAfterIdle(c *Ctx, srv *server, key []byte, sec string, have bool, get func() (net.Conn, *bufio.Reader, time.Time, net.Conn, *bufio.Reader)) {
	r := c.R
	if !have {
		r.Count("expect_after_idle_not_run", 1)
		return
	}
	ec, ebr, t0, pc, pbr := get()
	defer ec.Close()
	defer pc.Close()
	if d := 11500*time.Millisecond - time.Since(t0); d > 0 {
		time.Sleep(d) // the idle time is the input here, not a verdict
	}
	stillOpen := func(conn net.Conn, br *bufio.Reader) bool {
		conn.SetReadDeadline(time.Now().Add(20 * time.Millisecond))
		_, err := br.Peek(1)
		conn.SetReadDeadline(time.Now().Add(30 * time.Second))
		ne, isNet := err.(net.Error)
		return err != nil && isNet && ne.Timeout()
	}
	if !stillOpen(ec, ebr) || !stillOpen(pc, pbr) {
		r.Count("expect_after_idle_connection_closed_while_idle", 1)
		return
	}
	k, _ := rawProbe(key, sec, 70003)
	body := jsonBody(k.F)
	head := func(expect bool) []byte {
		h := fmt.Sprintf("POST /hotp/generate HTTP/1.1\r\nHost: x\r\nContent-Type: application/json\r\nContent-Length: %d\r\n", len(body))
		if expect {
			h += "Expect: 100-continue\r\n"
		}
		return []byte(h + "\r\n")
	}
	read := func(br *bufio.Reader) (*httpResult, error) {
		resp, err := http.ReadResponse(br, &http.Request{Method: "POST"})
		if err != nil {
			return nil, err
		}
		b, rerr := io.ReadAll(resp.Body)
		resp.Body.Close()
		if rerr != nil {
			return nil, rerr
		}
		return &httpResult{Status: resp.StatusCode, Header: resp.Header, Body: b}, nil
	}
	// control first
	pc.Write(append(head(false), body...))
	pa, perr := read(pbr)
	if perr != nil || pa.Status != 200 {
		r.Count("expect_after_idle_control_not_answered", 1)
		return
	}
	ec.Write(head(true))
	ea, eerr := read(ebr)
	if eerr == nil && ea.Status == 100 {
		ec.Write(body)
		ea, eerr = read(ebr)
	} else if eerr == nil {
		ec.Write(body) // answered at once: the body is still owed to the connection
	}
	r.Eval(1)
	r.Count("expect_after_idle_exchanges", 1)
	r.Nontrivial("expect-after-idle")
	if eerr != nil {
		k.Note = "request with Expect: 100-continue on a connection idle for 11.5 s"
		r.Violate("C19|connection|no-response|expect-100-continue-after-idle-beyond-write-timeout", "a well-formed request carrying \"Expect: 100-continue\", sent on a kept connection that has been idle for 11.5 s (the same request without the header, on a connection idle just as long, is answered), receives no response: the server reads it and closes", "rest", k,
			"100 Continue and the answer, or the answer", "no response: "+eerr.Error())
		return
	}
	k.Note = "request with Expect: 100-continue on a connection idle for 11.5 s"
	judgeRESTWith(c, srv, k, ea, 0, 0)
}

// c19UnparsableTargets: request targets and Host headers that an HTTP parser may fail on (control bytes in the target,
// broken authorities, Host values that are no host), each combined with an unknown path and with known paths. Whatever
// the server makes of them, a 2xx answer must be the answer of the path that was asked for: the success object of that
// endpoint - never a success for a path that does not exist, and never another endpoint's answer.
func c19UnparsableTargets(c *Ctx, srv *server, key []byte, sec string) {
	r := c.R
	hosts := []string{"x", "a:b", "[::1", "a b", "x/y", "ex%41mple.com", "[fe80::1%eth0]:8080", "", "a\tb", "x:99999", "-", "x,y"}
	type tgt struct {
		method, target, path string // path: what the target asks for ("" = unknown path)
		body                 []byte
	}
	hk, _ := rawProbe(key, sec, 70010)
	hb := jsonBody(hk.F)
	base := []tgt{{"GET", "/no/such/endpoint", "", nil}, {"GET", "/otp/secret?algorithm=SHA512", "/otp/secret", nil}, {"GET", "/ocra/suites", "/ocra/suites", nil}, {"POST", "/hotp/generate", "/hotp/generate", hb}, {"GET", "/docs/nothing-here", "", nil}}
	var cases []struct {
		t    tgt
		host string
		note string
	}
	for _, t := range base {
		for _, h := range hosts {
			cases = append(cases, struct {
				t    tgt
				host string
				note string
			}{t, h, "Host: " + fmt.Sprintf("%q", h)})
		}
		for _, m := range []string{"\x01", "\x7f", "?q=\t", "#\x00", "%", "%zz", "\\", " x", "?a=\x1b[0m"} {
			t2 := t
			t2.target = t.target + m
			if strings.Contains(t.target, "?") && strings.HasPrefix(m, "?") {
				t2.target = t.target + "&" + m[1:]
			}
			cases = append(cases, struct {
				t    tgt
				host string
				note string
			}{t2, "x", "target with " + fmt.Sprintf("%q", m)})
		}
		// a valid absolute form: the authority of the target counts then, whatever the Host header says
		for _, h := range hosts {
			t2 := t
			t2.target = "http://" + srv.addr + t.target
			cases = append(cases, struct {
				t    tgt
				host string
				note string
			}{t2, h, "valid absolute-form target, Host: " + fmt.Sprintf("%q", h)})
		}
		for _, a := range []string{"http://[::1", "http://a b", "http://x:y", "//x", "http:/x", "HTTP://X"} {
			t2 := t
			t2.target = a + t.target
			cases = append(cases, struct {
				t    tgt
				host string
				note string
			}{t2, "x", "absolute-form target with authority " + fmt.Sprintf("%q", a)})
		}
	}
	// twice, in two seeded orders: what the service remembers of one request (a Host value it has "checked", a path it
	// has resolved) must not decide the answer to a later one
	rng := c.RNG.Fork(1966)
	once := append(cases[:0:0], cases...)
	for rep := 0; rep < 2; rep++ {
		for i := len(once) - 1; i > 0; i-- {
			j := rng.Intn(i + 1)
			once[i], once[j] = once[j], once[i]
		}
		cases = append(cases, once...)
	}
	cases = cases[len(once):]
	for _, k := range cases {
		conn, err := net.DialTimeout("tcp", srv.addr, 5*time.Second)
		if err != nil {
			continue
		}
		conn.SetDeadline(time.Now().Add(20 * time.Second))
		var wire bytes.Buffer
		fmt.Fprintf(&wire, "%s %s HTTP/1.1\r\nHost: %s\r\n", k.t.method, k.t.target, k.host)
		if k.t.body != nil {
			fmt.Fprintf(&wire, "Content-Type: application/json\r\nContent-Length: %d\r\n", len(k.t.body))
		}
		wire.WriteString("Connection: close\r\n\r\n")
		wire.Write(k.t.body)
		conn.Write(wire.Bytes())
		resp, err := http.ReadResponse(bufio.NewReader(conn), &http.Request{Method: k.t.method})
		r.Eval(1)
		r.Count("unparsable_target_requests", 1)
		if err != nil {
			conn.Close()
			r.Count("unparsable_target_requests_refused_by_closing", 1)
			continue
		}
		body, _ := io.ReadAll(resp.Body)
		resp.Body.Close()
		conn.Close()
		r.Nontrivial("target|" + k.t.method + " " + k.t.target + "|" + k.host)
		r.Count(fmt.Sprintf("unparsable_target_status_%dxx", resp.StatusCode/100), 1)
		if resp.StatusCode < 200 || resp.StatusCode > 299 {
			continue
		}
		cas := map[string]any{"method": k.t.method, "target": k.t.target, "host": k.host, "what": k.note}
		if k.t.path == "" {
			r.Violate("C19|unknown-path|status-does-not-distinguish|unparsable-target-or-host", "a request for a path that does not exist is answered with a success status when its target or Host header is one the server's parser fails on", "none", cas,
				"a failure status (the same target with a plain Host gets 404)", fmt.Sprintf("%d %s", resp.StatusCode, clipS(string(body))))
			continue
		}
		if ok, why := successSchemaOK(k.t.path, body); !ok {
			r.Violate("C19|"+k.t.path+"|status-does-not-distinguish|unparsable-target-or-host", "a request for "+k.t.path+" whose target or Host header the server's parser fails on is answered 2xx, but not with that endpoint's success object: "+why, "none", cas,
				"the endpoint's success object, or a failure status", fmt.Sprintf("%d %s", resp.StatusCode, clipS(string(body))))
		}
	}
}

// c19WideText: text made of n copies of a 1-, 2-, 3- or 4-byte character with n at and around the sizes at which
// byte counts and character counts part company (64, 86, 128, 256, 342, 512, 1024, ...): as an unknown path, below a
// known path, below /docs, in a query string, and in every string field of the JSON bodies. Anything that cuts,
// pads or echoes request text by the wrong measure shows here; judged as every hostile request is.
func c19WideText(c *Ctx, srv *server) *server {
	r := c.R
	chars := []string{"a", "\u00e9", "\u65e5", "\U0001F600"}
	lens := []int{1, 63, 64, 65, 85, 86, 100, 127, 128, 129, 170, 171, 200, 255, 256, 257, 300, 341, 342, 511, 512, 513, 1000, 1024, 1366, 2000}
	esc := func(s string) string {
		var b strings.Builder
		for i := 0; i < len(s); i++ {
			if s[i] < 0x80 {
				b.WriteByte(s[i])
			} else {
				fmt.Fprintf(&b, "%%%02X", s[i])
			}
		}
		return b.String()
	}
	sec := "GEZDGNBVGY3TQOJQGEZDGNBVGY3TQOJQ"
	restart := func() bool {
		srv.stop()
		ns, err := startServer(c, "VERIF_SERVER_BIN")
		if err != nil {
			r.Inconclusive("server could not be restarted: " + err.Error())
			return false
		}
		ns.client.CheckRedirect = srv.client.CheckRedirect
		srv = ns
		r.Count("server_restarts", 1)
		return true
	}
	for _, ch := range chars {
		for _, n := range lens {
			t := strings.Repeat(ch, n)
			e := esc(t)
			reqs := []hostileReq{
				{Method: "GET", Path: "/" + e, Note: "wide text as an unknown path"},
				{Method: "POST", Path: "/x/" + e, Body: hs("{}"), Note: "wide text as an unknown path"},
				{Method: "GET", Path: "/totp/generate/" + e, Note: "wide text below a known path"},
				{Method: "GET", Path: "/docs/" + e, Note: "wide text below /docs"},
				{Method: "GET", Path: "/otp/secret?algorithm=" + e, Note: "wide text in a query string"},
				{Method: "GET", Path: "/otp/secret?" + e + "=1", Note: "wide text as a query key"},
			}
			for _, f := range []string{"secret", "algorithm", "digits", "raw_suite", "code"} {
				m := map[string]any{"secret": sec, "counter": 1, "code": "123456", "raw_suite": "OCRA-1:HOTP-SHA1-6:QN08", "input": map[string]any{"challenge_hex": "3132333435363738"}}
				m[f] = t
				ep := "/hotp/validate"
				if f == "raw_suite" {
					ep = "/ocra/generate"
				}
				reqs = append(reqs, hostileReq{Method: "POST", Path: ep, Body: hs(string(jsonBody(m))), Note: "wide text in field " + f})
			}
			for _, f := range []string{"issuer", "account_name", "type"} {
				m := map[string]any{"secret": sec, "type": "totp", "issuer": "I", "account_name": "a"}
				m[f] = t
				reqs = append(reqs, hostileReq{Method: "POST", Path: "/otp/url", Body: hs(string(jsonBody(m))), Note: "wide text in field " + f})
			}
			for _, k := range reqs {
				r.Count("wide_text_requests", 1)
				if judgeHostile(c, srv, k, true) {
					if !restart() {
						return nil
					}
				}
			}
		}
	}
	return srv
}

// c19SilentClients: clients that connect and never send a byte, arriving in waves from different loopback source
// addresses (so that no per-address limit applies), each wave after the previous one has been silent for longer than
// the server's read timeout. A server that gives up on silent connections holds two waves at most; one that keeps
// them for good accumulates descriptors. To make that observable without opening tens of thousands of sockets the
// server of this phase runs with a descriptor limit of 170 (set by a wrapper script; the limit is the test's
// resource budget, like the 2 CPU-seconds of the work bound): after each wave a well-formed probe must be answered
// and the process must be alive. Runs beside the other phases.
func c19SilentClients(c *Ctx, done chan<- struct{}) {
	defer close(done)
	r := c.R
	if c.Env["VERIF_SERVER_BIN_FDLIMIT"] == "" {
		r.Inconclusive("silent clients: wrapper for a descriptor-limited server not available")
		return
	}
	srv, err := startServer(c, "VERIF_SERVER_BIN_FDLIMIT")
	if err != nil {
		r.Inconclusive("silent clients: descriptor-limited server could not be started: " + err.Error())
		return
	}
	defer srv.stop()
	key := []byte("12345678901234567890")
	sec := ref.Base32Encode(key)
	var held []net.Conn
	defer func() {
		for _, conn := range held {
			conn.Close()
		}
	}()
	waves, per := c.N(5, 9), 40
	for w := 0; w < waves; w++ {
		opened := 0
		for i := 0; i < per; i++ {
			// source address 127.0.(w+1).(i%4+1): ten connections per address
			d := net.Dialer{Timeout: 3 * time.Second, LocalAddr: &net.TCPAddr{IP: net.IPv4(127, 0, byte(w+1), byte(i%4+1))}}
			conn, err := d.Dial("tcp", srv.addr)
			if err != nil {
				continue
			}
			held = append(held, conn)
			opened++
		}
		r.Count("silent_connections_opened", opened)
		r.Eval(1)
		// longer than the read timeout (5 s): the silence is the input
		time.Sleep(6200 * time.Millisecond)
		k, _ := rawProbe(key, sec, uint64(80000+w))
		k.Note = fmt.Sprintf("probe after %d waves of %d silent connections, 6.2 s apart (server limited to 170 descriptors)", w+1, per)
		k.Fresh = true
		if !srv.alive() {
			r.Violate("C19|server|died|silent-connections", "the server process exited while clients that never send anything were accumulating (they are never given up on, each costs a descriptor, and when none is left the accept loop ends)", "rest", k, "alive", "exited; see server log")
			return
		}
		res := srv.do("POST", "/hotp/generate", jsonBody(k.F), true, 20*time.Second)
		if res.Err != nil {
			r.Violate("C19|/hotp/generate|no-response|silent-connections", "a well-formed request is not answered while connections on which nothing was ever sent are being held by the server beyond its read and idle timeouts", "rest", k, "200 + JSON", res.Err.Error())
			return
		}
		judgeRESTWith(c, srv, k, &res, 0, 0)
		r.Count("probes", 1)
	}
	// how many of the silent connections has the server given up on (closed) by now?
	closed := 0
	for _, conn := range held {
		conn.SetReadDeadline(time.Now().Add(5 * time.Millisecond))
		var b [1]byte
		if _, err := conn.Read(b[:]); err != nil {
			if ne, ok := err.(net.Error); !ok || !ne.Timeout() {
				closed++
			}
		} else {
			closed++ // the server said something (a refusal) - it has dealt with the connection
		}
	}
	r.Extra["silent_connections_closed_by_the_server_at_the_end"] = fmt.Sprintf("%d of %d", closed, len(held))
	// then more connections at one moment than the server has descriptors for (220 from six addresses against the limit
	// of 170), held for a second and closed again: when the burst is over the service must still be there
	for _, conn := range held {
		conn.Close()
	}
	held = nil
	time.Sleep(500 * time.Millisecond)
	var burst []net.Conn
	for i := 0; i < 220; i++ {
		d := net.Dialer{Timeout: 2 * time.Second, LocalAddr: &net.TCPAddr{IP: net.IPv4(127, 0, 100, byte(i%6+1))}}
		if conn, err := d.Dial("tcp", srv.addr); err == nil {
			burst = append(burst, conn)
		}
	}
	r.Count("burst_connections_opened", len(burst))
	r.Eval(1)
	time.Sleep(time.Second)
	for _, conn := range burst {
		conn.Close()
	}
	time.Sleep(1500 * time.Millisecond)
	{
		k, _ := rawProbe(key, sec, 81000)
		k.Note = "probe after a burst of 220 simultaneous connections against a server limited to 170 descriptors, all closed again"
		k.Fresh = true
		if !srv.alive() {
			r.Violate("C19|server|died|descriptors-exhausted", "the server process exited when more connections arrived at one moment than it has descriptors for (the accept loop ends on the error instead of waiting for a descriptor)", "rest", k, "alive once the burst is over", "exited; see server log")
			return
		}
		res := srv.do("POST", "/hotp/generate", jsonBody(k.F), true, 20*time.Second)
		if res.Err != nil {
			r.Violate("C19|/hotp/generate|no-response|descriptors-exhausted", "a well-formed request is not answered after a burst of connections that exhausted the server's descriptors has gone away", "rest", k, "200 + JSON", res.Err.Error())
			return
		}
		judgeRESTWith(c, srv, k, &res, 0, 0)
		r.Count("probes", 1)
	}
}
