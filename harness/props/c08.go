package props

import (
	crand "crypto/rand"
	"crypto/sha256"
	"encoding/binary"
	"encoding/json"
	"fmt"
	"io"
	"runtime"
	"sync"
	"time"

	"github.com/ja7ad/otp"

	"verifh/ref"
)

// ---- C08: random secrets are full-length CSPRNG output ----

// recStream replaces crypto/rand.Reader: a position-unique keystream whose every
// hand-out is logged (offset, length, sequence number) under a mutex.
type recStream struct {
	mu   sync.Mutex
	seed uint64
	mode int // 0 keystream, 1 all-zero, 2 all-0xFF, 3 base32 letters, 4 hex digits, 5 decimal digits, 6 printable ASCII, 7 constant 'A'

	next  int64
	seq   int64
	log   []handout
	cache map[int64][32]byte
	maxRd int // >0: deliver at most this many bytes per Read (a source may legally return short reads)
	// hold > 0: a slow source — each first Read of a caller waits until `hold` callers are inside the source
	// (or 2 s have passed), so that many calls are in flight at once
	hold    int
	waiting int
	gate    chan struct{}
}
type handout struct {
	off, n, seq int64
	gid         int64 // goroutine that called Read (io.ReadFull runs in the caller's goroutine)
}

func goid() int64 {
	var b [64]byte
	n := runtime.Stack(b[:], false)
	// "goroutine 123 [running]:"
	var id int64
	for _, c := range b[len("goroutine "):n] {
		if c < '0' || c > '9' {
			break
		}
		id = id*10 + int64(c-'0')
	}
	return id
}

func (s *recStream) byteAt(pos int64) byte {
	switch s.mode {
	case 1:
		return 0
	case 2:
		return 0xff
	case 3: // only base32 letters
		return "ABCDEFGHIJKLMNOPQRSTUVWXYZ234567"[(uint64(pos)*2654435761+s.seed)>>7%32]
	case 4: // only hex digits
		return "0123456789abcdef"[(uint64(pos)*40503+s.seed)>>5%16]
	case 5: // only decimal digits
		return "0123456789"[(uint64(pos)*7919+s.seed)>>3%10]
	case 6: // printable ASCII
		return byte(0x20 + (uint64(pos)*104729+s.seed)>>4%95)
	case 7:
		return 'A'
	}
	blk := pos / 32
	b, ok := s.cache[blk]
	if !ok {
		var in [16]byte
		binary.BigEndian.PutUint64(in[:8], s.seed)
		binary.BigEndian.PutUint64(in[8:], uint64(blk))
		b = sha256.Sum256(in[:])
		s.cache[blk] = b
	}
	return b[pos%32]
}

func (s *recStream) Read(p []byte) (int, error) {
	if s.hold > 0 {
		s.mu.Lock()
		s.waiting++
		if s.waiting == s.hold {
			close(s.gate)
		}
		g := s.gate
		s.mu.Unlock()
		select {
		case <-g:
		case <-time.After(2 * time.Second):
		}
	}
	s.mu.Lock()
	defer s.mu.Unlock()
	if s.maxRd > 0 && len(p) > s.maxRd {
		p = p[:s.maxRd]
	}
	for i := range p {
		p[i] = s.byteAt(s.next + int64(i))
	}
	s.log = append(s.log, handout{s.next, int64(len(p)), s.seq, goid()})
	s.next += int64(len(p))
	s.seq++
	return len(p), nil
}
func (s *recStream) Seq() int64 {
	s.mu.Lock()
	defer s.mu.Unlock()
	return s.seq
}

type rsCall struct {
	algo       int
	text       string
	err        error
	pan        any
	start, end int64
	g          int
	gid        int64
}

type c08History struct {
	Seed       uint64 `json:"stream_seed"`
	Mode       int    `json:"stream_mode"`
	Goroutines int    `json:"goroutines"`
	Calls      int    `json:"calls_per_goroutine"`
	Procs      int    `json:"gomaxprocs"`
	MaxRead    int    `json:"max_bytes_per_read,omitempty"`
	Hold       int    `json:"callers_held_inside_the_source,omitempty"`
}

func runRSHistory(c *Ctx, h c08History) {
	r := c.R
	st := &recStream{seed: h.Seed, mode: h.Mode, cache: map[int64][32]byte{}, maxRd: h.MaxRead, hold: h.Hold, gate: make(chan struct{})}
	saved := crand.Reader
	crand.Reader = st
	calls := make([][]rsCall, h.Goroutines)
	var wg sync.WaitGroup
	for g := 0; g < h.Goroutines; g++ {
		wg.Add(1)
		go func(g int) {
			defer wg.Done()
			x := h.Seed*7919 + uint64(g)*104729
			for i := 0; i < h.Calls; i++ {
				x = x*6364136223846793005 + 1442695040888963407
				algo := int(x>>33) % 3
				if (x>>40)%11 == 0 && h.Hold == 0 {
					algo = 3 + int(x>>20)%253
				}
				k := rsCall{algo: algo, g: g, start: st.Seq(), gid: goid()}
				k.pan = monCatch(func() { k.text, k.err = otp.RandomSecret(otp.Algorithm(algo)) })
				k.end = st.Seq()
				calls[g] = append(calls[g], k)
			}
		}(g)
	}
	wg.Wait()
	crand.Reader = saved

	// offline oracle over the log
	st.mu.Lock()
	log := append([]handout(nil), st.log...)
	st.mu.Unlock()
	flat := make([]byte, st.next) // the stream as handed out, materialised once for the offline checker
	for i := range flat {
		flat[i] = st.byteAt(int64(i))
	}
	used := map[int64]int{} // stream position -> call index (+1)
	sizes := map[int]int{0: 20, 1: 32, 2: 64}
	ci := 0
	viol := func(cls, what string, k rsCall, exp, obs string) {
		r.Violate("C08|RandomSecret|"+cls+"|", what, "rshistory", h, exp, fmt.Sprintf("%s (goroutine %d, algo %d, text %q)", obs, k.g, k.algo, k.text))
	}
	for g := range calls {
		for _, k := range calls[g] {
			ci++
			r.Eval(1)
			if k.pan != nil {
				viol("panic", "RandomSecret panics", k, "a secret or an error", panicStr(k.pan))
				continue
			}
			size, supported := sizes[k.algo]
			if !supported {
				r.Nontrivial(fmt.Sprintf("unsupported|%d", k.algo))
				if k.err == nil || k.text != "" {
					viol("unsupported-hash", "an unsupported hash does not yield an error and no secret", k, "(\"\", error)", fmt.Sprintf("(%q, %v)", k.text, k.err))
				}
				continue
			}
			if k.err != nil {
				viol("error", "RandomSecret fails although the source delivered", k, "a secret", "error: "+k.err.Error())
				continue
			}
			d, derr := ref.Base32Decode(k.text)
			if derr != nil || ref.Base32EncodeNoPad(d) != k.text {
				viol("encoding", "the secret is not upper-case unpadded RFC 4648 base32", k, "upper-case unpadded base32", fmt.Sprintf("decode error %v", derr))
				continue
			}
			if len(d) != size {
				viol("length", "the secret does not have the hash's length (20/32/64 bytes)", k, fmt.Sprint(size, " bytes"), fmt.Sprint(len(d), " bytes"))
				continue
			}
			lb, lerr, lpan := callDecode(k.text)
			if lpan != nil || lerr != nil || hexs(lb) != hexs(d) {
				viol("decode-roundtrip", "secret decoding does not map the text back to the bytes", k, hexs(d), fmt.Sprintf("%x err=%v", lb, lerr))
			}
			r.Nontrivial("secret|" + k.text)
			// stream positions handed out during this call's window
			// the log is ordered by sequence number (log[i].seq == i): the call window is a sub-slice
			var win []handout
			var handed int64
			if k.start >= 0 && k.end <= int64(len(log)) && k.start <= k.end {
				win = log[k.start:k.end]
			}
			for _, ho := range win {
				handed += ho.n
			}
			r.Count("source_bytes_handed_out_in_call_windows", int(handed))
			// the bytes this call received: hand-outs made to the calling goroutine inside the call window, in order.
			// (Attribution by goroutine avoids judging a secret against bytes delivered to concurrent calls; if the
			// library read through another goroutine the whole window is used instead.)
			var ownPos []int64
			for _, ho := range win {
				if ho.gid == k.gid {
					for q := ho.off; q < ho.off+ho.n; q++ {
						ownPos = append(ownPos, q)
					}
				}
			}
			if len(ownPos) == 0 {
				for _, ho := range win {
					for q := ho.off; q < ho.off+ho.n; q++ {
						ownPos = append(ownPos, q)
					}
				}
				r.Count("calls_judged_against_whole_window", 1)
			}
			if len(ownPos) == len(d) {
				// the normal case: the call received exactly as many bytes as the secret holds — they must be those bytes, in order
				for i := range d {
					if flat[ownPos[i]] != d[i] {
						viol("not-from-source", "the secret is not the bytes the random source delivered to this call, unmodified and in order", k, hexs(func() []byte {
							w := make([]byte, len(d))
							for j := range w {
								w[j] = flat[ownPos[j]]
							}
							return w
						}()), hexs(d))
						break
					}
				}
				r.Count("secrets_compared_exactly_with_delivered_bytes", 1)
				continue
			}
			if h.Mode != 0 {
				viol("not-from-source", "the call did not receive exactly as many source bytes as the secret holds (restricted-alphabet stream: segments cannot be matched by content)", k, fmt.Sprint(len(d), " bytes"), fmt.Sprint(len(ownPos), " bytes received"))
				continue
			}
			// decompose d into in-order segments (>= 4 bytes, or the remainder) of the received bytes
			pos, from := 0, 0
			okAll := true
			for pos < len(d) {
				best, bestI := 0, -1
				for i := from; i < len(ownPos); i++ {
					l := 0
					for pos+l < len(d) && i+l < len(ownPos) && flat[ownPos[i+l]] == d[pos+l] {
						l++
					}
					if l > best {
						best, bestI = l, i
					}
					if best == len(d)-pos {
						break
					}
				}
				if best == 0 || (best < 4 && best < len(d)-pos) {
					okAll = false
					break
				}
				for i := 0; i < best; i++ {
					p := ownPos[bestI+i]
					if prev, dup := used[p]; dup {
						viol("source-byte-reused", "a byte of the random source feeds two secrets (or one secret twice)", k, "each source byte used once", fmt.Sprintf("stream position %d already used by call #%d", p, prev))
					}
					used[p] = ci
				}
				r.Count("source_segments_matched", 1)
				pos += best
				from = bestI + best // in order: a later part of the secret comes from later received bytes
			}
			if !okAll {
				// distinguish "bytes of another call" from "not source bytes at all" for the witness
				viol("not-from-source", "the secret's bytes are not (unmodified, in order, each once) the bytes the random source delivered to this call", k, "bytes received by this call", hexs(d))
			}
		}
	}
	r.Count("histories", 1)
	r.Count("source_reads_logged", len(log))
	if r.WantSample() {
		var ex []string
		for g := range calls {
			for i, k := range calls[g] {
				if i < 2 && g < 2 {
					ex = append(ex, fmt.Sprintf("g%d algo=%d -> %q err=%v", g, k.algo, k.text, k.err))
				}
			}
		}
		r.Sample(map[string]any{"history": h, "first_calls": ex, "source_reads": len(log)})
	}
}

var _ io.Reader = (*recStream)(nil)

func c08Concurrent(c *Ctx) []c08History {
	rng := c.RNG.Fork(88)
	var hs []c08History
	for _, g := range []int{2, 4, 16, 64} {
		for rep := 0; rep < c.N(1, 4); rep++ {
			hs = append(hs, c08History{Seed: rng.U64(), Mode: 0, Goroutines: g, Calls: c.N(400, 10000) / g * 4})
		}
	}
	hs = append(hs, c08History{Seed: rng.U64(), Mode: 1, Goroutines: 8, Calls: 100})
	hs = append(hs, c08History{Seed: rng.U64(), Mode: 0, Goroutines: 8, Calls: 200, MaxRead: 13})
	// hundreds / thousands of calls in flight at once (all held inside a slow source), one call per goroutine
	for _, g := range []int{300, 1000, c.N(2000, 5000)} {
		hs = append(hs, c08History{Seed: rng.U64(), Mode: 0, Goroutines: g, Calls: 1, Hold: g})
	}
	return hs
}

func init() {
	childParts["C08/concurrent"] = func(c *Ctx, arg json.RawMessage) {
		for _, h := range c08Concurrent(c) {
			runRSHistory(c, h)
		}
		c.R.Extra["race_detector_enabled_in_child"] = raceEnabled
	}
	register(&Prop{
		ID: "C08",
		Rule: "crypto/rand.Reader is replaced by a recording position-unique keystream (also all-zero and all-0xFF streams); histories of RandomSecret calls (sequential, and 2..64 goroutines in a -race child process; all three hashes and unsupported enum values) are executed and checked offline: each secret is upper-case unpadded base32 of exactly 20/32/64 bytes, those bytes are contiguous segments of stream positions handed out during the call, no stream position feeds two secrets, DecodeSecret maps the text back, unsupported hashes give (\"\", error); " +
			"distinct_nontrivial counts distinct secrets returned plus distinct unsupported enum values probed",
		Run: func(c *Ctx) {
			rng := c.RNG.Fork(8)
			var hs []c08History
			hs = append(hs, c08History{Seed: rng.U64(), Mode: 0, Goroutines: 1, Calls: c.N(1000, 5000), Procs: 0})
			hs = append(hs, c08History{Seed: rng.U64(), Mode: 1, Goroutines: 1, Calls: 200}, c08History{Seed: rng.U64(), Mode: 2, Goroutines: 1, Calls: 200})
			for _, mr := range []int{1, 7, 16, 48, 63} {
				hs = append(hs, c08History{Seed: rng.U64(), Mode: 0, Goroutines: 1, Calls: 120, MaxRead: mr})
			}
			hs = append(hs, c08History{Seed: rng.U64(), Mode: 2, Goroutines: 1, Calls: 60, MaxRead: 5})
			// sources whose bytes all lie in a restricted alphabet (still legal output of a random source)
			for mode := 3; mode <= 7; mode++ {
				hs = append(hs, c08History{Seed: rng.U64(), Mode: mode, Goroutines: 1, Calls: 150}, c08History{Seed: rng.U64(), Mode: mode, Goroutines: 1, Calls: 60, MaxRead: 11})
			}
			for _, h := range hs {
				runRSHistory(c, h)
			}
			// all 253 unsupported values, sequentially
			for a := 3; a < 256; a++ {
				var text string
				var err error
				pan := monCatch(func() { text, err = otp.RandomSecret(otp.Algorithm(a)) })
				c.R.Eval(1)
				c.R.Nontrivial(fmt.Sprintf("unsupported|%d", a))
				if pan != nil || err == nil || text != "" {
					c.R.Violate("C08|RandomSecret|unsupported-hash|", "an unsupported hash does not yield an error and no secret", "none", a, "(\"\", error)", fmt.Sprintf("(%q, %v) panic=%v", text, err, pan))
				}
			}
			res := runChildPart(c, "VERIF_RACE_BIN", "concurrent", nil, 10*time.Minute)
			if res.Ran && res.ExitErr != nil {
				c.R.Inconclusive("concurrent histories child failed: " + fmt.Sprint(res.ExitErr) + " " + res.Output)
			}
			judgeRaceReports(c, res, "none", nil)
		},
		Replay: func(c *Ctx, kind string, raw json.RawMessage) error {
			if kind != "rshistory" {
				return fmt.Errorf("kind %q has no single-case replay", kind)
			}
			return replayAs(raw, func(h c08History) { runRSHistory(c, h) })
		},
	})
}
