package props

import (
	"encoding/json"
	"fmt"
	"github.com/ja7ad/otp"
	"strings"

	"verifh/gen"
	"verifh/ref"
)

// ---- C06: OCRA validation accepts a string iff generation returns it ----

type ocraVCase struct {
	Base      ocraCase `json:"base"`
	Submitted []string `json:"submitted_hex"`
}

// presentDirty returns the same field contents, each as a window (len = content) into its own larger buffer whose
// bytes behind the window are non-zero.
func presentDirty(in otp.OCRAInput) otp.OCRAInput {
	w := func(b []byte) []byte {
		if b == nil {
			return nil
		}
		buf := make([]byte, len(b)+300)
		for i := range buf {
			buf[i] = 0xEE ^ byte(i)
		}
		copy(buf, b)
		return buf[:len(b)]
	}
	return otp.OCRAInput{Counter: w(in.Counter), Challenge: w(in.Challenge), Password: w(in.Password), SessionInfo: w(in.SessionInfo), Timestamp: w(in.Timestamp)}
}

func judgeOCRAV(c *Ctx, k ocraVCase) {
	r := c.R
	b := k.Base
	in := toOCRAInput(b.Input.ref())
	suite, serr, pan := makeSuite(b.Via, b.Suite)
	if pan != nil {
		if r.Prop == "C06" {
			r.Violate("C06|"+b.Via+"|panic|", "constructing the suite panics", "ocrav", k, "a suite or an error", panicStr(pan))
		}
		return
	}
	if serr != nil || suite == nil {
		return // no suite value to validate against (constructor refused)
	}
	// "the same data" may reach generation and validation in different containers: in two of three cases one side gets
	// every field as a window into a larger buffer whose spare capacity holds other (non-zero) bytes, the other side exact copies
	genIn, valIn := in, in
	switch (len(b.Secret) + len(b.Suite.Raw) + b.Suite.Digits + len(in.Challenge)) % 3 {
	case 1:
		genIn = presentDirty(in)
	case 2:
		valIn = presentDirty(in)
	}
	g, gerr, gpan := callGenerateOCRA(b.Secret, suite, genIn)
	in = valIn
	r.Eval(1)
	if gpan != nil {
		if r.Prop == "C06" {
			r.Violate("C06|GenerateOCRA|panic|", "GenerateOCRA panics", "ocrav", k, "a code or an error", panicStr(gpan))
		}
		return
	}
	subs := append([]string{}, k.Submitted...)
	if gerr == nil {
		subs = append(subs, hexs([]byte(g)))
		// single-character edits, truncation, extension of the library's own code
		for i := 0; i < len(g); i++ {
			e := []byte(g)
			e[i] = '0' + (e[i]-'0'+1+byte(i%9))%10
			subs = append(subs, hexs(e))
		}
		if len(g) > 0 {
			subs = append(subs, hexs([]byte(g[:len(g)-1])), hexs([]byte(g[1:])))
		}
		for _, h := range gen.HostileCodes(gen.New(uint64(len(g))*7919+uint64(g[0])), g) {
			subs = append(subs, hexs([]byte(h)))
		}
		subs = append(subs, hexs([]byte(g+"0")), hexs([]byte(" "+g)), hexs([]byte(g+" ")), hexs([]byte(strings.Repeat("０", 1)+g[min(1, len(g)):])))
	}
	for _, sh := range subs {
		s := string(unhex(sh))
		ok, err, pan := callValidateOCRA(b.Secret, s, suite, in)
		r.Eval(1)
		if pan != nil {
			if r.Prop == "C06" {
				cls := "generation-succeeds"
				if gerr != nil {
					cls = "generation-fails"
				}
				r.Violate("C06|ValidateOCRA|panic|"+cls, "ValidateOCRA panics ("+cls+")", "ocrav", k, "(false, error) or a verdict", panicStr(pan))
			}
			continue
		}
		pairRule(c, "ValidateOCRA", ok, err, "ocrav", k)
		if r.Prop == "C13" {
			key := unhex(b.KeyHex)
			leakCheck(c, "ValidateOCRA", err, b.Secret, key, func() []string {
				if gerr == nil && len(g) >= 6 {
					return []string{g}
				}
				return nil
			}, "ocrav", k)
			continue
		}
		if gerr != nil {
			r.Nontrivial(fmt.Sprintf("f|%s|%s|%s", mustJSON(b), sh, errClass(gerr)))
			if ok || err == nil {
				r.Violate("C06|ValidateOCRA|no-error-when-generation-fails|", "generation fails for this data but validation does not return (false, error)", "ocrav", k, "(false, error); generation error: "+gerr.Error(), fmt.Sprintf("(%v, %v) for submitted %q", ok, err, s))
			}
			continue
		}
		want := s == g
		if want || len(s) == len(g) {
			r.Nontrivial(fmt.Sprintf("v|%s|%s", mustJSON(b), sh))
		}
		if ok != want {
			cls := "rejects-generated-code"
			if !want {
				cls = "accepts-other-string"
			}
			r.Violate("C06|ValidateOCRA|"+cls+"|", "ValidateOCRA "+cls, "ocrav", k, fmt.Sprintf("%v (generation returns %q)", want, g), fmt.Sprintf("(%v, %v) for submitted %q", ok, err, s))
		}
	}
	if r.WantSample() {
		r.Sample(map[string]any{"case": b, "generated": g, "generation_error": fmt.Sprint(gerr), "submitted": len(subs)})
	}
}

// neighbours: codes generated (by the reference) for a neighbouring counter,
// challenge, timestamp and sibling suite.
func neighbourCodes(key []byte, model ref.Suite, in ref.Input) []string {
	var out []string
	add := func(m ref.Suite, i ref.Input) {
		if ref.SuiteUsable(m) && ref.Admit(m, i) {
			out = append(out, hexs([]byte(ref.OCRA(key, m, i))))
		}
	}
	bump := func(b []byte, d byte) []byte {
		if len(b) == 0 {
			return b
		}
		x := append([]byte{}, b...)
		x[len(x)-1] += d
		return x
	}
	if model.C {
		i := in
		i.Counter = bump(in.Counter, 1)
		add(model, i)
	}
	if model.Q {
		i := in
		i.Challenge = bump(in.Challenge, 1)
		add(model, i)
	}
	if model.T {
		i := in
		i.Timestamp = bump(in.Timestamp, 1)
		add(model, i)
		i.Timestamp = bump(in.Timestamp, 255)
		add(model, i)
	}
	m := model
	m.Hash = (model.Hash + 1) % 3
	add(m, in)
	m = model
	m.Digits = model.Digits + 1
	if m.Digits > 10 {
		m.Digits = model.Digits - 1
	}
	add(m, in)
	return out
}

// breakCase derives cases where generation must fail: undecodable secret, each
// unusable-suite rule, each inadmissible-input rule.
func breakCases(rng *gen.RNG, k ocraCase, model ref.Suite) []ocraCase {
	var out []ocraCase
	bad := k
	bad.Secret = k.Secret + "!"
	bad.Note = "undecodable secret"
	out = append(out, bad)
	bad = k
	bad.Secret = "M"
	bad.Note = "undecodable secret (impossible length)"
	out = append(out, bad)
	in := k.Input.ref()
	mut := func(note string, f func(i *ref.Input)) {
		b := k
		i := in
		f(&i)
		b.Input = inputToJ(i)
		b.Note = note
		out = append(out, b)
	}
	if model.C {
		mut("counter 7 bytes", func(i *ref.Input) { i.Counter = make([]byte, 7) })
		mut("counter nil", func(i *ref.Input) { i.Counter = nil })
	}
	if model.Q {
		mut("challenge too short", func(i *ref.Input) { i.Challenge = make([]byte, 7) })
		mut("challenge 129 bytes", func(i *ref.Input) { i.Challenge = make([]byte, 129) })
	}
	if model.P {
		mut("password wrong length", func(i *ref.Input) { i.Password = make([]byte, 21) })
		mut("password missing", func(i *ref.Input) { i.Password = nil })
	}
	if model.S {
		mut("session 129 bytes", func(i *ref.Input) { i.Session = make([]byte, 129) })
	}
	if model.T {
		mut("timestamp 9 bytes", func(i *ref.Input) { i.Timestamp = make([]byte, 9) })
	}
	if k.Via == viaBare || k.Via == viaRawValue || k.Via == viaEdited || k.Via == viaPointer {
		ms := func(note string, f func(s *ref.Suite)) {
			b := k
			f(&b.Suite)
			b.Note = note
			out = append(out, b)
		}
		ms("digits 3", func(s *ref.Suite) { s.Digits = 3 })
		ms("digits 11", func(s *ref.Suite) { s.Digits = 11 })
		ms("digits 0", func(s *ref.Suite) { s.Digits = 0 })
		ms("digits -1", func(s *ref.Suite) { s.Digits = -1 })
		ms("hash 3", func(s *ref.Suite) { s.Hash = 3 })
		ms("hash 200", func(s *ref.Suite) { s.Hash = 200 })
		ms("challenge selected without format", func(s *ref.Suite) { s.Q = true; s.Challenge = 0 })
		ms("password selected without hash", func(s *ref.Suite) { s.P = true; s.PasswordHash = 0 })
		ms("timestamp selected without step", func(s *ref.Suite) { s.T = true; s.TimeStep = 0 })
		ms("timestamp selected with negative step", func(s *ref.Suite) { s.T = true; s.TimeStep = -5 })
	}
	return out
}

func c06Cases(c *Ctx, emit func(ocraVCase)) {
	rng := c.RNG.Fork(6)
	sub := *c
	sub.RNG = c.RNG.Fork(66)
	stride := 3
	i := -1
	c05Cases(&sub, func(k ocraCase) {
		if k.Note != "" {
			return
		}
		i++
		if i%stride != 0 {
			return
		}
		model := k.Suite
		if k.Via == viaRaw {
			m, ok := ref.ParseSuiteName(k.Suite.Raw)
			if !ok {
				return
			}
			model = m
		}
		key := unhex(k.KeyHex)
		in := k.Input.ref()
		v := ocraVCase{Base: k}
		v.Submitted = append(v.Submitted, neighbourCodes(key, model, in)...)
		v.Submitted = append(v.Submitted, "", hexs([]byte(strings.Repeat("0", model.Digits))), hexs(rng.Bytes(model.Digits)), hexs(rng.Bytes(rng.Intn(30))))
		emit(v)
		if i%(stride*4) == 0 {
			for _, bk := range breakCases(rng, k, model) {
				emit(ocraVCase{Base: bk, Submitted: []string{"", hexs([]byte(strings.Repeat("0", model.Digits))), hexs([]byte(ref.OCRA(key, safeModel(model), safeInput(model, in)))), hexs([]byte("12345"))}})
			}
		}
	})
}

// c06RecutHistory: validation with one secret and suite; the base input with its own code, then a re-cut of it
// (recutInputs) with the base's code (must be refused unless the codes happen to be equal) and its own, then the base again.
func c06RecutHistory(c *Ctx) {
	rng := c.RNG.Fork(613)
	for rep := 0; rep < c.N(4, 40); rep++ {
		for _, name := range recutSuites {
			m, ok := ref.ParseSuiteName(name)
			if !ok {
				continue
			}
			key := rng.Bytes(20)
			base := admissibleInput(rng, m, 35)
			base.Challenge = rng.Bytes(12 + rng.Intn(60))
			base.Session = rng.Bytes(1 + rng.Intn(60))
			mk := func(in ref.Input, subs ...string) ocraVCase {
				return ocraVCase{Base: ocraCase{KeyHex: hexs(key), Secret: ref.Base32EncodeNoPad(key), Via: viaRaw, Suite: ref.Suite{Raw: name}, Input: inputToJ(in), Note: "re-cut history"}, Submitted: hexAll(subs)}
			}
			baseCode := ref.OCRA(key, m, base)
			for _, v := range recutInputs(m, base) {
				judgeOCRAV(c, mk(base, baseCode))
				judgeOCRAV(c, mk(v, baseCode, ref.OCRA(key, m, v)))
				c.R.Count("recut_history_calls", 2)
			}
			judgeOCRAV(c, mk(base, baseCode))
		}
	}
}

func safeModel(m ref.Suite) ref.Suite {
	if !ref.SuiteUsable(m) {
		return ref.Suite{Hash: 0, Digits: 6, C: true}
	}
	return m
}
func safeInput(m ref.Suite, in ref.Input) ref.Input {
	if !ref.SuiteUsable(m) || !ref.Admit(m, in) {
		return ref.Input{Counter: make([]byte, 8)}
	}
	return in
}

func init() {
	register(&Prop{
		ID: "C06",
		Rule: "for the C05 suite/input population plus derived failure cases (undecodable secret, each way a suite is unusable, each way an input is inadmissible): GenerateOCRA is run, then ValidateOCRA on the generated code, its single-character edits, truncations/extensions, padded variants, reference codes of a neighbouring counter/challenge/timestamp/sibling suite, '', zeros and random bytes; verdict must equal (submitted == generated), or (false, error) whenever generation fails; a one-goroutine history per suite with challenge and session: the base input, then inputs whose unpadded concatenation is the same byte string cut at other field boundaries, or exchanged between fields, each with the base's code and its own (observed.recut_history_calls), and one set of caller-owned buffers rewritten in place between calls (observed.reused_buffer_history_calls); " +
			"distinct_nontrivial counts distinct (case, submitted) pairs where the submitted string is the generated code or has its length, plus distinct (failing case, submitted) pairs",
		Run: func(c *Ctx) {
			b := newBatcher(c, judgeOCRAV, 0)
			c06Cases(c, b.add)
			b.flush()
			c06RecutHistory(c)
			c05ReusedBuffers(c, true)
		},
		Replay: func(c *Ctx, kind string, raw json.RawMessage) error {
			return replayAs(raw, func(k ocraVCase) { judgeOCRAV(c, k) })
		},
	})
}
