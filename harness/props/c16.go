package props

import (
	"encoding/json"
	"fmt"
	"math/big"
	"net/url"
	"regexp"
	"strings"
	"unicode/utf8"

	"github.com/ja7ad/otp"

	"verifh/gen"
	"verifh/ref"
)

// ---- C16: otpauth URLs round-trip ----

type urlCase struct {
	Kind    string `json:"kind"` // "totp" | "hotp"
	Issuer  string `json:"issuer"`
	Account string `json:"account"`
	Secret  string `json:"secret"`
	Digits  uint8  `json:"digits"`
	Algo    uint8  `json:"algo"`
	Period  uint64 `json:"period"`
}

func judgeURL(c *Ctx, k urlCase) {
	r := c.R
	p := otp.URLParam{Issuer: k.Issuer, AccountName: k.Account, Secret: k.Secret, Digits: otp.Digits(k.Digits), Algorithm: otp.Algorithm(k.Algo), Period: uint(k.Period)}
	var u *url.URL
	var err error
	pan := monCatch(func() {
		if k.Kind == "totp" {
			u, err = otp.GenerateTOTPURL(p)
		} else {
			u, err = otp.GenerateHOTPURL(p)
		}
	})
	r.Eval(1)
	op := "Generate" + strings.ToUpper(k.Kind) + "URL"
	if pan != nil {
		r.Violate("C16|"+op+"|panic|", op+" panics", "url", k, "a URL", panicStr(pan))
		return
	}
	if err != nil || u == nil {
		r.Violate("C16|"+op+"|error|", op+" fails for non-empty issuer/account/secret", "url", k, "a URL", fmt.Sprint(err))
		return
	}
	var text string
	if p := monCatch(func() { text = u.String() }); p != nil {
		// the standard library cannot even render the returned value (e.g. its strings changed under it)
		r.Violate("C16|"+op+"|returned-url-unusable|", "rendering the returned URL with (*url.URL).String panics", "url", k, "a URL text", panicStr(p))
		return
	}
	r.Nontrivial("u|" + mustJSON(k))
	wantDigits := int(k.Digits)
	if wantDigits == 0 {
		wantDigits = 6
	}
	wantPeriod := k.Period
	if wantPeriod == 0 {
		wantPeriod = 30
	}
	wantAlgo := []string{"SHA1", "SHA256", "SHA512"}[k.Algo]
	// (1) the text, decoded independently per RFC 3986
	o, perr := ref.ParseOTPAuth(text)
	if perr != nil {
		r.Violate("C16|"+op+"|text-not-parseable|", "the URL text is not a well-formed otpauth URL", "url", k, "otpauth://TYPE/LABEL?query", text+" ("+perr.Error()+")")
		return
	}
	if !strings.HasPrefix(text, "otpauth://") || o.Type != k.Kind {
		r.Violate("C16|"+op+"|scheme-or-type|", "scheme is not otpauth or type is not "+k.Kind, "url", k, "otpauth://"+k.Kind+"/…", text)
	}
	if !o.HasColon || o.Issuer != k.Issuer || o.Account != k.Account {
		cls := "label"
		if o.Issuer == ref.PctEncode(k.Issuer) || strings.Contains(o.Issuer, "%") && !strings.Contains(k.Issuer, "%") {
			cls = "label-escaped-twice"
		}
		r.Violate("C16|"+op+"|"+cls+"|", "the label of the URL text does not decode to issuer:account", "url", k, fmt.Sprintf("%q : %q", k.Issuer, k.Account), fmt.Sprintf("%q : %q   (text %s)", o.Issuer, o.Account, text))
	}
	if o.Query["issuer"] != k.Issuer {
		r.Violate("C16|"+op+"|issuer-parameter|", "the issuer parameter differs from the issuer", "url", k, k.Issuer, o.Query["issuer"])
	}
	if o.Query["secret"] != k.Secret {
		r.Violate("C16|"+op+"|secret-parameter|", "the secret parameter differs from the secret", "url", k, k.Secret, o.Query["secret"])
	}
	if o.Query["digits"] != fmt.Sprint(wantDigits) || o.Query["algorithm"] != wantAlgo {
		r.Violate("C16|"+op+"|digits-or-algorithm-parameter|", "digits/algorithm parameters differ from the input", "url", k, fmt.Sprintf("digits=%d algorithm=%s", wantDigits, wantAlgo), fmt.Sprintf("digits=%s algorithm=%s", o.Query["digits"], o.Query["algorithm"]))
	}
	if k.Kind == "totp" && o.Query["period"] != fmt.Sprint(wantPeriod) {
		r.Violate("C16|"+op+"|period-parameter|", "the period parameter differs from the input (0 meaning 30)", "url", k, fmt.Sprint(wantPeriod), o.Query["period"])
	}
	// (2) the library's own parser on the re-parsed text
	var back *otp.URLParam
	var berr error
	pan = monCatch(func() {
		pu, e := url.Parse(text)
		if e != nil {
			berr = e
			return
		}
		back, berr = otp.ParseOTPAuthURL(pu)
	})
	r.Eval(1)
	if pan != nil || berr != nil || back == nil {
		r.Violate("C16|ParseOTPAuthURL|generated-url-rejected|", "parsing the generated URL text fails", "url", k, "the input parameters", fmt.Sprintf("err=%v panic=%v text=%s", berr, pan, text))
		return
	}
	var diffs []string
	if back.Issuer != k.Issuer {
		diffs = append(diffs, fmt.Sprintf("issuer %q != %q", back.Issuer, k.Issuer))
	}
	if back.AccountName != k.Account {
		diffs = append(diffs, fmt.Sprintf("account %q != %q", back.AccountName, k.Account))
	}
	if back.Secret != k.Secret {
		diffs = append(diffs, fmt.Sprintf("secret %q != %q", back.Secret, k.Secret))
	}
	if int(back.Digits) != wantDigits {
		diffs = append(diffs, fmt.Sprintf("digits %d != %d", back.Digits, wantDigits))
	}
	if int(back.Algorithm) != int(k.Algo) {
		diffs = append(diffs, fmt.Sprintf("algorithm %d != %d", back.Algorithm, k.Algo))
	}
	if k.Kind == "totp" && uint64(back.Period) != wantPeriod {
		diffs = append(diffs, fmt.Sprintf("period %d != %d", back.Period, wantPeriod))
	}
	if len(diffs) > 0 {
		cls := "roundtrip"
		if strings.Contains(back.Issuer, "%") && !strings.Contains(k.Issuer, "%") || strings.Contains(back.AccountName, "%") && !strings.Contains(k.Account, "%") {
			cls = "label-escaped-twice"
		}
		r.Violate("C16|ParseOTPAuthURL|"+cls+"|", "parsing the generated URL does not return its input", "url", k, mustJSON(k), strings.Join(diffs, "; ")+"   (text "+text+")")
	}
	if r.WantSample() {
		r.Sample(map[string]any{"case": k, "url": text})
	}
}

// parse-only clause
type parseCase struct {
	Text string `json:"text"`
	// what the text says
	DigitsText string `json:"digits_text"`
	PeriodText string `json:"period_text"`
	HasDigits  bool   `json:"has_digits"`
	HasPeriod  bool   `json:"has_period"`
	MustParse  bool   `json:"must_parse"`
	// Repeated: the texts of a parameter written twice (DigitsText / PeriodText unused then)
	Repeated []string `json:"repeated,omitempty"`
}

var intRe = regexp.MustCompile(`^[+-]?[0-9]+$`)

func numberWritten(s string) (*big.Int, bool) {
	if !intRe.MatchString(s) {
		return nil, false
	}
	v, ok := new(big.Int).SetString(s, 10)
	return v, ok
}

func judgeParse(c *Ctx, k parseCase) {
	r := c.R
	var back *otp.URLParam
	var err error
	pan := monCatch(func() {
		pu, e := url.Parse(k.Text)
		if e != nil {
			err = e
			return
		}
		back, err = otp.ParseOTPAuthURL(pu)
	})
	r.Eval(1)
	r.Nontrivial("p|" + k.Text)
	if pan != nil {
		r.Violate("C16|ParseOTPAuthURL|panic|", "ParseOTPAuthURL panics", "parse", k, "params or an error", panicStr(pan))
		return
	}
	if err != nil || back == nil {
		if k.MustParse {
			r.Violate("C16|ParseOTPAuthURL|valid-url-rejected|", "a valid otpauth URL is rejected", "parse", k, "params", fmt.Sprint(err))
		}
		return
	}
	check := func(field, text string, got uint64, def uint64) {
		if text == "" {
			if got != def {
				r.Violate("C16|ParseOTPAuthURL|default-"+field+"|", "absent "+field+" does not give the default", "parse", k, fmt.Sprint(def), fmt.Sprint(got))
			}
			return
		}
		v, isNum := numberWritten(text)
		if !isNum {
			if got != def { // not a number: failing or the default are both accepted
				r.Violate("C16|ParseOTPAuthURL|non-numeric-"+field+"|", "non-numeric "+field+" text yields a number", "parse", k, "failure or default", fmt.Sprint(got))
			}
			return
		}
		g := new(big.Int).SetUint64(got)
		if g.Cmp(v) == 0 || (v.Sign() == 0 && got == def) {
			return
		}
		cls, what := "out-of-range-"+field+"-wrapped", "ParseOTPAuthURL returns a wrapped or truncated "+field+" instead of failing"
		if got == def {
			cls, what = field+"-parameter-silently-ignored", "ParseOTPAuthURL reports the default "+field+" although the URL writes another number (the parameter was dropped without an error)"
		}
		r.Violate("C16|ParseOTPAuthURL|"+cls+"|", what, "parse", k, "failure or exactly "+text, fmt.Sprint(got))
	}
	if len(k.Repeated) > 0 {
		field, got, def := "digits", uint64(back.Digits), uint64(6)
		if k.HasPeriod {
			field, got, def = "period", uint64(back.Period), uint64(30)
		}
		okv, anyNumber := false, false
		for _, t := range k.Repeated {
			if v, isNum := numberWritten(t); isNum {
				anyNumber = true
				if new(big.Int).SetUint64(got).Cmp(v) == 0 {
					okv = true
				}
			}
		}
		if anyNumber && !okv || !anyNumber && got != def {
			r.Violate("C16|ParseOTPAuthURL|repeated-"+field+"-parameter|", "with a "+field+" parameter written twice, ParseOTPAuthURL succeeds with a number that is none of those written", "parse", k, "failure or one of "+strings.Join(k.Repeated, " / "), fmt.Sprint(got))
		}
		return
	}
	if k.HasDigits {
		check("digits", k.DigitsText, uint64(back.Digits), 6)
	}
	if k.HasPeriod {
		check("period", k.PeriodText, uint64(back.Period), 30)
	}
	if r.WantSample() {
		r.Sample(map[string]any{"text": k.Text, "parsed": back})
	}
}

func validUTF8(s string) bool { return utf8.ValidString(s) }

func c16Cases(c *Ctx, emit func(urlCase)) {
	rng := c.RNG.Fork(16)
	fixed := [][2]string{{"My Company", "alice@example.com"}, {"Example", "alice"}, {"a%20b", "c%2Fd"}, {"100%", "50%"}, {"x/y", "p/q"}, {"q?r", "s#t"}, {"a&b=c", "d+e"}, {"é日本", "🙂"}, {"%", "%"}, {"%zz", "%2"}, {" ", " "}, {"i", "a:b:c"}, {"i", ":"}, {"+", "+"}, {"a b", "c d"}, {"//", "//"}, {".", ".."}, {"I", "@"}}
	for _, f := range fixed {
		for _, kind := range []string{"totp", "hotp"} {
			emit(urlCase{Kind: kind, Issuer: f[0], Account: f[1], Secret: "JBSWY3DPEHPK3PXP", Digits: 6, Algo: 0, Period: 30})
			emit(urlCase{Kind: kind, Issuer: f[0], Account: f[1], Secret: f[0] + "=" + f[1], Digits: 0, Algo: 2, Period: 0})
		}
	}
	periods := []uint64{0, 1, 29, 30, 31, 60, 1 << 31}
	for i := 0; i < c.N(200000, 5000000); i++ {
		iss := gen.URLString(rng, false)
		acc := gen.URLString(rng, true)
		sec := ref.Base32EncodeNoPad(rng.Bytes(1 + rng.Intn(40)))
		switch rng.Intn(8) {
		case 0:
			sec = gen.URLString(rng, true)
		case 1: // the padded spelling ('=' is part of the secret text the caller supplied)
			sec = ref.Base32Encode(rng.Bytes(1 + rng.Intn(40)))
		case 2: // other accepted spellings: lower/mixed case, padding variants
			sec = gen.Spell(rng, ref.Base32Encode(rng.Bytes(1+rng.Intn(40))), rng.Intn(16))
		}
		if !validUTF8(iss) || !validUTF8(acc) || !validUTF8(sec) {
			continue
		}
		d := gen.Pick(rng, []int{0, 6, 7, 8, 9, 10, 1})
		if rng.Intn(4) == 0 {
			d = rng.Intn(256)
		}
		emit(urlCase{Kind: gen.Pick(rng, []string{"totp", "hotp"}), Issuer: iss, Account: acc, Secret: sec, Digits: uint8(d), Algo: uint8(rng.Intn(3)), Period: gen.Pick(rng, periods)})
	}
}

// c16Retained: a sequential history in which each generated URL is kept by the caller and rendered / parsed only
// after later calls (other URL generations with different parameters, OCRA and HOTP calls): the late rendering must
// still round-trip to the parameters it was generated from.
func c16Retained(c *Ctx, cases []urlCase) {
	if len(cases) == 0 {
		return
	}
	r := c.R
	rng := c.RNG.Fork(1616)
	type kept struct {
		u    *url.URL
		k    urlCase
		text string
	}
	var ring []kept
	suite := toCfg(ref.Suite{Raw: "OCRA-1:HOTP-SHA512-8:QH10-PSHA512-S", Hash: ref.SHA512, Digits: 8, Q: true, Challenge: ref.QH10, P: true, PasswordHash: ref.PSHA512, S: true})
	oin := otp.OCRAInput{Challenge: []byte("\xff\xfe\xfd\xfc\xfb"), Password: make([]byte, 64), SessionInfo: []byte("otpauth://totp/X:y?secret=ZZZZZZZZ&digits=1")}
	for i := 0; i < c.N(20000, 300000); i++ {
		k := cases[rng.Intn(len(cases))]
		if k.Issuer == "" || k.Account == "" || k.Secret == "" || k.Algo > 2 || (k.Digits != 0 && (k.Digits < 1 || k.Digits > 10)) {
			continue
		}
		p := otp.URLParam{Issuer: k.Issuer, AccountName: k.Account, Secret: k.Secret, Digits: otp.Digits(k.Digits), Algorithm: otp.Algorithm(k.Algo), Period: uint(k.Period)}
		var u *url.URL
		var err error
		var text string
		if monCatch(func() {
			if k.Kind == "totp" {
				u, err = otp.GenerateTOTPURL(p)
			} else {
				u, err = otp.GenerateHOTPURL(p)
			}
			if err == nil && u != nil {
				text = u.String()
			}
		}) != nil || err != nil || u == nil {
			continue // judged by the round-trip case
		}
		ring = append(ring, kept{u, k, text})
		if i%3 == 0 {
			monCatch(func() { otp.GenerateOCRA("GEZDGNBVGY3TQOJQGEZDGNBVGY3TQOJQ", suite, oin) })
		}
		if i%5 == 0 {
			monCatch(func() { otp.GenerateHOTP("GEZDGNBVGY3TQOJQ", uint64(i), nil) })
		}
		if len(ring) < 8 {
			continue
		}
		old := ring[rng.Intn(len(ring)-1)]
		ring = ring[1:]
		var late string
		pan := monCatch(func() { late = old.u.String() })
		r.Eval(1)
		if pan != nil || late != old.text {
			r.Violate("C16|Generate"+strings.ToUpper(old.k.Kind)+"URL|returned-url-changes-after-later-calls|", "a URL kept by the caller renders differently after later calls", "url", old.k, old.text, fmt.Sprintf("%s panic=%v", late, pan))
			continue
		}
		var back *otp.URLParam
		var perr error
		if monCatch(func() { back, perr = otp.ParseOTPAuthURL(old.u) }) == nil && perr == nil && back != nil {
			if back.Issuer != old.k.Issuer || back.AccountName != old.k.Account || back.Secret != old.k.Secret {
				r.Violate("C16|ParseOTPAuthURL|retained-url-roundtrip|", "parsing a retained URL after later calls does not return what it was generated from", "url", old.k, fmt.Sprintf("%q %q %q", old.k.Issuer, old.k.Account, old.k.Secret), fmt.Sprintf("%q %q %q", back.Issuer, back.AccountName, back.Secret))
			}
		}
		r.Count("retained_urls_rechecked", 1)
	}
}

func c16ParseCases(c *Ctx, emit func(parseCase)) {
	rng := c.RNG.Fork(161)
	nums := []string{"0", "1", "6", "8", "10", "30", "255", "256", "257", "262", "511", "512", "65535", "65536", "65542", "4294967295", "4294967296", "4294967302",
		"2147483647", "2147483648", "9223372036854775807", "9223372036854775808", "18446744073709551615", "18446744073709551616", "18446744073709551622",
		"-1", "-6", "-250", "-256", "-9223372036854775808", "-9223372036854775809", "+6", "+30", "06", "0030", "6.0", "6e0", "1e3", "0x10", " 6", "6 ", "six", "６", "", "NaN", "-", "+", "--6", "6,000"}
	for i := 0; i < c.N(400, 20000); i++ {
		nums = append(nums, fmt.Sprint(int64(rng.U64())), fmt.Sprint(rng.U64()), fmt.Sprint(256+rng.Intn(100000)))
	}
	for _, typ := range []string{"totp", "hotp", "TOTP", "Totp", "hOtP", "HOTP"} {
		emit(parseCase{Text: "otpauth://" + typ + "/Issuer:acc?secret=JBSWY3DPEHPK3PXP&issuer=Issuer", MustParse: true, HasDigits: true, HasPeriod: true})
		emit(parseCase{Text: "otpauth://" + typ + "/Issuer:acc?secret=JBSWY3DPEHPK3PXP&issuer=Issuer&digits=8&period=60&algorithm=sha256", MustParse: true, HasDigits: true, HasPeriod: true, DigitsText: "8", PeriodText: "60"})
	}
	// the number followed or preceded by something that makes the pair (or the whole query) malformed for a strict
	// query parser: the parse may fail, or read the number written - it must not silently report another number
	for _, n := range []string{"8", "7", "10", "60", "45", "300", "255", "256", "4294967302", "-5", "1"} {
		for _, junk := range [][2]string{{"", ";x=1"}, {"", "%"}, {"", "%zz"}, {"", "%2"}, {"x=1;", ""}, {"%zz=1;", ""}} {
			emit(parseCase{Text: "otpauth://totp/I:a?secret=AAAA&" + junk[0] + "digits=" + n + junk[1], DigitsText: n, HasDigits: true})
			emit(parseCase{Text: "otpauth://totp/I:a?secret=AAAA&" + junk[0] + "period=" + n + junk[1], PeriodText: n, HasPeriod: true})
			emit(parseCase{Text: "otpauth://hotp/I:a?" + junk[0] + "digits=" + n + junk[1] + "&secret=AAAA", DigitsText: n, HasDigits: true})
		}
	}
	// a parameter written more than once: the parse may fail, or return one of the numbers written; an empty first
	// occurrence must not make the parser report the default in place of the number that follows
	for _, pair := range [][2]string{{"", "8"}, {"8", ""}, {"7", "8"}, {"", "300"}, {"6", "300"}, {"", "-1"}, {"10", "10"}, {"", "60"}, {"45", "60"}} {
		for _, key := range []string{"digits", "period"} {
			text := "otpauth://totp/I:a?secret=AAAA&" + key + "=" + pair[0] + "&" + key + "=" + pair[1]
			k := parseCase{Text: text, Repeated: []string{pair[0], pair[1]}}
			if key == "digits" {
				k.HasDigits = true
			} else {
				k.HasPeriod = true
			}
			emit(k)
		}
	}
	for _, n := range nums {
		q := url.QueryEscape(n)
		emit(parseCase{Text: "otpauth://totp/I:a?secret=AAAA&digits=" + q, DigitsText: n, HasDigits: true, HasPeriod: true})
		emit(parseCase{Text: "otpauth://totp/I:a?secret=AAAA&period=" + q, PeriodText: n, HasPeriod: true, HasDigits: true})
		emit(parseCase{Text: "otpauth://hotp/I:a?secret=AAAA&digits=" + q + "&period=" + q, DigitsText: n, PeriodText: n, HasDigits: true, HasPeriod: true})
	}
}

func init() {
	register(&Prop{
		ID: "C16",
		Rule: "round trip: issuers (no colon), accounts and secrets (base32 in every accepted spelling - padded, lower/mixed case, white space - or text) drawn from Unicode incl. space % / ? # & = + @ and percent-escape look-alikes x digits 0..255 x 3 hashes x periods {0,1,29,30,31,60,2^31}; Generate{TOTP,HOTP}URL(p).String() is decoded by an independent RFC 3986 parser and by ParseOTPAuthURL(url.Parse(text)) and both must return the input; parse-only: hand-assembled URLs with digits/period texts over -2^63..2^64+, non-numeric and empty, and numbers followed/preceded by ';', '%', '%zz' (pairs a strict query parser rejects) must fail or return exactly the number written - never the default in its place; URLs kept by the caller are rendered and parsed again after later URL/OCRA/HOTP calls; type in any letter case; " +
			"a reduced differential against the same reference models also runs in a binary built for GOARCH=386 (32-bit int/uint; observed.evaluations_on_a_32bit_build); " +
			"distinct_nontrivial counts distinct parameter sets round-tripped plus distinct hand-assembled URL texts",
		Run: func(c *Ctx) {
			b := newBatcher(c, judgeURL, 50)
			c16Cases(c, b.add)
			b.flush()
			c16Retained(c, b.keep)
			runArch386(c)
			var ps []parseCase
			c16ParseCases(c, func(k parseCase) { ps = append(ps, k) })
			parallelJudge(c, ps, judgeParse)
			// nil URL
			pan := monCatch(func() { otp.ParseOTPAuthURL(nil) })
			if pan != nil {
				c.R.Violate("C16|ParseOTPAuthURL|panic|", "ParseOTPAuthURL(nil) panics", "none", nil, "an error", panicStr(pan))
			}
		},
		Replay: func(c *Ctx, kind string, raw json.RawMessage) error {
			switch kind {
			case "url":
				return replayAs(raw, func(k urlCase) { judgeURL(c, k) })
			case "parse":
				return replayAs(raw, func(k parseCase) { judgeParse(c, k) })
			}
			return fmt.Errorf("unknown kind %q", kind)
		},
	})
}
