// Package props: one file per property — workload generator + oracle ("judge")
// + replay of a single recorded case.
package props

import (
	"context"
	"encoding/hex"
	"encoding/json"
	"fmt"
	"os/exec"
	"runtime"
	"sort"
	"strings"
	"time"

	"verifh/gen"
	"verifh/mon"
)

type Ctx struct {
	R        *mon.Run
	Thorough bool
	Seed     int64
	RNG      *gen.RNG
	Workers  int
	Scale    int
	Env      map[string]string
}

type Prop struct {
	ID     string
	Rule   string
	Run    func(c *Ctx)
	Replay func(c *Ctx, kind string, raw json.RawMessage) error
}

var registry = map[string]*Prop{}

func register(p *Prop) { registry[p.ID] = p }

func Get(id string) *Prop { return registry[id] }

func IDs() []string {
	var ids []string
	for k := range registry {
		ids = append(ids, k)
	}
	sort.Strings(ids)
	return ids
}

// N returns the size of a seeded random workload for the current tier. Sizes are counts of cases
// (never time budgets); VERIF_SCALE multiplies them (default 1).
func (c *Ctx) N(quick, thorough int) int {
	n := quick
	if c.Thorough {
		n = thorough
	}
	if c.Scale > 0 {
		n *= c.Scale
	}
	return n
}

// batcher judges generated cases in chunks so that large workloads are never materialised as a whole.
type batcher[T any] struct {
	c     *Ctx
	buf   []T
	judge func(*Ctx, T)
	keep  []T // every keepEvery-th case, for follow-up sub-checks
	every int
	n     int
}

func newBatcher[T any](c *Ctx, judge func(*Ctx, T), keepEvery int) *batcher[T] {
	return &batcher[T]{c: c, judge: judge, every: keepEvery}
}
func (b *batcher[T]) add(k T) {
	b.buf = append(b.buf, k)
	b.n++
	if b.every > 0 && b.n%b.every == 0 {
		b.keep = append(b.keep, k)
	}
	if len(b.buf) >= 1<<16 {
		b.flush()
	}
}
func (b *batcher[T]) flush() {
	parallelJudge(b.c, b.buf, b.judge)
	b.buf = b.buf[:0]
}

func defaultWorkers() int {
	n := runtime.GOMAXPROCS(0)
	if n > 16 {
		n = 16
	}
	return n
}

func hexs(b []byte) string { return fmt.Sprintf("%x", b) }

func unhex(s string) []byte {
	b, _ := hex.DecodeString(s)
	return b
}

func replayAs[T any](raw json.RawMessage, f func(T)) error {
	var v T
	if err := json.Unmarshal(raw, &v); err != nil {
		return err
	}
	f(v)
	return nil
}

func panicStr(p any) string { return fmt.Sprintf("panic: %v", p) }

func monParallel(n, w int, fn func(i int)) { mon.ParallelFor(n, w, fn) }

func DefaultWorkers() int { return defaultWorkers() }

// ChildMain is the entry point of child-process batches (C04 huge-skew probes, C10 batches).
var childMains = map[string]func(args []string) int{}

func ChildMain(args []string) int {
	if len(args) == 0 {
		return 2
	}
	if f := childMains[args[0]]; f != nil {
		return f(args[1:])
	}
	return 2
}

func monCatch(f func()) any { return mon.Catch(f) }

// unusedField picks a value for a parameter field the operation under test does not use
// (Skew in generation, Period in HOTP): half the time 0, otherwise small, bound-adjacent and huge values.
func unusedField(x uint64) uint64 {
	x ^= x >> 33
	x *= 0xff51afd7ed558ccd
	x ^= x >> 29
	if x&1 == 0 {
		return 0
	}
	tab := []uint64{1, 2, 9, 10, 11, 12, 30, 100, 255, 1 << 16, 1<<31 - 1, 1 << 31, 1<<32 - 1, 1 << 32, 1<<63 - 1, 1 << 63, ^uint64(0)}
	return tab[(x>>1)%uint64(len(tab))]
}

// runArch386 runs the reduced differential of cmd/arch386 (built with GOARCH=386: 32-bit int and uint) for this
// property and merges what it observed. The program carries its own oracle (the same reference models).
func runArch386(c *Ctx) {
	r := c.R
	bin := c.Env["VERIF_ARCH386_BIN"]
	if bin == "" {
		r.Inconclusive("32-bit (GOARCH=386) differential not run: the 386 build of the harness part was not provided by bin/check")
		return
	}
	scale := 1
	if c.Thorough {
		scale = 10
	}
	ctx, cancel := context.WithTimeout(context.Background(), 20*time.Minute)
	defer cancel()
	out, err := exec.CommandContext(ctx, bin, r.Prop, fmt.Sprint(c.Seed), fmt.Sprint(scale)).CombinedOutput()
	done := false
	for _, ln := range strings.Split(string(out), "\n") {
		if !strings.HasPrefix(ln, "{") {
			continue
		}
		var v struct {
			Signature, What, Case, Expected, Observed string
			Evaluations, IntBits                      int `json:",omitempty"`
		}
		var fin struct {
			Evaluations int `json:"evaluations"`
			IntBits     int `json:"int_bits"`
		}
		if json.Unmarshal([]byte(ln), &fin) == nil && fin.IntBits != 0 {
			done = true
			r.Eval(fin.Evaluations)
			r.Count("evaluations_on_a_32bit_build(GOARCH=386)", fin.Evaluations)
			if fin.IntBits != 32 {
				r.Inconclusive("the 386 differential did not run with a 32-bit int")
			}
			continue
		}
		if json.Unmarshal([]byte(ln), &v) == nil && v.Signature != "" {
			r.Violate(v.Signature, v.What, "none", v.Case, v.Expected, v.Observed)
		}
	}
	if !done {
		r.Inconclusive(fmt.Sprintf("the 386 differential ended without its summary line (%v): %s", err, clipS(string(out))))
	}
}

// forkFor returns a copy of the context with a random stream of its own, for a phase that runs beside others: the fork
// is made by the caller, in its own goroutine, so that no two goroutines ever draw from (or fork) the same stream and
// the case lists stay determined by the seed alone. The verdict sink and the environment are shared.
func (c *Ctx) forkFor(label uint64) *Ctx {
	sub := *c
	sub.RNG = c.RNG.Fork(label)
	return &sub
}
