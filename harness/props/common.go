// Package props: one file per property — workload generator + oracle ("judge")
// + replay of a single recorded case.
package props

import (
	"encoding/hex"
	"encoding/json"
	"fmt"
	"runtime"
	"sort"

	"verifh/gen"
	"verifh/mon"
)

type Ctx struct {
	R        *mon.Run
	Thorough bool
	Seed     int64
	RNG      *gen.RNG
	Workers  int
	Env      map[string]string
}

type Prop struct {
	ID     string
	Rule   string
	Run    func(c *Ctx)
	Replay func(c *Ctx, kind string, raw json.RawMessage) error
}

var registry = map[string]*Prop{}

func register(p *Prop) { registry[p.ID] = p }

func Get(id string) *Prop { return registry[id] }

func IDs() []string {
	var ids []string
	for k := range registry {
		ids = append(ids, k)
	}
	sort.Strings(ids)
	return ids
}

func (c *Ctx) N(quick, thorough int) int {
	if c.Thorough {
		return thorough
	}
	return quick
}

func defaultWorkers() int {
	n := runtime.GOMAXPROCS(0)
	if n > 16 {
		n = 16
	}
	return n
}

func hexs(b []byte) string { return fmt.Sprintf("%x", b) }

func unhex(s string) []byte {
	b, _ := hex.DecodeString(s)
	return b
}

func replayAs[T any](raw json.RawMessage, f func(T)) error {
	var v T
	if err := json.Unmarshal(raw, &v); err != nil {
		return err
	}
	f(v)
	return nil
}

func panicStr(p any) string { return fmt.Sprintf("panic: %v", p) }

func monParallel(n, w int, fn func(i int)) { mon.ParallelFor(n, w, fn) }

func DefaultWorkers() int { return defaultWorkers() }

// ChildMain is the entry point of child-process batches (C04 huge-skew probes, C10 batches).
var childMains = map[string]func(args []string) int{}

func ChildMain(args []string) int {
	if len(args) == 0 {
		return 2
	}
	if f := childMains[args[0]]; f != nil {
		return f(args[1:])
	}
	return 2
}

func monCatch(f func()) any { return mon.Catch(f) }
