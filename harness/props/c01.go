package props

import (
	"encoding/json"
	"fmt"

	"github.com/ja7ad/otp"

	"verifh/gen"
	"verifh/hooks"
	"verifh/ref"
)

// ---- C01: HOTP value for every secret, counter, length, hash ----

type hotpCase struct {
	KeyHex   string `json:"key_hex"`
	Secret   string `json:"secret"` // the spelling handed to the library
	Counter  uint64 `json:"counter"`
	NilParam bool   `json:"nil_param"`
	Digits   uint8  `json:"digits"`
	Algo     uint8  `json:"algo"`
	// fields of Param that generation does not use; any value must leave the result unchanged
	Skew   uint64 `json:"skew_unused"`
	Period uint64 `json:"period_unused"`
}

func callGenerateHOTP(secret string, counter uint64, p *otp.Param) (code string, err error, pan any) {
	defer func() {
		if x := recover(); x != nil {
			pan = x
		}
	}()
	code, err = otp.GenerateHOTP(secret, counter, p)
	return
}

// paramClass names the parameter class a defect belongs to (for signatures).
func paramClass(digits, algo int) string {
	d := "digits=1..10"
	switch {
	case digits == 0:
		d = "digits=0"
	case digits > 10:
		d = "digits>10"
	}
	a := "hash=supported"
	if !ref.HashSupported(algo) {
		a = "hash=unsupported"
	}
	return d + "," + a
}

func judgeHOTP(c *Ctx, k hotpCase) {
	r := c.R
	key := unhex(k.KeyHex)
	var p *otp.Param
	digits, algo := int(k.Digits), int(k.Algo)
	if k.NilParam {
		digits, algo = 6, ref.SHA1
	} else {
		k.Skew, k.Period = unusedField(k.Counter^uint64(len(k.Secret))), unusedField(k.Counter>>9^uint64(k.Digits))
		p = &otp.Param{Digits: otp.Digits(k.Digits), Algorithm: otp.Algorithm(k.Algo), Skew: uint(k.Skew), Period: uint(k.Period)}
	}
	code, err, pan := callGenerateHOTP(k.Secret, k.Counter, p)
	r.Eval(1)
	supported := digits >= 1 && digits <= 10 && ref.HashSupported(algo)
	cls := paramClass(digits, algo)
	if pan != nil {
		r.Violate("C01|GenerateHOTP|panic|"+cls, "GenerateHOTP panics for "+cls, "hotp", k, "a code or an error", panicStr(pan))
		return
	}
	if supported {
		want := ref.HOTP(key, k.Counter, digits, algo)
		r.Nontrivial(fmt.Sprintf("v|%s|%d|%d|%d", k.KeyHex, k.Counter, digits, algo))
		if err != nil {
			r.Violate("C01|GenerateHOTP|error-for-supported|"+cls, "GenerateHOTP fails for supported parameters "+cls, "hotp", k, want, "error: "+err.Error())
		} else if code != want {
			r.Violate(fmt.Sprintf("C01|GenerateHOTP|wrong-code|digits=%d", digits), fmt.Sprintf("GenerateHOTP returns a value different from RFC 4226 for %d digits", digits), "hotp", k, want, code)
		}
	} else {
		r.Nontrivial(fmt.Sprintf("e|%d|%d", digits, algo))
		if err == nil {
			r.Violate("C01|GenerateHOTP|code-for-unsupported|"+cls, "GenerateHOTP answers unsupported parameters with a code: "+cls, "hotp", k, "an error", fmt.Sprintf("code %q", code))
		}
	}
	if r.WantSample() {
		r.Sample(map[string]any{"case": k, "code": code, "err": fmt.Sprint(err)})
	}
}

// formatting-stage case: the HMAC output is substituted through the constructor
// table so that the truncation/modulus/formatting stage sees a chosen 31-bit value.
type fmtCase struct {
	Value  uint32 `json:"value"`
	TopBit bool   `json:"top_bit"`
	Offset uint8  `json:"offset"`
	Digits uint8  `json:"digits"`
	Algo   uint8  `json:"algo"`
	OCRA   bool   `json:"ocra"`
}

func fmtKey(k fmtCase) []byte {
	b := []byte{'F', 'K', byte(k.Value >> 24), byte(k.Value >> 16), byte(k.Value >> 8), byte(k.Value), k.Offset, 0, 0xA5, 0x5A}
	if k.TopBit {
		b[7] = 1
	}
	return b
}

// fakeDigest derives the digest a wrapped HMAC returns from the key planted by fmtKey.
func fakeDigest(algo int, key []byte) []byte {
	if len(key) != 10 || key[0] != 'F' || key[1] != 'K' {
		return nil
	}
	size := []int{20, 32, 64}[algo]
	d := make([]byte, size)
	for i := range d {
		d[i] = byte(37*i+11) ^ key[5]
	}
	off := int(key[6] & 15)
	d[size-1] = (d[size-1] &^ 15) | byte(off)
	copy(d[off:], key[2:6])
	d[off] &= 0x7f
	if key[7] == 1 {
		d[off] |= 0x80
	}
	return d
}

func judgeFmt(c *Ctx, k fmtCase) {
	r := c.R
	secret := ref.Base32EncodeNoPad(fmtKey(k))
	v := k.Value & 0x7fffffff
	want := ref.Format(v, int(k.Digits))
	var got string
	var err error
	var pan any
	if k.OCRA {
		cfg := otp.SuiteConfig{Raw: "x", Hash: otp.Algorithm(k.Algo), Digits: int(k.Digits), IncludeCounter: true}
		func() {
			defer func() {
				if x := recover(); x != nil {
					pan = x
				}
			}()
			got, err = otp.GenerateOCRA(secret, cfg, otp.OCRAInput{Counter: make([]byte, 8)})
		}()
	} else {
		got, err, pan = callGenerateHOTP(secret, 7, &otp.Param{Digits: otp.Digits(k.Digits), Algorithm: otp.Algorithm(k.Algo)})
	}
	r.Eval(1)
	r.Count("formatting_stage_cases", 1)
	op := "GenerateHOTP"
	if k.OCRA {
		op = "GenerateOCRA"
	}
	r.Nontrivial(fmt.Sprintf("f|%d|%d|%v", v, k.Digits, k.OCRA))
	if pan != nil || err != nil || got != want {
		obs := got
		if pan != nil {
			obs = panicStr(pan)
		} else if err != nil {
			obs = "error: " + err.Error()
		}
		r.Violate(fmt.Sprintf("%s|%s|format-stage|digits=%d", r.Prop, op, k.Digits),
			fmt.Sprintf("%s renders the 31-bit value wrongly for %d digits (value mod 10^digits, zero padded)", op, k.Digits), "fmt", k, want, obs)
	}
}

func fmtValues(rng *gen.RNG, digits int, n int) []uint32 {
	var vs []uint32
	for v := uint32(0); v < 200; v++ {
		vs = append(vs, v)
	}
	p := uint64(1)
	for k := 1; k <= 10; k++ {
		p *= 10
		for d := int64(-3); d <= 3; d++ {
			x := int64(p) + d
			if x >= 0 && x <= 0x7fffffff {
				vs = append(vs, uint32(x))
			}
		}
		for m := uint64(2); m <= 9; m++ {
			if x := m * p; x <= 0x7fffffff {
				vs = append(vs, uint32(x), uint32(x-1))
			}
		}
	}
	for d := uint32(0); d < 100; d++ {
		vs = append(vs, 0x7fffffff-d)
	}
	vs = append(vs, 1000000000, 1999999999, 2000000000, 2147483647, 1094287082, 1284755224)
	for i := 0; i < n; i++ {
		vs = append(vs, uint32(rng.U64())&0x7fffffff)
	}
	return vs
}

func runFmtStage(c *Ctx, ocra bool, minDigits int, nRandom int) {
	if !hooks.Available() {
		c.R.Inconclusive("formatting-stage enumeration: verif hooks unavailable")
		return
	}
	cfg := &hooks.Config{Digest: fakeDigest}
	hooks.Install(cfg)
	defer hooks.Remove()
	rng := c.RNG.Fork(101)
	before := hooks.Calls()
	b := newBatcher(c, judgeFmt, 0)
	for d := minDigits; d <= 10; d++ {
		for i, v := range fmtValues(rng, d, nRandom) {
			b.add(fmtCase{Value: v, TopBit: i%2 == 1, Offset: uint8(i % 16), Digits: uint8(d), Algo: uint8(i % 3), OCRA: ocra})
		}
	}
	b.flush()
	if hooks.Calls() == before {
		c.R.Inconclusive("formatting-stage enumeration: constructor table wrapper never called")
	}
}

func c01Cases(c *Ctx, emit func(hotpCase)) {
	rng := c.RNG.Fork(1)
	classes := c.N(1, 3)
	var digitVals []int
	if c.Thorough {
		for d := 0; d < 256; d++ {
			digitVals = append(digitVals, d)
		}
	} else {
		for d := 0; d <= 12; d++ {
			digitVals = append(digitVals, d)
		}
		digitVals = append(digitVals, 16, 100, 255)
	}
	algos := []int{0, 1, 2, 3}
	si := 0
	for _, n := range gen.SecretLens {
		for cl := 0; cl < classes; cl++ {
			si++
			key := gen.SecretBytes(rng, n, cl+si)
			enc := ref.Base32Encode(key)
			for _, ctr := range gen.Counters {
				for _, d := range digitVals {
					for _, a := range algos {
						emit(hotpCase{KeyHex: hexs(key), Secret: gen.Spell(rng, enc, rng.Intn(gen.NSpellings)), Counter: ctr, Digits: uint8(d), Algo: uint8(a)})
					}
				}
			}
			emit(hotpCase{KeyHex: hexs(key), Secret: enc, Counter: gen.Pick(rng, gen.Counters), NilParam: true})
		}
	}
	// every hash enum value at a few points, every digit value with every hash
	key := []byte("12345678901234567890")
	enc := ref.Base32Encode(key)
	for a := 0; a < 256; a++ {
		for _, d := range []int{0, 1, 6, 10, 11} {
			emit(hotpCase{KeyHex: hexs(key), Secret: enc, Counter: uint64(a), Digits: uint8(d), Algo: uint8(a)})
		}
	}
	for d := 0; d < 256; d++ {
		for a := 0; a < 4; a++ {
			emit(hotpCase{KeyHex: hexs(key), Secret: enc, Counter: 1, Digits: uint8(d), Algo: uint8(a)})
		}
	}
	// seeded random
	for i := 0; i < c.N(400000, 6000000); i++ {
		key := rng.Bytes(rng.Intn(80))
		if rng.Intn(10) == 0 {
			key = rng.Bytes(gen.Pick(rng, gen.SecretLens))
		}
		d := 1 + rng.Intn(10)
		a := rng.Intn(3)
		if rng.Intn(12) == 0 {
			d = rng.Intn(256)
		}
		if rng.Intn(20) == 0 {
			a = rng.Intn(256)
		}
		emit(hotpCase{KeyHex: hexs(key), Secret: gen.Spell(rng, ref.Base32Encode(key), rng.Intn(gen.NSpellings)), Counter: gen.Counter(rng), Digits: uint8(d), Algo: uint8(a), NilParam: rng.Intn(50) == 0})
	}
}

func init() {
	register(&Prop{
		ID: "C01",
		Rule: "cases = boundary catalogue (secret length/content classes x counter boundaries x digit values x hash values) + seeded random, with arbitrary values in the Param fields generation does not use (Skew, Period), each run through GenerateHOTP and compared with an independent RFC 4226 model; histories on one goroutine (field-shifted neighbours, keys differing in one byte / one byte of length, walks over adjacent counters); the js/wasm build's own copy of the derivation (DeriveRFC4226Wasm, compiled natively through an overlay) for digits -3..300 x hashes 0..4 and random supported cases; " +
			"a reduced differential against the same reference models also runs in a binary built for GOARCH=386 (32-bit int/uint; observed.evaluations_on_a_32bit_build); " +
			"distinct_nontrivial counts distinct (key,counter,digits,hash) tuples with supported parameters whose exact code was compared, distinct unsupported (digits,hash) classes that must be refused, and distinct (31-bit value,digits) pairs pushed through the formatting stage via a substituted HMAC output",
		Run: func(c *Ctx) {
			b := newBatcher(c, judgeHOTP, 0)
			c01Cases(c, b.add)
			b.flush()
			// sequential history: consecutive calls whose textual renderings of (secret, counter, digits) collide when
			// concatenated without separators (a cache keyed that way returns the previous call's code)
			c01ShiftHistory(c)
			c01NeighbourHistory(c)
			c01CounterWalk(c)
			c01RelatedCounters(c)
			c01WasmTwin(c)
			runArch386(c)
			// hooked: key and message actually fed to the HMAC
			if hooks.Available() {
				checkHMACInputsHOTP(c)
			} else {
				c.R.Inconclusive("HMAC key/message observation: verif hooks unavailable")
			}
			runFmtStage(c, false, 1, c.N(100000, 1<<24))
		},
		Replay: func(c *Ctx, kind string, raw json.RawMessage) error {
			switch kind {
			case "hotp":
				return replayAs(raw, func(k hotpCase) { judgeHOTP(c, k) })
			case "fmt":
				return replayAs(raw, func(k fmtCase) {
					hooks.Install(&hooks.Config{Digest: fakeDigest})
					defer hooks.Remove()
					judgeFmt(c, k)
				})
			case "hmacin":
				return replayAs(raw, func(k hotpCase) { checkOneHMACInput(c, k) })
			}
			return fmt.Errorf("unknown kind %q", kind)
		},
	})
}

func c01ShiftHistory(c *Ctx) {
	rng := c.RNG.Fork(111)
	for i := 0; i < c.N(400, 6000); i++ {
		key := rng.Bytes(10) // 16 base32 characters, no padding
		base := ref.Base32EncodeNoPad(key)
		ctr := uint64(rng.Intn(1000))
		d := 1 + rng.Intn(10)
		orig := []string{base, fmt.Sprint(ctr), fmt.Sprint(d)}
		emit := func(f []string) {
			var cv uint64
			var dv int
			if _, err := fmt.Sscan(f[1], &cv); err != nil || fmt.Sprint(cv) != f[1] {
				return
			}
			if _, err := fmt.Sscan(f[2], &dv); err != nil || dv < 0 || dv > 255 {
				return
			}
			k, derr := ref.Base32Decode(f[0])
			if derr != nil || ref.Base32EncodeNoPad(k) != f[0] {
				return // not a canonical spelling of some key
			}
			// a caller that also decodes the secret itself and wipes its copy afterwards (it owns the returned bytes)
			if own, e := otp.DecodeSecret(f[0]); e == nil {
				for j := range own {
					own[j] = 0
				}
			}
			judgeHOTP(c, hotpCase{KeyHex: hexs(k), Secret: f[0], Counter: cv, Digits: uint8(dv), Algo: uint8(i % 3)})
			c.R.Count("shifted_field_history_calls", 1)
		}
		for _, v := range gen.ShiftPairs(orig) {
			emit(orig)
			emit(v)
		}
		// a secret extended by characters that also read as digits, then the shorter secret with those digits in the counter
		x := gen.Pick(rng, []string{"24", "37", "2345", "77", "6652"})
		emit([]string{base + x, fmt.Sprint(ctr), fmt.Sprint(d)})
		emit([]string{base, x + fmt.Sprint(ctr), fmt.Sprint(d)})
	}
}

// c01NeighbourHistory: on one goroutine, a key, then a key differing from it in one byte (or by one byte of
// length, or in its second half), then the first again - same counter, digits and hash.
func c01NeighbourHistory(c *Ctx) {
	rng := c.RNG.Fork(112)
	for rep := 0; rep < c.N(1, 8); rep++ {
		for _, n := range gen.NeighbourKeyLengths {
			keys := gen.NeighbourKeys(rng, n)
			ctr := gen.Counter(rng)
			for a := uint8(0); a < 3; a++ { // every hash: what makes two keys neighbours depends on the hash's block size
				d := uint8(1 + rng.Intn(10))
				call := func(k []byte) {
					judgeHOTP(c, hotpCase{KeyHex: hexs(k), Secret: ref.Base32EncodeNoPad(k), Counter: ctr, Digits: d, Algo: a})
					c.R.Count("neighbour_key_history_calls", 1)
				}
				for _, v := range keys[1:] {
					call(keys[0])
					call(v)
				}
				call(keys[0])
			}
		}
	}
}

// c01CounterWalk: one key and parameter set along a walk over adjacent counters (see stepWalkOffsets).
func c01CounterWalk(c *Ctx) {
	rng := c.RNG.Fork(113)
	for w := 0; w < c.N(10, 120); w++ {
		base := gen.Pick(rng, []uint64{1000, 1 << 31, 1 << 32, 1 << 63, 1<<64 - 300, uint64(1000 + rng.Intn(1<<30))})
		key := rng.Bytes(20)
		d, a := uint8(1+rng.Intn(10)), uint8(rng.Intn(3))
		for _, off := range stepWalkOffsets(rng, c.N(300, 1200)) {
			judgeHOTP(c, hotpCase{KeyHex: hexs(key), Secret: ref.Base32EncodeNoPad(key), Counter: base + uint64(off), Digits: d, Algo: a})
			c.R.Count("adjacent_counter_walk_calls", 1)
		}
	}
}

// c01RelatedCounters: GenerateHOTP with one key and parameter set over bit-related counters (relatedCounters).
func c01RelatedCounters(c *Ctx) {
	rng := c.RNG.Fork(1130)
	for w := 0; w < c.N(24, 300); w++ {
		base := gen.Pick(rng, []uint64{uint64(rng.Intn(1000)), uint64(rng.Intn(1 << 30)), rng.U64() % (1 << 40), rng.U64()})
		key := rng.Bytes(20)
		d, a := uint8(1+rng.Intn(10)), uint8(rng.Intn(3))
		for _, ctr := range relatedCounters(rng, base, 1<<64-1) {
			judgeHOTP(c, hotpCase{KeyHex: hexs(key), Secret: ref.Base32EncodeNoPad(key), Counter: ctr, Digits: d, Algo: a, NilParam: w%8 == 7})
			c.R.Count("bit_related_counter_history_calls", 1)
		}
	}
}

// c01WasmTwin: the js/wasm build derives HOTP codes with its own copy of the derivation (DeriveRFC4226Wasm); it is
// reachable natively when the harness was built with the overlay that compiles those sources. Same oracle as GenerateHOTP.
func c01WasmTwin(c *Ctx) {
	r := c.R
	if wasmDerive == nil {
		r.Inconclusive("js/wasm twin of the derivation (DeriveRFC4226Wasm): sources not compiled natively in this run (C20 still checks the binding under Node)")
		return
	}
	rng := c.RNG.Fork(120)
	type twinCase struct {
		KeyHex  string `json:"key_hex"`
		Counter uint64 `json:"counter"`
		Digits  int    `json:"digits"`
		Algo    uint8  `json:"algo"`
	}
	judge := func(k twinCase) {
		key := unhex(k.KeyHex)
		var code string
		var err error
		pan := monCatch(func() { code, err = wasmDerive(key, k.Counter, k.Digits, k.Algo) })
		r.Eval(1)
		supported := k.Digits >= 1 && k.Digits <= 10 && ref.HashSupported(int(k.Algo))
		cls := "digits=1..10"
		if k.Digits < 1 {
			cls = "digits<1"
		} else if k.Digits > 10 {
			cls = "digits>10"
		}
		r.Nontrivial(fmt.Sprintf("twin|%s|%d|%d|%d", k.KeyHex, k.Counter, k.Digits, k.Algo))
		switch {
		case pan != nil:
			r.Violate("C01|DeriveRFC4226Wasm(js/wasm build)|panic|"+cls, "the js/wasm build's derivation panics ("+cls+")", "none", k, "a code or an error", panicStr(pan))
		case supported && (err != nil || code != ref.HOTP(key, k.Counter, k.Digits, int(k.Algo))):
			r.Violate("C01|DeriveRFC4226Wasm(js/wasm build)|wrong-code|"+cls, "the js/wasm build's derivation differs from RFC 4226", "none", k, ref.HOTP(key, k.Counter, k.Digits, int(k.Algo)), fmt.Sprintf("%q err=%v", code, err))
		case !supported && err == nil:
			r.Violate("C01|DeriveRFC4226Wasm(js/wasm build)|code-for-unsupported|"+cls, "the js/wasm build's derivation answers an unsupported code length or hash with a code", "none", k, "an error", fmt.Sprintf("code %q", code))
		}
	}
	for d := -3; d <= 300; d++ {
		for a := 0; a < 5; a++ {
			judge(twinCase{KeyHex: hexs(rng.Bytes(gen.Pick(rng, []int{0, 1, 20, 64, 65, 200}))), Counter: gen.Counter(rng), Digits: d, Algo: uint8(a)})
		}
	}
	for i := 0; i < c.N(20000, 400000); i++ {
		judge(twinCase{KeyHex: hexs(rng.Bytes(rng.Intn(70))), Counter: gen.Counter(rng), Digits: 1 + rng.Intn(10), Algo: uint8(rng.Intn(3))})
	}
	r.Count("wasm_twin_derivations_judged", 1)
}

func parallelJudge[T any](c *Ctx, cases []T, judge func(*Ctx, T)) {
	monParallel(len(cases), c.Workers, func(i int) { judge(c, cases[i]) })
}

// checkHMACInputsHOTP: with a recording wrapper installed, the HMAC key must be
// the decoded secret and the message the 8-byte big-endian counter.
func checkHMACInputsHOTP(c *Ctx) {
	rng := c.RNG.Fork(7)
	for i := 0; i < c.N(20000, 200000); i++ {
		key := rng.Bytes(rng.Intn(70))
		k := hotpCase{KeyHex: hexs(key), Secret: gen.Spell(rng, ref.Base32Encode(key), rng.Intn(gen.NSpellings)), Counter: gen.Counter(rng), Digits: uint8(1 + rng.Intn(10)), Algo: uint8(rng.Intn(3))}
		checkOneHMACInput(c, k)
	}
}

func checkOneHMACInput(c *Ctx, k hotpCase) {
	var evs []hooks.Event
	cfg := &hooks.Config{Record: func(e hooks.Event) { evs = append(evs, e) }}
	if !hooks.Install(cfg) {
		return
	}
	_, err, pan := callGenerateHOTP(k.Secret, k.Counter, &otp.Param{Digits: otp.Digits(k.Digits), Algorithm: otp.Algorithm(k.Algo)})
	hooks.Remove()
	c.R.Eval(1)
	if pan != nil || err != nil {
		return // judged by the black-box oracle
	}
	if len(evs) == 0 {
		c.R.Inconclusive("HMAC key/message observation: wrapper not reached by GenerateHOTP")
		return
	}
	c.R.Count("hmac_events", len(evs))
	e := evs[len(evs)-1]
	if len(evs) != 1 || e.Algo != int(k.Algo) || hexs(e.Key) != k.KeyHex || hexs(e.Msg) != hexs(ref.BE8(k.Counter)) {
		c.R.Violate("C01|GenerateHOTP|hmac-input|", "the HMAC is not computed over (decoded secret, 8-byte big-endian counter) with the requested hash", "hmacin", k,
			fmt.Sprintf("1 HMAC: algo=%d key=%s msg=%x", k.Algo, k.KeyHex, ref.BE8(k.Counter)),
			fmt.Sprintf("%d HMACs, last: algo=%d key=%x msg=%x", len(evs), e.Algo, e.Key, e.Msg))
	}
}
