package props

import (
	"bytes"
	"context"
	"encoding/json"
	"fmt"
	"os"
	"os/exec"
	"path/filepath"
	"regexp"
	"sort"
	"strings"
	"time"

	"verifh/gen"
	"verifh/mon"
)

// A child run executes part of a property's workload in its own process (usually a
// -race or -asan build of this same driver): process-fatal reports end one child,
// not the monitor, and each child's race log is read by the parent.

type childSpec struct {
	Prop     string          `json:"prop"`
	Part     string          `json:"part"`
	Thorough bool            `json:"thorough"`
	Seed     int64           `json:"seed"`
	Arg      json.RawMessage `json:"arg"`
	Out      string          `json:"out"`
}

var childParts = map[string]func(c *Ctx, arg json.RawMessage){}

func init() {
	childMains["part"] = func(args []string) int {
		if len(args) != 1 {
			return 2
		}
		b, err := os.ReadFile(args[0])
		if err != nil {
			return 2
		}
		var sp childSpec
		if json.Unmarshal(b, &sp) != nil {
			return 2
		}
		f := childParts[sp.Prop+"/"+sp.Part]
		if f == nil {
			return 2
		}
		tier := "quick"
		if sp.Thorough {
			tier = "thorough"
		}
		r := mon.NewRun(sp.Prop, tier, sp.Seed, os.Getenv("VERIF_ROOT"))
		c := &Ctx{R: r, Thorough: sp.Thorough, Seed: sp.Seed, RNG: gen.New(uint64(sp.Seed)), Workers: defaultWorkers(), Env: map[string]string{}}
		for _, kv := range os.Environ() {
			if i := strings.IndexByte(kv, '='); i > 0 && strings.HasPrefix(kv, "VERIF_") {
				c.Env[kv[:i]] = kv[i+1:]
			}
		}
		f(c, sp.Arg)
		out, _ := json.Marshal(r.Export())
		if err := os.WriteFile(sp.Out, out, 0o644); err != nil {
			return 2
		}
		return 0
	}
}

type childResult struct {
	Ran         bool
	ExitErr     error
	TimedOut    bool
	Output      string
	RaceReports []raceReport
}

type raceReport struct {
	Text     string
	InModule bool   // some frame belongs to the module under test
	Key      string // dedup key: outermost entry-point pair
	// Owners: per racing access, whose code performs it - the innermost frame that is not the Go runtime or standard
	// library decides: "module" (the code under test, also when it reaches the memory through a standard-library
	// call), "harness", "dependency" (a third-party package) or "runtime"
	Owners []string
	Inner  string // the innermost frames of the two accesses (second-level dedup key)
}

func frameOwner(fn string) string {
	switch {
	case strings.HasPrefix(fn, "github.com/ja7ad/otp"):
		return "module"
	case strings.HasPrefix(fn, "verifh/") || strings.HasPrefix(fn, "main."):
		return "harness"
	}
	first := fn
	if i := strings.Index(fn, "/"); i >= 0 {
		first = fn[:i]
		if strings.Contains(first, ".") {
			return "dependency"
		}
	}
	return ""
}

// runChildPart runs one part in a child built as binEnv (e.g. VERIF_RACE_BIN) and merges its report.
func runChildPart(c *Ctx, binEnv, part string, arg any, timeout time.Duration, extraEnv ...string) *childResult {
	res := &childResult{}
	bin := c.Env[binEnv]
	scratch := c.Env["VERIF_SCRATCH"]
	if bin == "" || scratch == "" {
		c.R.Inconclusive(fmt.Sprintf("%s part of %s not run: %s not provided by bin/check", part, c.R.Prop, binEnv))
		return res
	}
	id := fmt.Sprintf("%s-%s-%d", c.R.Prop, part, time.Now().UnixNano())
	specPath := filepath.Join(scratch, id+".spec.json")
	outPath := filepath.Join(scratch, id+".out.json")
	raceBase := filepath.Join(scratch, id+".race")
	rawArg, _ := json.Marshal(arg)
	sp := childSpec{Prop: c.R.Prop, Part: part, Thorough: c.Thorough, Seed: c.Seed, Arg: rawArg, Out: outPath}
	b, _ := json.Marshal(sp)
	os.WriteFile(specPath, b, 0o644)
	ctx, cancel := context.WithTimeout(context.Background(), timeout)
	defer cancel()
	cmd := exec.CommandContext(ctx, bin, "child", "part", specPath)
	cmd.Env = append(os.Environ(), "GORACE=halt_on_error=0 log_path="+raceBase+" history_size=3", "ASAN_OPTIONS=detect_leaks=0:abort_on_error=0:log_path="+raceBase+".asan")
	cmd.Env = append(cmd.Env, extraEnv...)
	var buf bytes.Buffer
	cmd.Stdout, cmd.Stderr = &buf, &buf
	err := cmd.Run()
	res.Ran = true
	res.ExitErr = err
	res.TimedOut = ctx.Err() != nil
	res.Output = buf.String()
	if ob, e := os.ReadFile(outPath); e == nil {
		var rep mon.ChildReport
		if json.Unmarshal(ob, &rep) == nil {
			c.R.Merge(rep)
		}
	} else if !res.TimedOut {
		// the child died before reporting: process-fatal error (checkptr, asan, fatal error, os.Exit)
		tail := res.Output
		if len(tail) > 3000 {
			tail = tail[len(tail)-3000:]
		}
		c.R.Count("children_died", 1)
		res.Output = tail
	}
	matches, _ := filepath.Glob(raceBase + ".*")
	for _, m := range matches {
		if strings.Contains(m, ".asan") {
			continue
		}
		tb, _ := os.ReadFile(m)
		res.RaceReports = append(res.RaceReports, splitRaceReports(string(tb))...)
	}
	c.R.Count("child_processes", 1)
	return res
}

var frameRe = regexp.MustCompile(`(?m)^\s+(\S+)\(\)\s*$`)

func splitRaceReports(log string) []raceReport {
	var out []raceReport
	parts := strings.Split(log, "WARNING: DATA RACE")
	for _, p := range parts[1:] {
		end := strings.Index(p, "==================")
		if end > 0 {
			p = p[:end]
		}
		rr := raceReport{Text: "WARNING: DATA RACE" + p}
		rr.InModule = strings.Contains(p, "github.com/ja7ad/otp")
		// dedup key: the outermost (last) frame of each of the two stacks, line numbers stripped
		var outer, inner []string
		for _, blk := range strings.Split(p, "\n\n") {
			fs := frameRe.FindAllStringSubmatch(blk, -1)
			if len(fs) > 0 && (strings.Contains(blk, "by goroutine") || strings.Contains(blk, "by main goroutine")) && !strings.Contains(blk, "created at") {
				outer = append(outer, fs[len(fs)-1][1])
				inner = append(inner, fs[0][1])
				owner := "runtime"
				for _, f := range fs {
					if o := frameOwner(f[1]); o != "" {
						owner = o
						break
					}
				}
				rr.Owners = append(rr.Owners, owner)
			}
		}
		sort.Strings(outer)
		rr.Key = strings.Join(outer, " <-> ")
		sort.Strings(inner)
		rr.Inner = strings.Join(inner, " <-> ")
		out = append(out, rr)
	}
	return out
}

// judgeRaceReports turns race-detector reports into verdicts: a report with a frame of
// the module under test is a violation; one entirely inside the harness is a harness bug
// (the run is broken, reported as inconclusive, never as a violation of the code).
func judgeRaceReports(c *Ctx, res *childResult, kind string, cas any) {
	seen := map[string]bool{}
	for _, rr := range res.RaceReports {
		c.R.Count("race_reports", 1)
		// first by the pair of outermost entry points, then by the pair of accessing functions: two different races
		// below the same entry points (every request of a server enters through the same worker function) stay apart
		if seen[rr.Key+"|"+rr.Inner] {
			continue
		}
		seen[rr.Key+"|"+rr.Inner] = true
		c.R.Count("race_reports_distinct", 1)
		owns := func(who string) bool {
			for _, o := range rr.Owners {
				if o == who {
					return true
				}
			}
			return false
		}
		switch {
		case owns("module") || (len(rr.Owners) == 0 && rr.InModule):
			c.R.Violate(c.R.Prop+"|race-detector|data-race|"+rr.Key+"|"+rr.Inner, "the Go race detector reports a data race involving the library", kind, cas, "no data race", rr.Text)
		case owns("harness") || !rr.InModule:
			c.R.Inconclusive("race report without an access by the module under test (harness bug?): " + rr.Key)
		default:
			// both racing accesses are made by third-party code that the service merely calls (no access of the module's
			// own, not even through the standard library): the properties speak about what the service answers, and
			// the behavioural oracles judge that; the report is recorded, it is not a verdict on the module
			c.R.Count("race_reports_inside_dependencies", 1)
			if len(rr.Text) > 1500 {
				c.R.Extra["race_inside_dependency:"+rr.Key] = rr.Text[:1500]
			} else {
				c.R.Extra["race_inside_dependency:"+rr.Key] = rr.Text
			}
			fmt.Println("NOTE race reported inside a dependency, reached through the service (recorded, not a verdict): " + rr.Key)
		}
	}
}

// raceLogs reads race-detector logs written by a server started with GORACE log_path=<scratch>/<base>.
func raceLogs(c *Ctx, base string) {
	matches, _ := filepath.Glob(filepath.Join(c.Env["VERIF_SCRATCH"], base+".*"))
	res := &childResult{}
	for _, m := range matches {
		tb, _ := os.ReadFile(m)
		for _, rr := range splitRaceReports(string(tb)) {
			// a server binary has no harness code in it: its package main is the module's
			for i, o := range rr.Owners {
				if o == "harness" {
					rr.Owners[i] = "module"
				}
			}
			res.RaceReports = append(res.RaceReports, rr)
		}
	}
	c.R.Count("race_logs_read", len(matches))
	judgeRaceReports(c, res, "none", nil)
}
