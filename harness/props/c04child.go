package props

import (
	"context"
	"fmt"
	"os"
	"os/exec"
	"runtime"
	"strconv"
	"strings"
	"time"

	"github.com/ja7ad/otp"

	"verifh/gen"
	"verifh/ref"
)

// Fallback for C04's bounded-work clause when the constructor-table hook is not
// available: huge skews are probed in a child process. The child measures a
// logical quantity (heap allocations performed by the call, calibrated against a
// 21-derivation call); the parent's wall-clock watchdog alone never yields a violation.

func init() {
	childMains["c04huge"] = func(args []string) int {
		if len(args) != 1 {
			return 2
		}
		skew, _ := strconv.ParseUint(args[0], 10, 64)
		key := []byte("12345678901234567890")
		secret := ref.Base32Encode(key)
		t := time.Unix(1<<40, 0)
		var ms runtime.MemStats
		// calibration: a full admissible window (21 derivations) of rejections
		runtime.ReadMemStats(&ms)
		m0 := ms.Mallocs
		for i := 0; i < 10; i++ {
			otp.ValidateTOTP(secret, "000000", t, &otp.Param{Digits: 6, Period: 30, Skew: 10})
		}
		runtime.ReadMemStats(&ms)
		per := (ms.Mallocs - m0) / 10
		if per < 50 {
			per = 50
		}
		bound := per * 8
		type res struct {
			ok  bool
			err error
		}
		done := make(chan res, 1)
		runtime.ReadMemStats(&ms)
		start := ms.Mallocs
		go func() {
			ok, err := otp.ValidateTOTP(secret, ref.TOTP(key, 1<<40, 30, 6, 0), t, &otp.Param{Digits: 6, Period: 30, Skew: uint(skew)})
			done <- res{ok, err}
		}()
		for {
			select {
			case r := <-done:
				runtime.ReadMemStats(&ms)
				fmt.Printf("RETURNED ok=%v err=%v mallocs=%d bound=%d\n", r.ok, r.err != nil, ms.Mallocs-start, bound)
				return 0
			case <-time.After(20 * time.Millisecond):
				runtime.ReadMemStats(&ms)
				if ms.Mallocs-start > bound {
					fmt.Printf("UNBOUNDED mallocs=%d bound=%d\n", ms.Mallocs-start, bound)
					return 3
				}
			}
		}
	}
}

func hugeSkewChild(c *Ctx) {
	self, err := os.Executable()
	if err != nil {
		c.R.Inconclusive("huge-skew child: cannot locate own executable")
		return
	}
	for _, skew := range []uint64{1000000, 1 << 32, 1<<63 - 1, 1 << 63, 1<<64 - 1} {
		ctx, cancel := context.WithTimeout(context.Background(), 120*time.Second)
		out, err := exec.CommandContext(ctx, self, "child", "c04huge", strconv.FormatUint(skew, 10)).CombinedOutput()
		cancel()
		s := string(out)
		c.R.Eval(1)
		c.R.Count("refused_skew_probes", 1)
		k := vtotpCase{KeyHex: hexs([]byte("12345678901234567890")), Secret: ref.Base32Encode([]byte("12345678901234567890")), At: gen.InstantSpec{Unix: 1 << 40}, Period: 30, Skew: skew, Digits: 6,
			Submitted: []string{hexs([]byte(ref.TOTP([]byte("12345678901234567890"), 1<<40, 30, 6, 0)))}, Notes: []string{fmt.Sprintf("refused skew %d, genuine code at distance +0 (child process)", skew)}}
		switch {
		case strings.Contains(s, "UNBOUNDED"):
			c.R.Violate("C04|ValidateTOTP|unbounded-work|", "ValidateTOTP performs work unbounded in the skew parameter (allocation count exceeded 8x a full admissible window)", "vtotp", k, "(false, error) after bounded work", strings.TrimSpace(s))
		case strings.Contains(s, "RETURNED ok=false err=true"):
			c.R.Nontrivial(fmt.Sprintf("refuse-child|%d", skew))
		case strings.Contains(s, "RETURNED"):
			c.R.Violate("C04|ValidateTOTP|skew>10-not-refused|", "ValidateTOTP does not refuse a skew above the documented maximum of 10", "vtotp", k, "(false, error)", strings.TrimSpace(s))
		default:
			c.R.Inconclusive(fmt.Sprintf("huge-skew child for skew %d: no verdict (%v)", skew, err))
		}
	}
}
