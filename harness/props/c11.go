package props

import (
	"encoding/json"
	"fmt"
	"net/url"
	"runtime"
	"sort"
	"strings"
	"sync"
	"sync/atomic"
	"time"
	"unsafe"

	"github.com/ja7ad/otp"

	"verifh/gen"
	"verifh/hooks"
	"verifh/ref"
)

// ---- C11: results depend only on arguments, under any concurrency and history ----

type c11Config struct {
	G         int    `json:"goroutines"`
	P         int    `json:"gomaxprocs"`
	Ops       int    `json:"ops_per_goroutine"`
	Yield     bool   `json:"yield_injection"`
	Adversary bool   `json:"pool_adversary"`
	GC        bool   `json:"gc_storm"`
	Seed      uint64 `json:"seed"`
	Rep       int    `json:"rep"`
}

// one operation of the hot table: exec runs the real code and returns a canonical
// result string; want is what it returns when called alone (from the reference model
// where one exists, otherwise from a sequential call made before any goroutine starts).
type c11Op struct {
	desc string
	exec func() string
	want string
	code bool // result is a code string worth retaining
}

func resStr(code string, err error) string {
	if err != nil {
		return "ERR"
	}
	return code
}

// c11Arena: the shared record table the OCRA inputs of the hot table are cut out of (never reallocated: fixed capacity).
var c11Arena []byte

func buildC11Table(rng *gen.RNG) []c11Op {
	var ops []c11Op
	c11Arena = make([]byte, 0, 1<<16)
	type sec struct {
		key   []byte
		texts []string
	}
	var secrets []sec
	for i := 0; i < 10; i++ {
		key := rng.Bytes([]int{20, 32, 64, 1, 10, 65, 129, 0, 200, 300}[i])
		enc := ref.Base32Encode(key)
		secrets = append(secrets, sec{key, []string{enc, gen.Spell(rng, enc, 5), gen.Spell(rng, enc, 13+i)}})
	}
	// two more keys that share their first 64 / 128 bytes (one HMAC block of SHA-1/SHA-256 / SHA-512) with the 200-byte
	// key above and differ only behind it: whatever is remembered about "the key of the last call" from a prefix of it
	for _, n := range []int{64, 128} {
		key := append(append([]byte{}, secrets[8].key[:n]...), rng.Bytes(200-n)...)
		enc := ref.Base32Encode(key)
		secrets = append(secrets, sec{key, []string{enc, gen.Spell(rng, enc, 5), gen.Spell(rng, enc, 7)}})
	}
	params := []*otp.Param{nil, {Digits: 6, Algorithm: otp.SHA1, Period: 30, Skew: 1}, {Digits: 8, Algorithm: otp.SHA256, Period: 60, Skew: 2}, {Digits: 10, Algorithm: otp.SHA512, Period: 0, Skew: 0}, {Digits: 9, Algorithm: otp.SHA1, Period: 1, Skew: 10}}
	pm := func(p *otp.Param, hotp bool) (int, int, uint64, uint64) {
		if p == nil {
			if hotp {
				return 6, 0, 0, 2
			}
			return 6, 0, 30, 0
		}
		return int(p.Digits), int(p.Algorithm), uint64(p.Period), uint64(p.Skew)
	}
	// HOTP / TOTP generation and validation over 64 hot counters / instants
	for i := 0; i < 64; i++ {
		s := secrets[i%len(secrets)]
		text := s.texts[i%3]
		p := params[i%len(params)]
		ctr := uint64(1000 + i)
		if i%9 == 0 {
			ctr = gen.Pick(rng, gen.Counters)
			if ctr > 1<<64-20 {
				ctr = 1<<63 + uint64(i)
			}
		}
		d, a, _, skew := pm(p, true)
		want := ref.HOTP(s.key, ctr, d, a)
		ops = append(ops, c11Op{desc: fmt.Sprintf("GenerateHOTP#%d", i), code: true, want: want, exec: func() string { return resStr(otp.GenerateHOTP(text, ctr, p)) }})
		sub := ref.HOTP(s.key, ctr+uint64(i%5), d, a)
		_, in := ref.HOTPWindow(s.key, ctr, skew, d, a)[sub]
		ops = append(ops, c11Op{desc: fmt.Sprintf("ValidateHOTP#%d", i), want: fmt.Sprint(in), exec: func() string { ok, _ := otp.ValidateHOTP(text, sub, ctr, p); return fmt.Sprint(ok) }})
		unix := int64(1700000000 + 17*i)
		t := time.Unix(unix, int64(i)*1000)
		d, a, period, skew := pm(p, false)
		wantT := ref.TOTP(s.key, unix, period, d, a)
		ops = append(ops, c11Op{desc: fmt.Sprintf("GenerateTOTP#%d", i), code: true, want: wantT, exec: func() string { return resStr(otp.GenerateTOTP(text, t, p)) }})
		step := ref.Step(unix, period)
		subT := ref.HOTP(s.key, step+uint64(i%4), d, a)
		_, inT := ref.HOTPWindow(s.key, step, skew, d, a)[subT]
		ops = append(ops, c11Op{desc: fmt.Sprintf("ValidateTOTP#%d", i), want: fmt.Sprint(inT), exec: func() string { ok, _ := otp.ValidateTOTP(text, subT, t, p); return fmt.Sprint(ok) }})
	}
	// OCRA: messages below and above the pooled 256-byte capacity
	names := []string{"OCRA-1:HOTP-SHA1-6:QN08", "OCRA-1:HOTP-SHA512-8:C-QH10-PSHA512-S-T1", "OCRA-1:HOTP-SHA256-6:C", "OCRA-1:HOTP-SHA256-8:QA10-S-T1"}
	var suites []otp.Suite
	var models []ref.Suite
	for _, n := range names {
		s, err := otp.NewRawSuite(n)
		m, ok := ref.ParseSuiteName(n)
		if err == nil && ok {
			suites = append(suites, s)
			models = append(models, m)
		}
	}
	long := ref.Suite{Raw: strings.Repeat("long-suite-text/", 20), Hash: 1, Digits: 7, C: true, Q: true, Challenge: ref.QA08, S: true}
	suites = append(suites, toCfg(long))
	models = append(models, long)
	empty := ref.Suite{Raw: "", Hash: 0, Digits: 10, S: true}
	suites = append(suites, otp.RawSuite{SuiteConfig: toCfg(empty)})
	models = append(models, empty)
	for i := 0; i < 48; i++ {
		s := secrets[i%len(secrets)]
		text := s.texts[(i+1)%3]
		m := models[i%len(models)]
		suite := suites[i%len(models)]
		in := admissibleInput(rng, m, i)
		oin := toOCRAInput(in) // shared, read-only, by all goroutines
		// every second operation's fields are records of ONE table shared by all operations (each field a sub-slice
		// whose capacity runs on into the following records, as when a batch is cut out of one receive buffer)
		if i%2 == 0 {
			carve := func(b []byte) []byte {
				if b == nil {
					return nil
				}
				if len(c11Arena)+len(b) > cap(c11Arena) {
					return b
				}
				off := len(c11Arena)
				c11Arena = append(c11Arena, b...)
				return c11Arena[off : off+len(b)]
			}
			oin.Counter, oin.Challenge, oin.Password, oin.SessionInfo, oin.Timestamp = carve(oin.Counter), carve(oin.Challenge), carve(oin.Password), carve(oin.SessionInfo), carve(oin.Timestamp)
		}
		want := ref.OCRA(s.key, m, in)
		msgLen := len(ref.OCRAMessage(m, in))
		ops = append(ops, c11Op{desc: fmt.Sprintf("GenerateOCRA#%d(msg %d bytes)", i, msgLen), code: true, want: want, exec: func() string { return resStr(otp.GenerateOCRA(text, suite, oin)) }})
		sub := want
		if i%3 == 0 {
			sub = ref.OCRA(s.key, m, admissibleInput(rng, m, i+1))
		}
		ops = append(ops, c11Op{desc: fmt.Sprintf("ValidateOCRA#%d", i), want: fmt.Sprint(sub == want), exec: func() string { ok, _ := otp.ValidateOCRA(text, sub, suite, oin); return fmt.Sprint(ok) }})
		bad := in
		bad.Challenge = make([]byte, 200)
		bin := toOCRAInput(bad)
		if m.Q {
			ops = append(ops, c11Op{desc: fmt.Sprintf("GenerateOCRA-inadmissible#%d", i), want: "ERR", exec: func() string { return resStr(otp.GenerateOCRA(text, suite, bin)) }})
		}
	}
	// suite lookups / parsing: reference where there is a model, else "called alone" baseline
	alone := func(desc string, f func() string) {
		ops = append(ops, c11Op{desc: desc, exec: f, want: f()})
	}
	lookup := append([]string{}, names...)
	lookup = append(lookup, "OCRA-1:HOTP-SHA1-7:C-QN10-PSHA256-S064-T5M", "OCRA-1:HOTP-SHA1-6:QN08-T30S", "OCRA-2:HOTP-SHA1-6:QN08", "garbage", "OCRA-1:HOTP-SHA512-8:QN08-T1M")
	// spellings of one unregistered suite that differ only in letter case: each must report its own spelling
	lookup = append(lookup, "OCRA-1:hotp-sha1-7:C-QN10-PSHA256-S064-T5M", "OCRA-1:HOTP-SHA1-7:c-qn10-psha256-s064-T5M", "OCRA-1:Hotp-Sha1-7:C-qn10-PSHA256-s064-T5M",
		"OCRA-1:HOTP-SHA512-9:qn08", "OCRA-1:hotp-SHA512-9:QN08", "OCRA-1:HOTP-SHA512-9:QN08")
	for _, n := range lookup {
		n := n
		want := "ERR"
		if m, ok := ref.ParseSuiteNameFold(n); ok && ref.SuiteUsable(m) {
			want = fmt.Sprintf("%+v", m)
		}
		ops = append(ops, c11Op{desc: "NewRawSuite(" + n + ")", want: want, exec: func() string {
			s, err := otp.NewRawSuite(n)
			if err != nil {
				return "ERR"
			}
			return fmt.Sprintf("%+v", fromCfg(s.Config()))
		}})
		alone("IsKnownSuite+SuiteConfigFromRaws("+n+")", func() string { return fmt.Sprintf("%v %+v", otp.IsKnownSuite(n), otp.SuiteConfigFromRaws(n)) })
	}
	// a large family of distinct suite strings (far more than any bounded memo could hold), visited in rolling order
	// by all goroutines: every parse must equal the reference parse of that very string
	{
		seen := map[string]bool{}
		var fam, famWant []string
		for len(fam) < 3000 {
			n := genSuiteName(rng)
			if seen[n] {
				continue
			}
			seen[n] = true
			w := "ERR"
			if m, ok := ref.ParseSuiteNameFold(n); ok && ref.SuiteUsable(m) {
				w = fmt.Sprintf("%+v", m)
			}
			fam = append(fam, n)
			famWant = append(famWant, w)
		}
		var ctr atomic.Uint64
		for k := 0; k < 12; k++ {
			stride := uint64(1 + 2*k)
			ops = append(ops, c11Op{desc: fmt.Sprintf("NewRawSuite(family of %d, stride %d)", len(fam), stride), want: "ok", exec: func() string {
				j := int(ctr.Add(stride) % uint64(len(fam)))
				s, err := otp.NewRawSuite(fam[j])
				got := "ERR"
				if err == nil {
					got = fmt.Sprintf("%+v", fromCfg(s.Config()))
				}
				if got != famWant[j] {
					return fmt.Sprintf("NewRawSuite(%q) = %s, reference %s", fam[j], got, famWant[j])
				}
				return "ok"
			}})
		}
	}
	alone("ListSuites", func() string {
		l := otp.ListSuites()
		res := append([]string(nil), l...)
		sort.Strings(res)
		// the returned list is the caller's: scribble over it and append to it
		for i := range l {
			l[i] = "scribbled"
		}
		l = append(l, "appended-by-caller")
		_ = l
		return strings.Join(res, ",")
	})
	for i := 0; i < 8; i++ {
		s := secrets[i]
		text := s.texts[2]
		ops = append(ops, c11Op{desc: fmt.Sprintf("DecodeSecret#%d", i), want: hexs(s.key), exec: func() string {
			b, err := otp.DecodeSecret(text)
			if err != nil {
				return "ERR"
			}
			return hexs(b)
		}})
		up := otp.URLParam{Issuer: "Iss " + fmt.Sprint(i), AccountName: "a@b/" + fmt.Sprint(i), Secret: s.texts[0] + "x", Digits: otp.Digits(6 + i%3), Algorithm: otp.Algorithm(i % 3), Period: uint(30 * (i % 2))}
		alone(fmt.Sprintf("GenerateTOTPURL#%d", i), func() string {
			u, err := otp.GenerateTOTPURL(up)
			if err != nil {
				return "ERR"
			}
			return u.String()
		})
		alone(fmt.Sprintf("GenerateHOTPURL+Parse#%d", i), func() string {
			u, err := otp.GenerateHOTPURL(up)
			if err != nil {
				return "ERR"
			}
			pu, err := url.Parse(u.String())
			if err != nil {
				return "ERR"
			}
			p, err := otp.ParseOTPAuthURL(pu)
			if err != nil {
				return "ERR"
			}
			return fmt.Sprintf("%+v", *p)
		})
		// a caller may do what it likes with a returned key: wipe it. Later calls must not be affected.
		ops = append(ops, c11Op{desc: fmt.Sprintf("DecodeSecret-then-wipe#%d", i), want: hexs(s.key), exec: func() string {
			b, err := otp.DecodeSecret(text)
			if err != nil {
				return "ERR"
			}
			h := hexs(b)
			for j := range b {
				b[j] = 0xA5
			}
			return h
		}})
		q := fmt.Sprint(rng.U64()) + fmt.Sprint(rng.U64())[:1+i]
		if wq, ok := ref.QuestionToBytes(q); ok {
			ops = append(ops, c11Op{desc: fmt.Sprintf("ParseDecimalChallengeRFC6287#%d", i), want: hexs(wq), exec: func() string {
				b, err := otp.ParseDecimalChallengeRFC6287(q)
				if err != nil {
					return "ERR"
				}
				return hexs(b)
			}})
		}
		huge := strings.Repeat(fmt.Sprint(3+i), 200+40*i) // outside the helper's documented size, still a legal call
		alone(fmt.Sprintf("ParseDecimalChallengeRFC6287-oversized#%d", i), func() string {
			b, err := otp.ParseDecimalChallengeRFC6287(huge)
			return fmt.Sprintf("%d/%v", len(b), err == nil)
		})
		dec := fmt.Sprint(rng.U64())
		alone(fmt.Sprintf("helpers#%d", i), func() string {
			a, _ := otp.ParseDecimalChallengeRFC6287(dec)
			b, _ := otp.ParseDecimalToBigEndian8(dec)
			c, _ := otp.ParseHexTimestamp("132d0b6")
			d, _ := otp.HexInputToOCRA("0000000000000001", "3132", "", "ff", "00")
			return fmt.Sprintf("%x %x %x %x %s %+v", a, b, c, otp.To8ByteBigEndian(uint64(len(dec))), otp.LeftPadHex(dec, 30), d)
		})
		alone(fmt.Sprintf("enums#%d", i), func() string {
			return fmt.Sprint(otp.DigitsFromStr(fmt.Sprint(6+i)), otp.AlgorithmFromStr("SHA256"), otp.Algorithm(i%4).String(), otp.SuiteConfig{Digits: i}.Validate() == nil)
		})
	}
	ops = append(ops, c11Op{desc: "RandomSecret", want: "32", exec: func() string {
		s, err := otp.RandomSecret(otp.SHA1)
		if err != nil {
			return "ERR"
		}
		return fmt.Sprint(len(s))
	}})
	return ops
}

type retained struct {
	s    string
	copy string // independent copy of the bytes at the time of return
	desc string
}

func runC11Config(c *Ctx, cfg c11Config) {
	r := c.R
	if cfg.P > 0 {
		runtime.GOMAXPROCS(cfg.P)
	}
	rng := gen.New(cfg.Seed)
	ops := buildC11Table(rng)
	// the table itself is the sequential reference run: every op once, alone
	for i := range ops {
		var got string
		pan := monCatch(func() { got = ops[i].exec() })
		r.Eval(1)
		if pan != nil || got != ops[i].want {
			r.Violate("C11|sequential|differs-from-reference|"+opKind(ops[i].desc), "a call made alone differs from the reference", "c11", cfg, ops[i].want, fmt.Sprintf("%s: %q panic=%v", ops[i].desc, got, pan))
		}
	}
	hookOn := false
	if cfg.Yield {
		hookOn = hooks.Install(&hooks.Config{Yield: hooks.YieldFn(97, 50*time.Microsecond)})
		if !hookOn {
			r.Inconclusive("yield injection between pool Get and Put: verif hooks unavailable")
		}
	}
	var stop atomic.Bool
	var bg sync.WaitGroup
	if cfg.Adversary {
		p1, p2 := hooks.BufPools()
		if p1 == nil {
			r.Inconclusive("pool adversary: verif hooks unavailable")
		} else {
			bg.Add(1)
			go func() {
				defer bg.Done()
				n := 0
				for !stop.Load() {
					if b, ok := p1.Get().(*[8]byte); ok && b != nil {
						for i := range b {
							b[i] = 0xEE
						}
						p1.Put(b)
					}
					if pb, ok := p2.Get().(*[]byte); ok && pb != nil {
						full := (*pb)[:cap(*pb)]
						for i := range full {
							full[i] = 0xDD
						}
						*pb = full[:(n*37)%(len(full)+1)]
						p2.Put(pb)
					}
					n++
					if n%64 == 0 {
						runtime.Gosched()
					}
				}
				r.Count("adversary_pool_cycles", n)
			}()
		}
	}
	if cfg.GC {
		bg.Add(1)
		go func() {
			defer bg.Done()
			n := 0
			for !stop.Load() {
				runtime.GC()
				n++
				time.Sleep(2 * time.Millisecond)
			}
			r.Count("gc_storm_cycles", n)
		}()
	}
	var wg sync.WaitGroup
	var mism atomic.Int64
	executed := make([]atomic.Bool, len(ops))
	kept := make([][]retained, cfg.G)
	for g := 0; g < cfg.G; g++ {
		wg.Add(1)
		go func(g int) {
			defer wg.Done()
			x := cfg.Seed*2654435761 + uint64(g)*40503 + 1
			for i := 0; i < cfg.Ops; i++ {
				x ^= x << 13
				x ^= x >> 7
				x ^= x << 17
				oi := x % uint64(len(ops))
				op := &ops[oi]
				executed[oi].Store(true)
				var got string
				pan := monCatch(func() { got = op.exec() })
				if pan != nil || got != op.want {
					if mism.Add(1) <= 5 {
						r.Violate("C11|concurrent|differs-from-sequential|"+opKind(op.desc), "a result under concurrency differs from what the call returns alone", "c11", cfg, op.want, fmt.Sprintf("%s on goroutine %d: %q panic=%v", op.desc, g, got, pan))
					}
				}
				if op.code && i%8 == 0 && len(kept[g]) < 4000 {
					kept[g] = append(kept[g], retained{s: got, copy: string(append([]byte(nil), got...)), desc: op.desc})
				}
			}
		}(g)
	}
	wg.Wait()
	stop.Store(true)
	bg.Wait()
	if hookOn {
		r.Count("hmac_constructions_under_yield_wrapper", int(hooks.Calls()))
		hooks.Remove()
	}
	r.Eval(cfg.G * cfg.Ops)
	r.Count("concurrent_results_compared", cfg.G*cfg.Ops)
	if n := mism.Load(); n > 0 {
		r.Count("concurrent_mismatches", int(n))
	}
	// retained strings must still hold the value they had when returned (after GC and further calls)
	runtime.GC()
	for _, op := range ops[:min(len(ops), 200)] {
		monCatch(func() { op.exec() })
	}
	runtime.GC()
	nk := 0
	for g := range kept {
		for _, k := range kept[g] {
			nk++
			if k.s != k.copy {
				r.Violate("C11|retained-string|changed-after-return|"+opKind(k.desc), "a returned code string changed after it was returned", "c11", cfg, k.copy, fmt.Sprintf("%s: now %q", k.desc, k.s))
				break
			}
		}
	}
	r.Count("retained_strings_rechecked", nk)
	for i := range executed {
		if executed[i].Load() {
			r.Nontrivial(fmt.Sprintf("cfg|%d|%d|%d|%v|%v|%v|%s", cfg.G, cfg.P, cfg.Rep, cfg.Yield, cfg.Adversary, cfg.GC, ops[i].desc))
		}
	}
	r.Count("configurations", 1)
	_ = unsafe.Sizeof(0)
	r.Sample(map[string]any{"config": cfg, "table_ops": len(ops), "mismatches": mism.Load(), "retained_rechecked": nk})
}

func opKind(desc string) string {
	if i := strings.IndexAny(desc, "#("); i > 0 {
		return desc[:i]
	}
	return desc
}

// ---- cold start: the very first calls of a fresh process arrive concurrently ----
// (lazily initialised package state is only observable before any call has completed alone, so this part
// neither builds a table through the library nor makes a sequential pass first; every expected value comes
// from the reference models)

type c11Cold struct {
	G    int    `json:"goroutines"`
	Ops  int    `json:"ops_per_goroutine"`
	Seed uint64 `json:"seed"`
}

func coldOps(rng *gen.RNG) []c11Op {
	var ops []c11Op
	key := rng.Bytes(20)
	sec := ref.Base32Encode(key)
	for i, n := range []string{"SHA1", "SHA256", "SHA512", "sha256", "MD5", ""} {
		n, want := n, restAlgo(n)
		_ = i
		ops = append(ops, c11Op{desc: "AlgorithmFromStr(" + n + ")", want: fmt.Sprint(want), exec: func() string { return fmt.Sprint(int(otp.AlgorithmFromStr(n))) }})
	}
	for a := 0; a < 4; a++ {
		a := a
		want := ""
		if a < 3 {
			want = algoName(a)
		}
		ops = append(ops, c11Op{desc: fmt.Sprintf("Algorithm(%d).String", a), want: want, exec: func() string { return otp.Algorithm(a).String() }})
	}
	for _, d := range []string{"6", "8", "9", "10", "7", ""} {
		d := d
		ops = append(ops, c11Op{desc: "DigitsFromStr(" + d + ")", want: fmt.Sprint(restDigits(d)), exec: func() string { return fmt.Sprint(otp.DigitsFromStr(d).Int()) }})
	}
	for i, alg := range []string{"SHA1", "SHA256", "SHA512", "sha512", "Sha256"} {
		text := fmt.Sprintf("otpauth://totp/Iss:acc%d?secret=%s&algorithm=%s&digits=8&period=45", i, sec, alg)
		want := fmt.Sprintf("Iss/acc%d/%s/8/%d/45", i, sec, restAlgo(strings.ToUpper(alg)))
		ops = append(ops, c11Op{desc: "ParseOTPAuthURL(algorithm=" + alg + ")", want: want, exec: func() string {
			u, err := url.Parse(text)
			if err != nil {
				return "ERR"
			}
			p, err := otp.ParseOTPAuthURL(u)
			if err != nil {
				return "ERR"
			}
			return fmt.Sprintf("%s/%s/%s/%d/%d/%d", p.Issuer, p.AccountName, p.Secret, p.Digits, p.Algorithm, p.Period)
		}})
	}
	names := append([]string{}, registeredNames[:6]...)
	names = append(names, "OCRA-1:HOTP-SHA256-7:C-QN10-PSHA1-S064-T5M", "OCRA-1:hotp-sha512-9:qn08", "OCRA-1:HOTP-SHA512-9:QN08", "OCRA-2:HOTP-SHA1-6:QN08", "OCRA-1:HOTP-SHA384-6:QN08")
	for _, n := range names {
		n := n
		want := "ERR"
		m, ok := ref.ParseSuiteNameFold(n)
		if ok && ref.SuiteUsable(m) {
			want = fmt.Sprintf("%+v", m)
		}
		ops = append(ops, c11Op{desc: "NewRawSuite(" + n + ")", want: want, exec: func() string {
			s, err := otp.NewRawSuite(n)
			if err != nil {
				return "ERR"
			}
			return fmt.Sprintf("%+v", fromCfg(s.Config()))
		}})
		if ok && ref.SuiteUsable(m) {
			in := admissibleInput(rng, m, 3)
			oin := toOCRAInput(in)
			wantC := ref.OCRA(key, m, in)
			ops = append(ops, c11Op{desc: "NewRawSuite+GenerateOCRA(" + n + ")", want: wantC, code: true, exec: func() string {
				s, err := otp.NewRawSuite(n)
				if err != nil {
					return "ERR"
				}
				return resStr(otp.GenerateOCRA(sec, s, oin))
			}})
		}
	}
	for i := 0; i < 12; i++ {
		ctr := uint64(i * 977)
		d, a := 6+i%5, i%3
		p := &otp.Param{Digits: otp.Digits(d), Algorithm: otp.Algorithm(a), Period: 30, Skew: 1}
		wantH := ref.HOTP(key, ctr, d, a)
		ops = append(ops, c11Op{desc: fmt.Sprintf("GenerateHOTP#%d", i), want: wantH, code: true, exec: func() string { return resStr(otp.GenerateHOTP(sec, ctr, p)) }})
		ops = append(ops, c11Op{desc: fmt.Sprintf("ValidateHOTP#%d", i), want: "true", exec: func() string { ok, _ := otp.ValidateHOTP(sec, wantH, ctr, p); return fmt.Sprint(ok) }})
		t := time.Unix(1700000000+int64(i)*31, 0)
		wantT := ref.TOTP(key, t.Unix(), 30, d, a)
		ops = append(ops, c11Op{desc: fmt.Sprintf("GenerateTOTP#%d", i), want: wantT, code: true, exec: func() string { return resStr(otp.GenerateTOTP(sec, t, p)) }})
	}
	ops = append(ops, c11Op{desc: "GenerateTOTP(nil)", want: ref.TOTP(key, 1700000000, 30, 6, 0), code: true, exec: func() string { return resStr(otp.GenerateTOTP(sec, time.Unix(1700000000, 0), nil)) }})
	ops = append(ops, c11Op{desc: "GenerateHOTP(nil)", want: ref.HOTP(key, 5, 6, 0), code: true, exec: func() string { return resStr(otp.GenerateHOTP(sec, 5, nil)) }})
	ops = append(ops, c11Op{desc: "DecodeSecret", want: hexs(key), exec: func() string {
		b, err := otp.DecodeSecret(" " + strings.ToLower(sec) + "\n")
		if err != nil {
			return "ERR"
		}
		return hexs(b)
	}})
	if q, ok := ref.QuestionToBytes("12345678"); ok {
		ops = append(ops, c11Op{desc: "ParseDecimalChallengeRFC6287", want: hexs(q), exec: func() string {
			b, err := otp.ParseDecimalChallengeRFC6287("12345678")
			if err != nil {
				return "ERR"
			}
			return hexs(b)
		}})
	}
	ops = append(ops, c11Op{desc: "ListSuites", want: fmt.Sprint(len(registeredNames)), exec: func() string { return fmt.Sprint(len(otp.ListSuites())) }})
	ops = append(ops, c11Op{desc: "RandomSecret", want: "52", exec: func() string {
		s, err := otp.RandomSecret(otp.SHA256)
		if err != nil {
			return "ERR"
		}
		return fmt.Sprint(len(s))
	}})
	ops = append(ops, c11Op{desc: "GenerateTOTPURL", want: "totp/Iss/acc/" + sec + "/6/SHA1/30", exec: func() string {
		u, err := otp.GenerateTOTPURL(otp.URLParam{Issuer: "Iss", AccountName: "acc", Secret: sec})
		if err != nil {
			return "ERR"
		}
		o, perr := ref.ParseOTPAuth(u.String())
		if perr != nil {
			return "ERR"
		}
		return o.Type + "/" + o.Issuer + "/" + o.Account + "/" + o.Query["secret"] + "/" + o.Query["digits"] + "/" + o.Query["algorithm"] + "/" + o.Query["period"]
	}})
	return ops
}

func runC11Cold(c *Ctx, cfg c11Cold) {
	r := c.R
	ops := coldOps(gen.New(cfg.Seed)) // builds closures only: no library call has been made in this process yet
	start := make(chan struct{})
	var wg sync.WaitGroup
	var mism atomic.Int64
	for g := 0; g < cfg.G; g++ {
		wg.Add(1)
		go func(g int) {
			defer wg.Done()
			x := cfg.Seed*2654435761 + uint64(g)*40503 + 1
			<-start
			for i := 0; i < cfg.Ops; i++ {
				x ^= x << 13
				x ^= x >> 7
				x ^= x << 17
				op := &ops[x%uint64(len(ops))]
				var got string
				pan := monCatch(func() { got = op.exec() })
				if pan != nil || got != op.want {
					if mism.Add(1) <= 5 {
						r.Violate("C11|cold-start|differs-from-reference|"+opKind(op.desc), "among the first, concurrent calls of a fresh process a result differs from what the call returns alone", "c11cold", cfg, op.want, fmt.Sprintf("%s on goroutine %d (call %d): %q panic=%v", op.desc, g, i, got, pan))
					}
				}
			}
		}(g)
	}
	close(start)
	wg.Wait()
	r.Eval(cfg.G * cfg.Ops)
	r.Count("cold_start_results_compared", cfg.G*cfg.Ops)
	r.Count("cold_start_processes", 1)
	r.Nontrivial(fmt.Sprintf("cold|%d|%d", cfg.G, cfg.Seed))
}

func c11Configs(c *Ctx) []c11Config {
	rng := c.RNG.Fork(11)
	var out []c11Config
	mk := func(g, p int, y, a, gc bool, rep int) {
		ops := 20000 * 4 / (g + 3)
		if c.Thorough {
			ops *= 4
		}
		if ops < 600 {
			ops = 600
		}
		out = append(out, c11Config{G: g, P: p, Ops: ops, Yield: y, Adversary: a, GC: gc, Seed: rng.U64(), Rep: rep})
	}
	if !c.Thorough {
		mk(1, 1, false, false, false, 0) // a sequential history
		mk(4, 2, true, true, true, 0)
		mk(16, 16, false, true, true, 0) // no wrapper installed
		mk(16, 4, true, true, false, 0)
		mk(64, 16, true, false, true, 0)
		mk(2, 1, true, true, true, 0)
		mk(8, 67, false, false, true, 0) // more processors than at package initialisation
		return out
	}
	for rep := 0; rep < 3; rep++ {
		for _, g := range []int{1, 2, 4, 16, 64} {
			for _, p := range []int{1, 2, 4, 16, 61} {
				mk(g, p, (g+p+rep)%3 != 0, (g*p+rep)%4 != 1, (g+rep)%2 == 0, rep)
			}
		}
	}
	return out
}

func init() {
	childParts["C11/cold"] = func(c *Ctx, arg json.RawMessage) {
		var cfg c11Cold
		json.Unmarshal(arg, &cfg)
		runC11Cold(c, cfg)
	}
	childParts["C11/config"] = func(c *Ctx, arg json.RawMessage) {
		var cfg c11Config
		json.Unmarshal(arg, &cfg)
		runC11Config(c, cfg)
		c.R.Extra["race_detector_enabled_in_children"] = raceEnabled
	}
	register(&Prop{
		ID: "C11",
		Rule: "each configuration (goroutines 1..64 x GOMAXPROCS 1..16 x yield injection between pool Get and Put via the HMAC-constructor hook x adversarial pool user scribbling over pooled buffers x GC storm) runs in its own -race child process: a hot table of ~460 operations (a rolling family of 3000 distinct suite strings each compared with its reference parse, HOTP/TOTP/OCRA generation and validation with messages below and above the pooled 256 bytes, suite lookups and parsing, secret decoding, URLs, helpers) over 8 secrets is first run alone, then hammered concurrently; every result is compared with the reference / called-alone value, retained code strings are re-checked after GCs and further calls, and race-detector reports are read from the child's log; " +
			"distinct_nontrivial counts distinct (configuration, table operation) pairs executed concurrently and compared (observed.concurrent_results_compared is the number of results compared)",
		Run: func(c *Ctx) {
			cfgs := c11Configs(c)
			par := c.N(3, 4)
			results := make([]*childResult, len(cfgs))
			monParallel(len(cfgs), par, func(i int) {
				results[i] = runChildPart(c, "VERIF_RACE_BIN", "config", cfgs[i], 15*time.Minute)
			})
			for i, res := range results {
				if res == nil || !res.Ran {
					continue
				}
				judgeRaceReports(c, res, "c11", cfgs[i])
				if res.TimedOut {
					c.R.Inconclusive(fmt.Sprintf("configuration %+v hit the wall-clock watchdog", cfgs[i]))
				} else if res.ExitErr != nil {
					c.R.Violate("C11|concurrent|process-fatal|", "the concurrent workload ends the process with a fatal error (e.g. concurrent map access, checkptr)", "c11", cfgs[i], "clean exit", res.Output)
				}
			}
			// cold starts: fresh -race processes whose first library calls are concurrent
			rngCold := c.RNG.Fork(1111)
			var colds []c11Cold
			for i := 0; i < c.N(6, 40); i++ {
				colds = append(colds, c11Cold{G: []int{4, 16, 64}[i%3], Ops: 40, Seed: rngCold.U64()})
			}
			coldRes := make([]*childResult, len(colds))
			monParallel(len(colds), par, func(i int) {
				coldRes[i] = runChildPart(c, "VERIF_RACE_BIN", "cold", colds[i], 5*time.Minute)
			})
			for i, res := range coldRes {
				if res == nil || !res.Ran {
					continue
				}
				judgeRaceReports(c, res, "c11cold", colds[i])
				if res.ExitErr != nil && !res.TimedOut {
					c.R.Violate("C11|cold-start|process-fatal|", "the first concurrent calls of a fresh process end it with a fatal error (e.g. concurrent map writes)", "c11cold", colds[i], "clean exit", res.Output)
				}
			}
			// thorough: the same table under the address sanitizer (no race detector), one configuration
			if c.Thorough {
				cfg := c11Config{G: 16, P: 8, Ops: 4000, Yield: true, Adversary: true, GC: true, Seed: 99}
				res := runChildPart(c, "VERIF_ASAN_BIN", "config", cfg, 15*time.Minute)
				if res.Ran && res.ExitErr != nil && !res.TimedOut {
					c.R.Violate("C11|concurrent|process-fatal|asan", "the concurrent workload is aborted by the address sanitizer", "c11", cfg, "clean exit", res.Output)
				}
			}
		},
		Replay: func(c *Ctx, kind string, raw json.RawMessage) error {
			switch kind {
			case "c11":
				return replayAs(raw, func(cfg c11Config) {
					res := runChildPart(c, "VERIF_RACE_BIN", "config", cfg, 15*time.Minute)
					judgeRaceReports(c, res, "c11", cfg)
				})
			case "c11cold":
				return replayAs(raw, func(cfg c11Cold) {
					for i := 0; i < 5; i++ { // a cold start is one attempt at a racy first call: repeat a few fresh processes
						res := runChildPart(c, "VERIF_RACE_BIN", "cold", cfg, 5*time.Minute)
						judgeRaceReports(c, res, "c11cold", cfg)
					}
				})
			}
			return fmt.Errorf("kind %q has no single-case replay", kind)
		},
	})
}
