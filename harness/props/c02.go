package props

import (
	"encoding/json"
	"fmt"
	"reflect"
	"time"

	"github.com/ja7ad/otp"

	"verifh/gen"
	"verifh/ref"
)

// ---- C02: TOTP = HOTP at floor(unix/period), consistent defaults ----

type totpCase struct {
	KeyHex   string          `json:"key_hex"`
	Secret   string          `json:"secret"`
	At       gen.InstantSpec `json:"at"`
	Period   uint64          `json:"period"`
	NilParam bool            `json:"nil_param"`
	Digits   uint8           `json:"digits"`
	Algo     uint8           `json:"algo"`
	Skew     uint64          `json:"skew_unused"` // generation does not use Skew; any value must leave the result unchanged
}

func callGenerateTOTP(secret string, t time.Time, p *otp.Param) (code string, err error, pan any) {
	defer func() {
		if x := recover(); x != nil {
			pan = x
		}
	}()
	code, err = otp.GenerateTOTP(secret, t, p)
	return
}

func judgeTOTP(c *Ctx, k totpCase) { judgeTOTPp(c, k, nil) }

// judgeTOTPp: with shared != nil the parameters travel in that caller-owned object, overwritten in place for this call
// (the same pointer as in the previous call, other field values).
func judgeTOTPp(c *Ctx, k totpCase, shared *otp.Param) {
	r := c.R
	key := unhex(k.KeyHex)
	var p *otp.Param
	digits, algo, period := int(k.Digits), int(k.Algo), k.Period
	if k.NilParam {
		digits, algo, period = 6, ref.SHA1, 30
	} else {
		k.Skew = unusedField(uint64(k.At.Unix) ^ uint64(len(k.Secret)))
		p = &otp.Param{Digits: otp.Digits(k.Digits), Algorithm: otp.Algorithm(k.Algo), Period: uint(k.Period), Skew: uint(k.Skew)}
		if shared != nil {
			*shared = *p
			p = shared
			r.Count("calls_with_one_parameter_object_rewritten_in_place", 1)
		}
	}
	at := k.At.Time()
	if gen.HasMono(at) {
		r.Count("instants_carrying_a_monotonic_reading", 1)
	}
	code, err, pan := callGenerateTOTP(k.Secret, at, p)
	r.Eval(1)
	supported := digits >= 1 && digits <= 10 && ref.HashSupported(algo)
	pcls := "period>0"
	if period == 0 {
		pcls = "period=0"
	}
	if pan != nil {
		r.Violate("C02|GenerateTOTP|panic|"+pcls+","+paramClass(digits, algo), "GenerateTOTP panics ("+pcls+", "+paramClass(digits, algo)+")", "totp", k, "a code or an error", panicStr(pan))
		return
	}
	if supported {
		step := ref.Step(k.At.Unix, period)
		want := ref.HOTP(key, step, digits, algo)
		r.Nontrivial(fmt.Sprintf("t|%s|%d|%d|%d|%d", k.KeyHex, k.At.Unix, period, digits, algo))
		if err != nil {
			r.Violate("C02|GenerateTOTP|error-for-supported|"+pcls, "GenerateTOTP fails for supported parameters ("+pcls+")", "totp", k, want, "error: "+err.Error())
		} else if code != want {
			r.Violate("C02|GenerateTOTP|wrong-code|"+pcls, "GenerateTOTP differs from HOTP at floor(unix/period) ("+pcls+")", "totp", k, fmt.Sprintf("%s (step %d)", want, step), code)
		}
	} else if err == nil {
		r.Violate("C02|GenerateTOTP|code-for-unsupported|"+paramClass(digits, algo), "GenerateTOTP answers unsupported parameters with a code", "totp", k, "an error", fmt.Sprintf("code %q", code))
	}
	if r.WantSample() {
		r.Sample(map[string]any{"case": k, "code": code, "err": fmt.Sprint(err)})
	}
}

// sameSecondCase: one second rendered as many time.Time values must give one code.
type sameSecondCase struct {
	Base  totpCase          `json:"base"`
	Specs []gen.InstantSpec `json:"specs"`
}

func judgeSameSecond(c *Ctx, k sameSecondCase) {
	for _, s := range k.Specs {
		b := k.Base
		b.At = s
		judgeTOTP(c, b) // each rendering is compared with the reference (not with its neighbours)
	}
	c.R.Count("same_second_groups", 1)
}

// consistency of defaults between generation, validation and provisioning URLs
type defaultsCase struct {
	KeyHex string `json:"key_hex"`
	Unix   int64  `json:"unix"`
	Digits uint8  `json:"digits"`
	Algo   uint8  `json:"algo"`
}

func judgeDefaults(c *Ctx, k defaultsCase) {
	r := c.R
	key := unhex(k.KeyHex)
	secret := ref.Base32EncodeNoPad(key)
	t := time.Unix(k.Unix, 0)
	want30 := ref.TOTP(key, k.Unix, 30, int(k.Digits), int(k.Algo))
	p0 := &otp.Param{Digits: otp.Digits(k.Digits), Algorithm: otp.Algorithm(k.Algo), Period: 0}
	var ok bool
	var verr error
	pan := monCatch(func() { ok, verr = otp.ValidateTOTP(secret, want30, t, p0) })
	r.Eval(1)
	r.Nontrivial(fmt.Sprintf("d|%s|%d|%d|%d", k.KeyHex, k.Unix, k.Digits, k.Algo))
	if pan != nil || !ok {
		r.Violate("C02|ValidateTOTP|period0-default|", "validation with period 0 does not use 30 s", "defaults", k, "(true, nil) for the 30 s code "+want30, fmt.Sprintf("(%v, %v) panic=%v", ok, verr, pan))
	}
	code, err, pan := callGenerateTOTP(secret, t, p0)
	r.Eval(1)
	if pan != nil || err != nil || code != want30 {
		r.Violate("C02|GenerateTOTP|period0-default|", "generation with period 0 does not use 30 s as validation and URLs do", "defaults", k, want30, fmt.Sprintf("%q err=%v panic=%v", code, err, pan))
	}
	// nil parameters on both sides
	wantNil := ref.TOTP(key, k.Unix, 30, 6, ref.SHA1)
	code, err, pan = callGenerateTOTP(secret, t, nil)
	r.Eval(1)
	if pan != nil || err != nil || code != wantNil {
		r.Violate("C02|GenerateTOTP|nil-default|", "generation with nil parameters is not SHA-1 / 6 digits / 30 s", "defaults", k, wantNil, fmt.Sprintf("%q err=%v panic=%v", code, err, pan))
	}
	pan = monCatch(func() { ok, verr = otp.ValidateTOTP(secret, wantNil, t, nil) })
	r.Eval(1)
	if pan != nil || !ok {
		r.Violate("C02|ValidateTOTP|nil-default|", "validation with nil parameters is not SHA-1 / 6 digits / 30 s", "defaults", k, "(true, nil)", fmt.Sprintf("(%v, %v) panic=%v", ok, verr, pan))
	}
	// provisioning URL with period 0 says 30
	var us string
	pan = monCatch(func() {
		u, e := otp.GenerateTOTPURL(otp.URLParam{Issuer: "i", AccountName: "a", Secret: secret, Period: 0})
		if e == nil && u != nil {
			us = u.String()
		}
	})
	r.Eval(1)
	if o, e := ref.ParseOTPAuth(us); pan != nil || e != nil || o.Query["period"] != "30" {
		r.Violate("C02|GenerateTOTPURL|period0-default|", "provisioning URL for period 0 does not say period=30", "defaults", k, "period=30", us)
	}
}

// stepWalkOffsets: a walk over adjacent time steps around a base step - an ascending run, one step below the
// start, the top of the run again, a descending run past the start, then jumps of up to +-70 steps (with +-1 and
// +-31..33 over-represented). With one key and parameter set throughout, any memo of recent steps is driven through
// filling, growing at either end, wrapping and eviction.
func stepWalkOffsets(rng *gen.RNG, n int) []int64 {
	var o []int64
	up := 30 + rng.Intn(20)
	for i := 0; i <= up; i++ {
		o = append(o, int64(i))
	}
	o = append(o, -1, int64(up), int64(up-1), -2, int64(up))
	for i := up; i >= -10-rng.Intn(30); i-- {
		o = append(o, int64(i))
	}
	cur := int64(0)
	for len(o) < n {
		switch rng.Intn(6) {
		case 0:
			cur += 1
		case 1:
			cur -= 1
		case 2:
			cur += int64(31 + rng.Intn(3))
		case 3:
			cur -= int64(31 + rng.Intn(3))
		default:
			cur += int64(rng.Intn(141)) - 70
		}
		if cur < -200 || cur > 200 {
			cur = 0
		}
		o = append(o, cur)
	}
	return o
}

// relatedCounters: one-goroutine history of counters that agree with a base counter in their low b bits or in
// their high bits, for every b = 1..63 - base, base + k*2^b, base with bit b flipped, base mod 2^b, base with the
// upper half replaced, the two 32-bit halves swapped - each followed by the base again. With one key and parameter
// set throughout, anything that identifies "the same request" by a packed, truncated, folded or narrowed form of the
// counter (shifted into a word next to other fields, cut to 32 or 56 bits, XOR-folded) answers one of these with a
// neighbour's remembered result. Values above limit are left out.
func relatedCounters(rng *gen.RNG, base, limit uint64) []uint64 {
	out := []uint64{base}
	add := func(v uint64) {
		if v <= limit && v != base {
			out = append(out, v, base)
		}
	}
	bits := make([]int, 63)
	for i := range bits {
		bits[i] = i
	}
	for i := len(bits) - 1; i > 0; i-- {
		j := rng.Intn(i + 1)
		bits[i], bits[j] = bits[j], bits[i]
	}
	for _, b0 := range bits {
		b := uint(b0 + 1)
		add(base ^ 1<<b)
		add(base + uint64(1+rng.Intn(3))<<b)
		add(base&(1<<b-1) | rng.U64()&^(1<<b-1)&limit)
		add(base & (1<<b - 1))
		add(base&^(1<<b-1) | rng.U64()&(1<<b-1))
	}
	add(base<<32 | base>>32)
	add(base ^ base<<32)
	// the related values once more without returning to the base in between (an entry overwritten by a relative and
	// then asked for by another relative)
	n := len(out)
	for i := 1; i < n; i += 2 {
		out = append(out, out[i])
	}
	return out
}

// c02RelatedSteps: GenerateTOTP with one secret and parameter set at instants whose time steps are bit-related.
func c02RelatedSteps(c *Ctx) {
	rng := c.RNG.Fork(2020)
	for w := 0; w < c.N(24, 300); w++ {
		p := gen.Pick(rng, []uint64{0, 1, 1, 30, 30, 60, 3600})
		pp := p
		if pp == 0 {
			pp = 30
		}
		limit := (uint64(1)<<62 - pp) / pp
		base := gen.Pick(rng, []uint64{uint64(rng.Intn(1000)), uint64(rng.Intn(1 << 30)), rng.U64() % (1 << 40), rng.U64() % limit})
		k0 := totpCase{KeyHex: hexs(rng.Bytes(20)), Period: p, Digits: uint8(6 + rng.Intn(5)), Algo: uint8(rng.Intn(3)), NilParam: w%8 == 7}
		if k0.NilParam {
			pp, k0.Period = 30, 30
			limit = (uint64(1)<<62 - pp) / pp
			base %= limit
		}
		k0.Secret = ref.Base32EncodeNoPad(unhex(k0.KeyHex))
		for _, step := range relatedCounters(rng, base, limit) {
			k := k0
			k.At = gen.InstantSpec{Unix: int64(step*pp) + int64(rng.Intn(int(pp))), Ns: int64(rng.Intn(1000000000)), Zone: 0}
			judgeTOTP(c, k)
			c.R.Count("bit_related_step_history_calls", 1)
		}
	}
}

// c02ParamRelatives: one goroutine, one secret; a base call, then the same call with exactly ONE thing changed - the
// period (multiples, divisors, +-1, 0 for 30; at instants where the steps of all these periods begin in the same second,
// and at arbitrary ones), the digits, the hash, the instant inside the same step - then the base call again. Whatever
// identifies "the same request" by less than all of (secret, step, period, digits, hash) - the second a step began in,
// the step number without the period, the code without the digits - answers a relative from the base's entry.
func c02ParamRelatives(c *Ctx) {
	rng := c.RNG.Fork(2030)
	for w := 0; w < c.N(60, 900); w++ {
		key := rng.Bytes(20)
		sec := ref.Base32EncodeNoPad(key)
		p := gen.Pick(rng, []uint64{30, 30, 60, 15, 10, 1, 2, 120, 3600, 0})
		pp := p
		if pp == 0 {
			pp = 30
		}
		d, a := uint8(6+rng.Intn(5)), uint8(rng.Intn(3))
		// an instant shortly after a multiple of 43200 s: steps of every period dividing 43200 begin in the same second
		unix := int64(1+rng.Intn(40000))*43200 + int64(rng.Intn(10))
		if w%3 == 0 {
			unix = int64(rng.Intn(1 << 31))
		}
		base := totpCase{KeyHex: hexs(key), Secret: sec, At: gen.InstantSpec{Unix: unix}, Period: p, Digits: d, Algo: a}
		var rel []totpCase
		for _, q := range []uint64{pp * 2, pp * 3, pp * 4, pp * 10, pp / 2, pp / 3, pp / 5, pp + 1, pp - 1, 0, 30, 60, 1, 43200, 86400} {
			if q == p || (q == 0 && p == 30) || (q == 30 && p == 0) {
				continue
			}
			if q == 0 || q >= 1 {
				v := base
				v.Period = q
				rel = append(rel, v)
			}
		}
		for _, dd := range []uint8{d - 1, d + 1, 6, 8, 10} {
			if dd >= 1 && dd <= 10 && dd != d {
				v := base
				v.Digits = dd
				rel = append(rel, v)
			}
		}
		for aa := uint8(0); aa < 3; aa++ {
			if aa != a {
				v := base
				v.Algo = aa
				rel = append(rel, v)
			}
		}
		v := base
		v.At.Unix = unix - unix%int64(pp) + int64(rng.Intn(int(pp)))
		rel = append(rel, v)
		// every second history hands the parameters over in ONE caller-owned object whose fields are rewritten in place
		// between the calls (what identifies parameters by their address sees the same parameters throughout)
		var shared *otp.Param
		if w%2 == 1 {
			shared = new(otp.Param)
		}
		for _, r := range rel {
			judgeTOTPp(c, base, shared)
			judgeTOTPp(c, r, shared)
			c.R.Count("one_parameter_changed_history_calls", 2)
		}
		judgeTOTPp(c, base, shared)
	}
}

func c02StepWalk(c *Ctx) {
	rng := c.RNG.Fork(202)
	for w := 0; w < c.N(12, 150); w++ {
		p := gen.Pick(rng, []uint64{0, 1, 30, 30, 60, 3600})
		pp := int64(p)
		if pp == 0 {
			pp = 30
		}
		base := (1000 + int64(rng.Intn(1<<30))) * pp
		k0 := totpCase{KeyHex: hexs(rng.Bytes(20)), Period: p, Digits: uint8(6 + rng.Intn(5)), Algo: uint8(rng.Intn(3))}
		k0.Secret = ref.Base32EncodeNoPad(unhex(k0.KeyHex))
		for _, off := range stepWalkOffsets(rng, c.N(400, 1500)) {
			k := k0
			k.At = gen.InstantSpec{Unix: base + off*pp + int64(rng.Intn(int(pp))), Ns: int64(rng.Intn(1000000000)), Zone: 0}
			judgeTOTP(c, k)
			c.R.Count("adjacent_step_walk_calls", 1)
		}
	}
}

func init() {
	register(&Prop{
		ID: "C02",
		Rule: "cases = instants (0..2^62, step boundaries +-2 s, 2^31/2^32 edges) x nanoseconds x locations x monotonic readings x periods (0,1,..,2^32, larger than the instant) x digits x hashes x arbitrary Skew (unused by generation), each GenerateTOTP result compared with the reference HOTP at floor(unix/period); " +
			"a reduced differential against the same reference models also runs in a binary built for GOARCH=386 (32-bit int/uint; observed.evaluations_on_a_32bit_build); " +
			"one-goroutine histories with one secret and parameter set: walks over adjacent steps, and time steps that agree with a base step in their low or high b bits for every b (observed.bit_related_step_history_calls), and a base call alternating with calls that differ from it in exactly one of period, digits, hash or the instant inside the step (observed.one_parameter_changed_history_calls); " +
			"distinct_nontrivial counts distinct (key,unix second,period,digits,hash) tuples with supported parameters whose code was compared, plus distinct defaults-consistency tuples",
		Run: func(c *Ctx) {
			rng := c.RNG.Fork(2)
			fp0 := reflect.ValueOf(otp.TimeCounterFunc).Pointer()
			bt := newBatcher(c, judgeTOTP, 0)
			mk := func(key []byte, unix int64, period uint64, d, a int, nilp bool) totpCase {
				return totpCase{KeyHex: hexs(key), Secret: gen.Spell(rng, ref.Base32Encode(key), rng.Intn(gen.NSpellings)), At: rng.InstantSpec(unix), Period: period, Digits: uint8(d), Algo: uint8(a), NilParam: nilp}
			}
			// catalogue: every period x instants around its boundaries
			for _, p := range gen.Periods {
				for i := 0; i < c.N(400, 4000); i++ {
					key := rng.Bytes(gen.Pick(rng, gen.SecretLens))
					bt.add(mk(key, gen.UnixSeconds(rng, p), p, 1+rng.Intn(10), rng.Intn(3), false))
				}
			}
			// step boundaries: k*p-2 .. k*p+2 for random (p,k)
			for i := 0; i < c.N(4000, 100000); i++ {
				p := gen.Period(rng)
				pp := p
				if pp == 0 {
					pp = 30
				}
				kk := rng.U64() % ((1<<62 - 3) / pp)
				if rng.Bool() {
					kk = uint64(rng.Intn(100))
				}
				key := rng.Bytes(20)
				d, a := 1+rng.Intn(10), rng.Intn(3)
				for off := int64(-2); off <= 2; off++ {
					u := int64(kk*pp) + off
					if u < 0 || u >= 1<<62 {
						continue
					}
					bt.add(mk(key, u, p, d, a, false))
				}
			}
			// random, incl. unsupported parameters and nil params
			for i := 0; i < c.N(200000, 4000000); i++ {
				key := rng.Bytes(rng.Intn(70))
				p := gen.Period(rng)
				d, a := 1+rng.Intn(10), rng.Intn(3)
				if rng.Intn(15) == 0 {
					d = rng.Intn(256)
				}
				if rng.Intn(25) == 0 {
					a = rng.Intn(256)
				}
				bt.add(mk(key, gen.UnixSeconds(rng, p), p, d, a, rng.Intn(40) == 0))
			}
			// daylight-saving switches of real zones (incl. the repeated hour): the code depends on the Unix second only
			for i := 0; i < c.N(20000, 400000); i++ {
				at := rng.TransitionInstant()
				p := gen.Pick(rng, []uint64{30, 30, 60, 0, 1, 3600, 1800, 7200})
				k := mk(rng.Bytes(20), at.Unix, p, 1+rng.Intn(10), rng.Intn(3), false)
				k.At = at
				bt.add(k)
			}
			bt.flush()
			// one second, many renderings
			var groups []sameSecondCase
			for i := 0; i < c.N(3000, 50000); i++ {
				p := gen.Period(rng)
				base := mk(rng.Bytes(20), gen.UnixSeconds(rng, p), p, 6+rng.Intn(5), rng.Intn(3), false)
				if i%3 == 0 {
					base.At.Unix = rng.TransitionInstant().Unix
				}
				g := sameSecondCase{Base: base}
				for _, ns := range []int64{0, 1, 500000000, 999999999} {
					for z := 0; z < gen.NZones(); z++ {
						g.Specs = append(g.Specs, gen.InstantSpec{Unix: base.At.Unix, Ns: ns, Zone: z, Mono: (z+int(ns))%2 == 0})
					}
				}
				groups = append(groups, g)
			}
			parallelJudge(c, groups, judgeSameSecond)
			c02StepWalk(c)
			c02RelatedSteps(c)
			c02ParamRelatives(c)
			runArch386(c)
			// step pairs on one goroutine with one secret and parameter set: instant A, then instant B in another
			// step whose monotonic reading disagrees with its wall clock (equal to A's reading, or A's plus/minus a
			// little, or far away) - the code must follow B's Unix second alone
			if !gen.MonoShiftWorks {
				c.R.Inconclusive("instants whose monotonic reading disagrees with the wall clock: time.Time layout not as assumed")
			}
			now := time.Now().Unix()
			for i := 0; i < c.N(3000, 40000) && gen.MonoShiftWorks; i++ {
				p := gen.Pick(rng, []uint64{0, 1, 30, 30, 60, 3600, 86400})
				pp := int64(p)
				if pp == 0 {
					pp = 30
				}
				a := now + int64(rng.Intn(400000000)) - 200000000 // representable with a monotonic reading
				dist := (1 + int64(rng.Intn(5))) * pp
				if rng.Bool() {
					dist = -dist
				}
				b := a + dist + int64(rng.Intn(int(pp)))
				base := mk(rng.Bytes(20), a, p, 6+rng.Intn(5), rng.Intn(3), false)
				base.At = gen.InstantSpec{Unix: a, Ns: int64(rng.Intn(1000000000)), Zone: rng.Intn(gen.NZones()), Mono: true}
				judgeTOTP(c, base)
				second := base
				skew := (a - b) * 1000000000 // B's reading == A's reading
				switch rng.Intn(4) {
				case 1:
					skew += int64(rng.Intn(2000000000)) - 1000000000
				case 2:
					skew = int64(rng.Intn(1<<40)) - 1<<39
				case 3:
					skew -= dist * 1000000000 // the reading moves the opposite way of the wall clock
				}
				second.At = gen.InstantSpec{Unix: b, Ns: int64(rng.Intn(1000000000)), Zone: rng.Intn(gen.NZones()), Mono: true, MonoSkewNs: skew}
				judgeTOTP(c, second)
				judgeTOTP(c, base)
				c.R.Count("stepped_clock_pairs", 1)
			}
			var defs []defaultsCase
			for i := 0; i < c.N(5000, 100000); i++ {
				defs = append(defs, defaultsCase{KeyHex: hexs(rng.Bytes(1 + rng.Intn(40))), Unix: gen.UnixSeconds(rng, 30), Digits: uint8(gen.Pick(rng, []int{6, 7, 8, 9, 10, 1, 4})), Algo: uint8(rng.Intn(3))})
			}
			parallelJudge(c, defs, judgeDefaults)
			// sequential history: (secret+x, step c) followed by (secret, step x‖c) and field-shifted neighbours
			for i := 0; i < c.N(400, 6000); i++ {
				key := rng.Bytes(10)
				base := ref.Base32EncodeNoPad(key)
				period := gen.Pick(rng, []uint64{30, 30, 60, 1, 0})
				pp := period
				if pp == 0 {
					pp = 30
				}
				cstep := uint64(rng.Intn(1000))
				d, a := 1+rng.Intn(10), rng.Intn(3)
				call := func(secret string, step uint64) {
					kb, derr := ref.Base32Decode(secret)
					if derr != nil || ref.Base32EncodeNoPad(kb) != secret || step > (1<<62)/pp {
						return // only canonical spellings (no stray trailing bits)
					}
					judgeTOTP(c, totpCase{KeyHex: hexs(kb), Secret: secret, At: gen.InstantSpec{Unix: int64(step*pp) + int64(rng.Intn(int(pp)))}, Period: period, Digits: uint8(d), Algo: uint8(a)})
					c.R.Count("shifted_field_history_calls", 1)
				}
				for _, x := range []string{"24", "37", "2345", "77", "6652", "2", "7"} {
					var joined uint64
					fmt.Sscan(x+fmt.Sprint(cstep), &joined)
					call(base+x, cstep)
					call(base, joined)
					call(base+x, cstep)
				}
			}
			if reflect.ValueOf(otp.TimeCounterFunc).Pointer() != fp0 {
				c.R.Violate("C02|TimeCounterFunc|replaced|", "the package-level time-counter function was replaced during the run", "none", nil, "unchanged", "changed")
			}
		},
		Replay: func(c *Ctx, kind string, raw json.RawMessage) error {
			switch kind {
			case "totp":
				return replayAs(raw, func(k totpCase) { judgeTOTP(c, k) })
			case "defaults":
				return replayAs(raw, func(k defaultsCase) { judgeDefaults(c, k) })
			}
			return fmt.Errorf("unknown kind %q", kind)
		},
	})
}
