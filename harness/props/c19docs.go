package props

import (
	"bytes"
	"compress/flate"
	"compress/gzip"
	"compress/zlib"
	"context"
	"fmt"
	"io"
	"net/http"
	"os/exec"
	"sync"
	"time"
)

// c19DocsAssets: "a complete HTTP response" for the one part of the service that answers with stored files. The
// documentation assets are requested by many clients at once, each naming a different set of acceptable content
// codings, in several rounds separated by more than the file server's cache lifetime (so that each round meets a cold
// cache of compressed copies). Every response is decoded by the coding named in its own Content-Encoding header and
// must give exactly the bytes the server sends when asked for the identity coding. gzip and deflate are decoded by the
// standard library, br and zstd by an optional helper built from the REST module's own dependencies (when it is not
// there, such responses are counted, not judged).
func c19DocsAssets(c *Ctx, binEnv string, rounds int, raceBase string, done chan<- struct{}) {
	defer close(done)
	r := c.R
	var env []string
	if raceBase != "" {
		env = append(env, "GORACE=halt_on_error=0 log_path="+c.Env["VERIF_SCRATCH"]+"/"+raceBase)
	}
	srv, err := startServer(c, binEnv, env...)
	if err != nil {
		r.Inconclusive("documentation assets: server could not be started: " + err.Error())
		return
	}
	defer srv.stop()
	paths := []string{"/docs/swagger-ui-bundle.js", "/docs/swagger-ui.css", "/docs/swagger-ui-standalone-preset.js", "/docs/index.html", "/docs/doc.json", "/docs/favicon-32x32.png", "/docs/swagger-initializer.js"}
	encs := []string{"identity", "gzip", "br", "zstd", "deflate", "gzip, br, zstd", "zstd, gzip;q=0.5", "br;q=1.0, gzip;q=0.8, *;q=0.1"}
	newClient := func() *http.Client {
		return &http.Client{Timeout: 90 * time.Second, Transport: &http.Transport{MaxConnsPerHost: 40, MaxIdleConnsPerHost: 40, IdleConnTimeout: 20 * time.Second}}
	}
	fetchFrom := func(srv *server, path, accept string) httpResult {
		ctx, cancel := context.WithTimeout(context.Background(), 60*time.Second)
		defer cancel()
		for busy := 0; ; busy++ {
			req, err := http.NewRequestWithContext(ctx, "GET", "http://"+srv.addr+path, nil)
			if err != nil {
				return httpResult{Err: err}
			}
			req.Header.Set("Accept-Encoding", accept) // set by hand: net/http then hands over the body as sent
			resp, err := srv.client.Do(req)
			if err != nil {
				return httpResult{Err: err}
			}
			b, rerr := io.ReadAll(resp.Body)
			resp.Body.Close()
			if rerr == nil && resp.StatusCode == 429 && bytes.Contains(b, []byte("MaxConnsPerIP")) && busy < 100 {
				time.Sleep(30 * time.Millisecond)
				continue
			}
			return httpResult{Status: resp.StatusCode, Header: resp.Header, Body: b, Err: rerr}
		}
	}
	fetch := func(path, accept string) httpResult { return fetchFrom(srv, path, accept) }
	srv.client = newClient()
	defer srv.client.CloseIdleConnections()
	ref := map[string][]byte{}
	var live []string
	for _, p := range paths {
		res := fetch(p, "identity")
		if res.Err != nil || res.Status != 200 || res.Header.Get("Content-Encoding") != "" || len(res.Body) == 0 {
			r.Count("docs_assets_paths_not_served_plain", 1)
			continue
		}
		ref[p] = res.Body
		live = append(live, p)
	}
	if len(live) < 3 {
		r.Inconclusive(fmt.Sprintf("documentation assets: only %d of %d asset paths are served", len(live), len(paths)))
		return
	}
	helper := c.Env["VERIF_DECODE_BIN"]
	decode := func(ce string, body []byte) (out []byte, judged bool, err error) {
		switch ce {
		case "", "identity":
			return body, true, nil
		case "gzip":
			zr, err := gzip.NewReader(bytes.NewReader(body))
			if err != nil {
				return nil, true, err
			}
			out, err = io.ReadAll(zr)
			return out, true, err
		case "deflate":
			// HTTP's "deflate" is the zlib format; servers that send a bare deflate stream are tolerated
			if zr, err := zlib.NewReader(bytes.NewReader(body)); err == nil {
				if out, err = io.ReadAll(zr); err == nil {
					return out, true, nil
				}
			}
			out, err = io.ReadAll(flate.NewReader(bytes.NewReader(body)))
			return out, true, err
		case "br", "zstd":
			if helper == "" {
				return nil, false, nil
			}
			cmd := exec.Command(helper, ce)
			cmd.Stdin = bytes.NewReader(body)
			var ob, eb bytes.Buffer
			cmd.Stdout, cmd.Stderr = &ob, &eb
			if err := cmd.Run(); err != nil {
				if _, isExit := err.(*exec.ExitError); !isExit {
					return nil, false, nil // the helper itself could not run: not a verdict
				}
				return ob.Bytes(), true, fmt.Errorf("%s stream does not decode: %s", ce, bytes.TrimSpace(eb.Bytes()))
			}
			return ob.Bytes(), true, nil
		}
		return nil, false, nil
	}
	type verdictKey struct {
		path, ce string
		sum      [2]uint64
	}
	var mu sync.Mutex
	verdicts := map[verdictKey]string{} // identical (path, coding, body) are decoded once
	const clients = 32
	judge := func(p, accept string, res httpResult, cas map[string]any, others int) {
		r.Eval(1)
		r.Count("docs_asset_responses", 1)
		if res.Err != nil {
			r.Violate("C19|docs-asset|incomplete-response|", "a documentation asset requested together with "+fmt.Sprint(others)+" other asset requests is not answered with a complete response", "none", cas, "a complete response", res.Err.Error())
			return
		}
		if res.Status != 200 {
			r.Violate("C19|docs-asset|status|"+fmt.Sprint(res.Status), "a documentation asset that is served when asked for alone is refused when requested concurrently", "none", cas, "200", fmt.Sprintf("%d %.200q", res.Status, res.Body))
			return
		}
		ce := res.Header.Get("Content-Encoding")
		k := verdictKey{p, ce, [2]uint64{fnv64(res.Body), uint64(len(res.Body))}}
		mu.Lock()
		v, seen := verdicts[k]
		mu.Unlock()
		if !seen {
			out, judged, derr := decode(ce, res.Body)
			switch {
			case !judged:
				v = "unjudged"
			case derr != nil:
				v = "does not decode: " + derr.Error()
			case !bytes.Equal(out, ref[p]):
				at := 0
				for at < len(out) && at < len(ref[p]) && out[at] == ref[p][at] {
					at++
				}
				v = fmt.Sprintf("decodes to %d bytes that differ from the %d identity bytes at offset %d", len(out), len(ref[p]), at)
			default:
				v = "ok"
			}
			mu.Lock()
			verdicts[k] = v
			mu.Unlock()
		}
		coding := ce
		if coding == "" {
			coding = "identity"
		}
		switch v {
		case "ok":
			r.Count("docs_asset_decoded_equal:"+coding, 1)
			r.Nontrivial("docs|" + p + "|" + coding + "|" + accept)
		case "unjudged":
			r.Count("docs_asset_not_judged:"+coding, 1)
		default:
			r.Violate("C19|docs-asset|body-corrupt|"+coding, "the body of a documentation asset, decoded by the content coding the response names, is not the file", "none", cas,
				"the bytes served for Accept-Encoding: identity", fmt.Sprintf("Content-Encoding %q, %d body bytes: %s", ce, len(res.Body), v))
		}
	}
	// beside the rounds: servers started for the purpose, so that every (file, coding) pair is asked for the first time
	// - the moment in which the file server builds its compressed copy - by one client alone on one server and by 40
	// clients at the same moment on the next
	freshDone := make(chan struct{})
	frng := c.RNG.Fork(7300) // forked here: the goroutine below runs beside the rounds, which fork too
	go func() {
		defer close(freshDone)
		t0 := time.Now()
		defer func() { r.Extra["docs_asset_fresh_server_phase_seconds:"+binEnv] = int(time.Since(t0).Seconds()) }()
		for f := 0; f < 12*rounds; f++ {
			fs, err := startServer(c, binEnv, env...)
			if err != nil {
				r.Inconclusive("documentation assets: a fresh server could not be started: " + err.Error())
				return
			}
			fs.client = newClient()
			type pe struct{ p, e string }
			var combos []pe
			for _, p := range live {
				for _, e := range []string{"zstd", "br", "gzip", "zstd, br, gzip"} {
					combos = append(combos, pe{p, e})
				}
			}
			for i := len(combos) - 1; i > 0; i-- {
				j := frng.Intn(i + 1)
				combos[i], combos[j] = combos[j], combos[i]
			}
			for _, k := range combos {
				if f%2 == 0 {
					// every other fresh server is asked by one client only, one request after the other: the copy is
					// then built without any concurrency at all
					res := fetchFrom(fs, k.p, k.e)
					judge(k.p, k.e, res, map[string]any{"path": k.p, "accept_encoding": k.e, "fresh_server": f, "concurrent_clients_same_request": 1}, 0)
					r.Count("docs_asset_first_requests_alone", 1)
					continue
				}
				monParallel(40, 40, func(i int) {
					res := fetchFrom(fs, k.p, k.e)
					judge(k.p, k.e, res, map[string]any{"path": k.p, "accept_encoding": k.e, "fresh_server": f, "concurrent_clients_same_request": 40}, 39)
				})
				r.Count("docs_asset_first_request_bursts", 1)
			}
			if !fs.alive() {
				r.Violate("C19|server|died|docs-assets", "the server process exited while documentation assets were requested concurrently", "none", nil, "alive", "exited; see server log")
			}
			fs.client.CloseIdleConnections()
			fs.stop()
		}
	}()
	defer func() { <-freshDone }()
	for round := 0; round < rounds; round++ {
		if round > 0 {
			// the file server keeps compressed copies for 10 s; the next round must find them gone
			time.Sleep(10500 * time.Millisecond)
		}
		if !srv.alive() {
			break
		}
		monParallel(len(live)*clients, len(live)*clients, func(i int) {
			p := live[i%len(live)]
			accept := encs[(i/len(live)+round)%len(encs)]
			res := fetch(p, accept)
			judge(p, accept, res, map[string]any{"path": p, "accept_encoding": accept, "round": round, "concurrent_clients": len(live) * clients}, len(live)*clients-1)
		})
		// byte ranges of the same files, again many at once: a 206 must carry exactly the bytes its own Content-Range
		// names, a 200 the whole file, anything else must be a refusal (4xx)
		rrng := c.RNG.Fork(uint64(7100 + round))
		type rangeReq struct{ path, hdr string }
		var rr []rangeReq
		for i := 0; i < 96; i++ {
			p := live[i%len(live)]
			n := len(ref[p])
			a := rrng.Intn(n + n/8 + 1)
			b := a + rrng.Intn(n-a%n)
			h := fmt.Sprintf("bytes=%d-%d", a, b)
			switch rrng.Intn(6) {
			case 0:
				h = fmt.Sprintf("bytes=%d-", a)
			case 1:
				h = fmt.Sprintf("bytes=-%d", 1+rrng.Intn(n+10))
			case 2:
				h = fmt.Sprintf("bytes=%d-%d,%d-%d", a, b, 0, 9)
			}
			rr = append(rr, rangeReq{p, h})
		}
		monParallel(len(rr), len(rr), func(i int) {
			k := rr[i]
			ctx, cancel := context.WithTimeout(context.Background(), 60*time.Second)
			defer cancel()
			req, _ := http.NewRequestWithContext(ctx, "GET", "http://"+srv.addr+k.path, nil)
			req.Header.Set("Accept-Encoding", "identity")
			req.Header.Set("Range", k.hdr)
			resp, err := srv.client.Do(req)
			r.Eval(1)
			cas := map[string]any{"path": k.path, "range": k.hdr, "round": round}
			if err != nil {
				r.Violate("C19|docs-asset|incomplete-response|range", "a byte-range request for a documentation asset is not answered with a complete response", "none", cas, "a complete response", err.Error())
				return
			}
			body, rerr := io.ReadAll(resp.Body)
			resp.Body.Close()
			if rerr != nil {
				r.Violate("C19|docs-asset|incomplete-response|range", "a byte-range request for a documentation asset is not answered with a complete response", "none", cas, "a complete response", rerr.Error())
				return
			}
			r.Count("docs_asset_range_responses", 1)
			full := ref[k.path]
			switch {
			case resp.StatusCode == 429 || resp.StatusCode >= 400 && resp.StatusCode < 500:
				r.Count("docs_asset_range_refused", 1)
			case resp.StatusCode == 200 && resp.Header.Get("Content-Encoding") == "":
				if !bytes.Equal(body, full) {
					r.Violate("C19|docs-asset|body-corrupt|range-200", "a documentation asset answered 200 to a range request does not carry the file", "none", cas, fmt.Sprintf("the %d bytes of the file", len(full)), fmt.Sprintf("%d other bytes", len(body)))
				}
				r.Count("docs_asset_range_whole_file", 1)
			case resp.StatusCode == 206 && resp.Header.Get("Content-Encoding") == "":
				var a, b, total int
				if n, _ := fmt.Sscanf(resp.Header.Get("Content-Range"), "bytes %d-%d/%d", &a, &b, &total); n != 3 {
					r.Count("docs_asset_range_multipart_or_unparsed", 1)
					return
				}
				if total != len(full) || a < 0 || b < a || b >= len(full) || !bytes.Equal(body, full[a:b+1]) {
					r.Violate("C19|docs-asset|body-corrupt|range-206", "a partial response for a documentation asset does not carry the bytes its own Content-Range names", "none", cas,
						fmt.Sprintf("bytes %s of the %d-byte file", resp.Header.Get("Content-Range"), len(full)), fmt.Sprintf("%d bytes that differ", len(body)))
					return
				}
				r.Count("docs_asset_range_exact", 1)
				r.Nontrivial("docs-range|" + k.path + "|" + k.hdr)
			default:
				r.Count("docs_asset_range_other_status", 1)
				if resp.StatusCode >= 500 {
					r.Violate("C19|docs-asset|status|range-"+fmt.Sprint(resp.StatusCode), "a byte-range request for a documentation asset is answered with a server error", "none", cas, "206, 200 or a 4xx refusal", fmt.Sprintf("%d %.200q", resp.StatusCode, body))
				}
			}
		})
		r.Count("docs_asset_rounds", 1)
	}
	if !srv.alive() {
		r.Violate("C19|server|died|docs-assets", "the server process exited while documentation assets were requested concurrently", "none", nil, "alive", "exited; see server log")
	}
}

func fnv64(b []byte) uint64 {
	h := uint64(14695981039346656037)
	for _, x := range b {
		h ^= uint64(x)
		h *= 1099511628211
	}
	return h
}
