package props

import (
	"bufio"
	"bytes"
	"encoding/json"
	"fmt"
	"io"
	"net"
	"net/http"
	"net/url"
	"sort"
	"strings"
	"sync"
	"time"
	"unicode/utf16"
	"unicode/utf8"

	"github.com/ja7ad/otp"

	"verifh/gen"
	"verifh/ref"
)

// ---- C18: the REST service returns exactly the library's result for the request ----

type restCase struct {
	EP     string         `json:"endpoint"`
	Method string         `json:"method"`
	F      map[string]any `json:"fields"` // JSON body as sent (nil for GET)
	Query  string         `json:"query,omitempty"`
	KeyHex string         `json:"key_hex,omitempty"` // what the secret decodes to (oracle side)
	Fresh  bool           `json:"fresh_connection"`
	// Framing of the request body: "" (Content-Length), "chunked", "expect-100"
	Framing string `json:"framing,omitempty"`
	Note    string `json:"note,omitempty"`
	// RawBody, when set, is the body text actually sent: the same values as F in another spelling (numbers as
	// 100.0 / 1e2 / "100", keys in another order, fields the endpoint does not use present with a wrong type).
	// Such a request is not well-formed; it may be refused (status >= 400) or must be answered for the values it spells.
	RawBody string `json:"raw_body,omitempty"`
	// MustAnswer: the RawBody is the same JSON text at the lexical level (string escapes, white space between tokens),
	// which every JSON reader must read as the same values: a refusal is not accepted for it
	MustAnswer bool `json:"must_answer,omitempty"`
	// RawPath, when set, is the request target actually sent: another spelling of the endpoint's path (doubled
	// slash, dot segments, percent-encoded letters). Same two-answer rule: refused, or answered correctly.
	RawPath string `json:"raw_path,omitempty"`
}

func fStr(f map[string]any, k string) string {
	if v, ok := f[k].(string); ok {
		return v
	}
	return ""
}
func fU64(f map[string]any, k string) uint64 {
	switch v := f[k].(type) {
	case uint64:
		return v
	case int64:
		return uint64(v)
	case int:
		return uint64(v)
	case float64:
		return uint64(v)
	case json.Number:
		var u uint64
		fmt.Sscan(v.String(), &u)
		return u
	}
	return 0
}
func fBool(f map[string]any, k string) bool { b, _ := f[k].(bool); return b }

// documented string-to-enum fallbacks of the API: unknown spellings mean SHA1 / 6 digits
func restAlgo(s string) int {
	switch s {
	case "SHA256":
		return ref.SHA256
	case "SHA512":
		return ref.SHA512
	}
	return ref.SHA1
}
func restDigits(s string) int {
	switch s {
	case "8":
		return 8
	case "9":
		return 9
	case "10":
		return 10
	}
	return 6
}

func algoName(a int) string { return []string{"SHA1", "SHA256", "SHA512"}[a] }

func decodeJSON(b []byte) (map[string]any, error) {
	var m map[string]any
	d := json.NewDecoder(strings.NewReader(string(b)))
	d.UseNumber()
	err := d.Decode(&m)
	return m, err
}

func restSuiteModel(f map[string]any) (ref.Suite, otp.Suite, bool) {
	if rs := fStr(f, "raw_suite"); rs != "" {
		m, ok := ref.ParseSuiteName(rs)
		s, err := otp.NewRawSuite(rs)
		return m, s, ok && err == nil
	}
	sm, _ := f["suite"].(map[string]any)
	if sm == nil {
		return ref.Suite{}, nil, false
	}
	m := ref.Suite{Raw: "", Hash: restAlgo(fStr(sm, "hash_function")), Digits: int(fU64(sm, "code_digits")), Challenge: int(fU64(sm, "challenge_format")),
		C: fBool(sm, "include_counter"), Q: fBool(sm, "include_challenge"), P: fBool(sm, "include_password"), S: fBool(sm, "include_session"), T: fBool(sm, "include_timestamp"),
		PasswordHash: int(fU64(sm, "password_hash")), TimeStep: int(fU64(sm, "timestep"))}
	s, err := otp.NewSuite(toCfg(m))
	return m, s, err == nil
}

func restInput(f map[string]any) ref.Input {
	im, _ := f["input"].(map[string]any)
	var in ref.Input
	get := func(k string) []byte {
		s := fStr(im, k)
		if s == "" {
			return nil
		}
		b, _ := ref.HexDecode(s)
		return b
	}
	in.Counter, in.Challenge, in.Password, in.Session, in.Timestamp = get("counter_hex"), get("challenge_hex"), get("password_hex"), get("session_info_hex"), get("timestamp_hex")
	return in
}

func judgeREST(c *Ctx, srv *server, k restCase) { judgeRESTWith(c, srv, k, nil, 0, 0) }

// judgeRESTWith judges a well-formed request; with pre == nil it sends the request itself, otherwise pre is the answer
// already obtained for it by another transport (a pipelined connection) between the instants pt0 and pt1.
// endpoints for which a no-response violation has been confirmed in this run: further requests to them are skipped
// (and counted), so that the cost of a verdict on a server whose endpoint hangs stays bounded (each unanswered request
// costs two 60-second waits). Only ever filled after a violation has been recorded.
var deadEndpoints sync.Map

func judgeRESTWith(c *Ctx, srv *server, k restCase, pre *httpResult, pt0, pt1 int64) {
	r := c.R
	if _, dead := deadEndpoints.Load(k.EP); dead && pre == nil {
		r.Count("requests_skipped_after_a_confirmed_no_response_of_their_endpoint", 1)
		return
	}
	var body []byte
	if k.F != nil {
		body = jsonBody(k.F)
	}
	if k.RawBody != "" {
		body = []byte(k.RawBody)
	}
	path := "/" + k.EP
	if k.RawPath != "" {
		path = k.RawPath
	}
	if k.Query != "" {
		path += "?" + k.Query
	}
	var res httpResult
	var t0, t1 int64
	if pre != nil {
		res, t0, t1 = *pre, pt0, pt1
	} else {
		t0 = time.Now().Unix()
		res = srv.doFramed(k.Method, path, body, k.Fresh, 60*time.Second, k.Framing)
		t1 = time.Now().Unix()
	}
	r.Eval(1)
	r.Count("requests:"+k.EP, 1)
	r.Nontrivial(k.EP + "|" + string(body) + "|" + k.Query)
	v := func(cls, what, exp, obs string) {
		r.Violate(r.Prop+"|/"+k.EP+"|"+cls+"|", "/"+k.EP+": "+what, "rest", k, exp, obs)
	}
	if res.Err != nil {
		// confirm before blaming the service: the same request again on a fresh connection, and a trivial GET / —
		// a well-formed request that stays unanswered while the server answers "/" promptly is a violation;
		// if "/" is unanswered too the machine/server state is unclear (inconclusive unless the process died)
		res2 := srv.do(k.Method, path, body, true, 60*time.Second)
		home := srv.do("GET", "/", nil, true, 20*time.Second)
		switch {
		case res2.Err == nil:
			res = res2
			r.Count("requests_answered_only_on_retry", 1)
		case !srv.alive():
			v("server-died", "the server process exited", "200 + JSON", res.Err.Error())
			return
		case home.Err == nil:
			v("no-response", "a well-formed request stays unanswered (twice, 60 s each) while the server answers GET / promptly", "200 + JSON", res2.Err.Error())
			deadEndpoints.Store(k.EP, true)
			return
		default:
			r.Inconclusive("a well-formed request and GET / both went unanswered: " + k.EP)
			return
		}
	}
	if (k.RawBody != "" || k.RawPath != "") && res.Status >= 300 && !k.MustAnswer {
		r.Count("respelled_requests_refused", 1)
		return
	}
	if k.RawBody != "" || k.RawPath != "" {
		r.Count("respelled_requests_answered", 1)
	}
	if res.Status != 200 {
		v("not-200", "a well-formed request is not answered with 200", "200", fmt.Sprintf("%d %s", res.Status, clipS(string(res.Body))))
		return
	}
	out, err := decodeJSON(res.Body)
	if err != nil {
		v("bad-json", "the response body is not a JSON object", "JSON object", clipS(string(res.Body)))
		return
	}
	key := unhex(k.KeyHex)
	f := k.F
	secret := strings.TrimSpace(fStr(f, "secret"))
	switch k.EP {
	case "totp/generate", "hotp/generate":
		d, a := restDigits(fStr(f, "digits")), restAlgo(fStr(f, "algorithm"))
		var want, lib string
		if k.EP == "hotp/generate" {
			ctr := fU64(f, "counter")
			want = ref.HOTP(key, ctr, d, a)
			lib, _ = otp.GenerateHOTP(secret, ctr, &otp.Param{Digits: otp.Digits(d), Algorithm: otp.Algorithm(a)})
			if fU64(out, "counter") != ctr {
				v("echo", "the response does not echo the request's counter", fmt.Sprint(ctr), fmt.Sprint(out["counter"]))
			}
		} else {
			period := fU64(f, "period")
			ts := int64(fU64(f, "timestamp"))
			rts := int64(fU64(out, "timestamp"))
			if ts > 0 {
				if rts != ts {
					v("echo", "the response does not echo the request's timestamp", fmt.Sprint(ts), fmt.Sprint(out["timestamp"]))
				}
			} else {
				// timestamp omitted => now: the clock only brackets the timestamp the server itself reports
				if rts < t0-1 || rts > t1+1 {
					v("now-default", "with the timestamp omitted the service does not use the current time", fmt.Sprintf("between %d and %d", t0, t1), fmt.Sprint(rts))
				}
				ts = rts
			}
			want = ref.TOTP(key, ts, period, d, a)
			p := period
			if p == 0 {
				p = 30
			}
			lib, _ = otp.GenerateTOTP(secret, time.Unix(ts, 0), &otp.Param{Digits: otp.Digits(d), Algorithm: otp.Algorithm(a), Period: uint(p)})
		}
		got := fStr(out, "code")
		if got != want || got != lib {
			v("wrong-code", "the generated code is not the library's / RFC value for the request's fields", want+" (library: "+lib+")", got)
		}
	case "totp/validate", "hotp/validate":
		d, a := restDigits(fStr(f, "digits")), restAlgo(fStr(f, "algorithm"))
		skew := fU64(f, "skew")
		code := fStr(f, "code")
		var want, lib bool
		// at the two ends of the 64-bit counter range (window reaching below 0 or above 2^64-1) the deciding
		// oracle is the library's own verdict alone: the property asks for "the library's verdict"
		edge := false
		if k.EP == "hotp/validate" {
			ctr := fU64(f, "counter")
			if skew <= 10 && ctr <= 1<<64-1-skew {
				_, want = ref.HOTPWindow(key, ctr, skew, d, a)[code]
			} else if skew <= 10 {
				edge = true
			}
			lib, _ = otp.ValidateHOTP(secret, code, ctr, &otp.Param{Digits: otp.Digits(d), Algorithm: otp.Algorithm(a), Skew: uint(skew)})
		} else {
			ts := int64(fU64(f, "timestamp"))
			period := fU64(f, "period")
			if ts <= 0 {
				ts = t0 // only used with period 3600 / skew 1 probes: an hour-long stall would be needed to change the verdict
			}
			step := ref.Step(ts, period)
			if skew <= 10 && step >= skew {
				_, want = ref.HOTPWindow(key, step, skew, d, a)[code]
			} else if skew <= 10 {
				edge = true
			}
			lib, _ = otp.ValidateTOTP(secret, code, time.Unix(ts, 0), &otp.Param{Digits: otp.Digits(d), Algorithm: otp.Algorithm(a), Skew: uint(skew), Period: uint(period)})
		}
		got, isBool := out["valid"].(bool)
		if edge {
			want = lib
			c.R.Count("validate_requests_at_counter_range_ends", 1)
		}
		if !isBool || got != want || got != lib {
			v("wrong-verdict", "the validation verdict differs from the library's verdict / the window oracle ("+k.Note+")", fmt.Sprintf("%v (library: %v)", want, lib), fmt.Sprint(out["valid"]))
		}
	case "ocra/generate", "ocra/validate":
		m, suite, ok := restSuiteModel(f)
		in := restInput(f)
		if !ok || !ref.SuiteUsable(m) || !ref.Admit(m, in) {
			return // generator bug guard: only admissible requests are sent here
		}
		want := ref.OCRA(key, m, in)
		lib, _ := otp.GenerateOCRA(secret, suite, toOCRAInput(in))
		if k.EP == "ocra/generate" {
			got := fStr(out, "code")
			if got != want || got != lib {
				v("wrong-code", "the OCRA code is not the library's / RFC value for the request's suite and input", want+" (library: "+lib+")", got)
			}
			if fStr(out, "suite") != m.Raw {
				v("echo", "the response does not name the request's suite", m.Raw, fStr(out, "suite"))
			}
		} else {
			code := fStr(f, "code")
			libv, _ := otp.ValidateOCRA(secret, code, suite, toOCRAInput(in))
			got, isBool := out["valid"].(bool)
			if !isBool || got != (code == want) || got != libv {
				v("wrong-verdict", "the OCRA verdict differs from the library's verdict ("+k.Note+")", fmt.Sprintf("%v (library: %v)", code == want, libv), fmt.Sprint(out["valid"]))
			}
		}
	case "ocra/suites":
		var got []string
		if l, ok := out["suites"].([]any); ok {
			for _, x := range l {
				got = append(got, fmt.Sprint(x))
			}
		}
		want := otp.ListSuites()
		sort.Strings(got)
		sort.Strings(want)
		if strings.Join(got, ",") != strings.Join(want, ",") {
			v("suite-list", "the suite list differs from the library's registry", fmt.Sprint(len(want), " names"), fmt.Sprint(len(got), " names"))
		}
	case "ocra/suite":
		name := fStr(f, "raw_suite")
		cfg := otp.SuiteConfigFromRaws(name)
		m, _ := ref.ParseSuiteName(name)
		cm, _ := out["config"].(map[string]any)
		got := ref.Suite{Raw: fStr(out, "raw"), Hash: -1, Digits: int(fU64(cm, "code_digits")), Challenge: int(fU64(cm, "challenge_format")), C: fBool(cm, "include_counter"), Q: fBool(cm, "include_challenge"),
			P: fBool(cm, "include_password"), S: fBool(cm, "include_session"), T: fBool(cm, "include_timestamp"), PasswordHash: int(fU64(cm, "password_hash")), TimeStep: int(fU64(cm, "timestep"))}
		for i, n := range []string{"SHA1", "SHA256", "SHA512"} {
			if fStr(cm, "hash_function") == n {
				got.Hash = i
			}
		}
		lc := fromCfg(cfg)
		lc.Raw = name
		if got != lc {
			v("suite-description", "the suite description differs from the library's registry entry", fmt.Sprintf("%+v", lc), fmt.Sprintf("%+v", got))
		}
		if d := sameMeaning(got, m); d != "" {
			v("suite-description", "the suite description does not mean what the name says", fmt.Sprintf("%+v", m), d)
		}
	case "otp/url":
		d, a := restDigits(fStr(f, "digits")), restAlgo(fStr(f, "algorithm"))
		up := otp.URLParam{Issuer: fStr(f, "issuer"), AccountName: fStr(f, "account_name"), Secret: fStr(f, "secret"), Period: uint(fU64(f, "period")), Digits: otp.Digits(d), Algorithm: otp.Algorithm(a)}
		var u *url.URL
		if fStr(f, "type") == "totp" {
			u, _ = otp.GenerateTOTPURL(up)
		} else {
			u, _ = otp.GenerateHOTPURL(up)
		}
		got := fStr(out, "url")
		if u == nil || got != u.String() {
			v("url", "the URL differs from the library's URL builder", fmt.Sprint(u), got)
		}
		o, perr := ref.ParseOTPAuth(got)
		if perr != nil || o.Type != fStr(f, "type") || o.Issuer != up.Issuer || o.Account != up.AccountName || o.Query["secret"] != up.Secret || o.Query["digits"] != fmt.Sprint(d) || o.Query["algorithm"] != algoName(a) {
			v("url", "the URL text does not carry the request's fields", mustJSON(f), got)
		}
	case "otp/secret":
		q, _ := url.ParseQuery(k.Query)
		a := restAlgo(q.Get("algorithm"))
		sec := fStr(out, "secret")
		b, derr := ref.Base32Decode(sec)
		if derr != nil || len(b) != []int{20, 32, 64}[a] || ref.Base32EncodeNoPad(b) != sec {
			v("secret", "the secret is not upper-case unpadded base32 of 20/32/64 bytes for the requested hash", fmt.Sprint([]int{20, 32, 64}[a], " bytes"), sec)
		}
		if fStr(out, "algorithm") != algoName(a) {
			v("echo", "the response does not echo the algorithm", algoName(a), fStr(out, "algorithm"))
		}
		secretSeen.Lock()
		if secretSeen.m[sec] {
			v("secret", "the same secret was returned twice", "pairwise distinct secrets", sec)
		}
		secretSeen.m[sec] = true
		secretSeen.Unlock()
	}
	if r.WantSample() {
		r.Sample(map[string]any{"request": k, "status": res.Status, "response": clipS(string(res.Body))})
	}
}

var secretSeen = struct {
	sync.Mutex
	m map[string]bool
}{m: map[string]bool{}}

func spellDigits(rng *gen.RNG) (string, bool) {
	switch rng.Intn(8) {
	case 0:
		return "", false // omitted
	case 1:
		return gen.Pick(rng, []string{"7", "06", "six", "11", "0", " 8", "8 ", "１０", "-6"}), true
	}
	return gen.Pick(rng, []string{"6", "8", "9", "10"}), true
}
func spellAlgo(rng *gen.RNG) (string, bool) {
	switch rng.Intn(8) {
	case 0:
		return "", false
	case 1:
		return gen.Pick(rng, []string{"sha1", "sha256", "SHA-256", "SHA384", "MD5", "SHA512 ", "Sha512", "2"}), true
	}
	return gen.Pick(rng, []string{"SHA1", "SHA256", "SHA512"}), true
}

func restSecret(rng *gen.RNG) (string, []byte) {
	key := rng.Bytes(gen.Pick(rng, []int{1, 10, 20, 25, 32, 40, 64, 65, 80, 100}))
	switch rng.Intn(10) {
	case 0:
		// keys whose base32 text also reads as hex / decimal / a single repeated letter (lengths whose base32 text has 40, 64, 128 … characters)
		key = gen.AmbiguousKey(rng, gen.Pick(rng, []int{5, 10, 20, 25, 40, 80}))
	case 1:
		key = gen.SecretBytes(rng, gen.Pick(rng, []int{20, 25, 40, 80}), rng.Intn(2)) // all-zero / all-0xFF
	}
	s := gen.Spell(rng, ref.Base32Encode(key), rng.Intn(gen.NSpellings))
	if strings.TrimSpace(s) == "" {
		s = ref.Base32Encode(key)
	}
	return s, key
}

func c18Cases(c *Ctx, n int) []restCase {
	rng := c.RNG.Fork(18)
	var out []restCase
	add := func(k restCase) {
		k.Fresh = rng.Intn(5) == 0
		if k.F != nil {
			switch rng.Intn(8) {
			case 0:
				k.Framing = framingChunked
			case 1:
				k.Framing = framingExpect100
			}
		}
		out = append(out, k)
	}
	names := liveNames()
	for i := 0; i < n; i++ {
		sec, key := restSecret(rng)
		f := map[string]any{"secret": sec}
		dg, hasD := spellDigits(rng)
		al, hasA := spellAlgo(rng)
		if hasD {
			f["digits"] = dg
		}
		if hasA {
			f["algorithm"] = al
		}
		d, a := restDigits(dg), restAlgo(al)
		switch i % 10 {
		case 0: // totp/generate
			if rng.Intn(8) != 0 {
				f["timestamp"] = uint64(1 + gen.UnixSeconds(rng, 30)%(1<<40))
			}
			if rng.Intn(4) != 0 {
				f["period"] = gen.Pick(rng, []uint64{0, 1, 30, 60, 3600, 1 << 32})
			}
			add(restCase{EP: "totp/generate", Method: "POST", F: f, KeyHex: hexs(key)})
		case 1: // totp/validate
			ts := uint64(1 + gen.UnixSeconds(rng, 30)%(1<<40))
			period := gen.Pick(rng, []uint64{0, 1, 30, 60, 3600})
			skew := uint64(rng.Intn(11))
			if rng.Intn(3) == 0 {
				skew = 0
			}
			if ref.Step(int64(ts), period) < skew {
				ts += 11 * 3600
			}
			f["timestamp"] = ts
			if skew != 0 || rng.Bool() {
				f["skew"] = skew // an omitted skew means 0 (history of earlier requests must not matter)
			}
			if period != 0 || rng.Bool() {
				f["period"] = period
			}
			dist := int64(rng.Intn(int(2*skew+5))) - int64(skew) - 2
			step := int64(ref.Step(int64(ts), period)) + dist
			if step < 0 {
				step = 0
			}
			f["code"] = ref.HOTP(key, uint64(step), d, a)
			note := fmt.Sprintf("genuine code at distance %+d, skew %d", dist, skew)
			if rng.Intn(10) == 0 && skew > 0 {
				// a timestamp inside the first skew steps of the epoch: the code of a counter at modular distance dist
				p := period
				if p == 0 {
					p = 30
				}
				ts = 1 + uint64(rng.Intn(int(skew*p)))
				f["timestamp"] = ts
				f["code"] = ref.HOTP(key, ref.Step(int64(ts), period)+uint64(dist), d, a)
				note = fmt.Sprintf("timestamp in the first %d steps, code of the counter at modular distance %+d", skew, dist)
			}
			if rng.Intn(6) == 0 {
				f["skew"] = uint64(11 + rng.Intn(50))
				note = "refused skew"
			}
			add(restCase{EP: "totp/validate", Method: "POST", F: f, KeyHex: hexs(key), Note: note})
		case 2: // hotp/generate
			if rng.Intn(6) != 0 {
				f["counter"] = gen.Counter(rng)
			}
			add(restCase{EP: "hotp/generate", Method: "POST", F: f, KeyHex: hexs(key)})
		case 3: // hotp/validate
			ctr := gen.Counter(rng)
			if ctr > 1<<64-40 {
				ctr = 1<<63 + uint64(rng.Intn(100))
			}
			skew := uint64(rng.Intn(11))
			if rng.Intn(3) == 0 {
				skew = 0
			}
			if rng.Intn(8) == 0 {
				ctr = 0
			}
			if ctr != 0 || rng.Bool() {
				f["counter"] = ctr
			}
			if skew != 0 || rng.Bool() {
				f["skew"] = skew
			}
			dist := int64(rng.Intn(int(2*skew+5))) - int64(skew) - 2
			x := ctr + uint64(dist)
			if dist < 0 && ctr < uint64(-dist) {
				x = 0
			}
			f["code"] = ref.HOTP(key, x, d, a)
			note := fmt.Sprintf("genuine code at distance %+d, window %d", dist, skew)
			if rng.Intn(12) == 0 {
				// counters within the last / first few values of the 64-bit range, code at modular distance dist
				if rng.Bool() {
					ctr = 1<<64 - 1 - uint64(rng.Intn(12))
				} else {
					ctr = uint64(rng.Intn(12))
				}
				f["counter"] = ctr
				f["skew"] = skew
				f["code"] = ref.HOTP(key, ctr+uint64(dist), d, a)
				note = fmt.Sprintf("counter at the end of the range, code at modular distance %+d, window %d", dist, skew)
			}
			add(restCase{EP: "hotp/validate", Method: "POST", F: f, KeyHex: hexs(key), Note: note})
		case 4, 5: // ocra generate / validate, raw and structured suites
			delete(f, "digits")
			delete(f, "algorithm")
			var m ref.Suite
			if rng.Bool() && len(names) > 0 {
				n := gen.Pick(rng, names)
				mm, ok := ref.ParseSuiteName(n)
				if !ok {
					continue
				}
				m = mm
				f["raw_suite"] = n
			} else {
				hb := handBuiltSuites(rng, []string{""})
				m = hb[rng.Intn(len(hb))]
				m.Raw = ""
				sm := map[string]any{"hash_function": algoName(m.Hash), "code_digits": m.Digits, "challenge_format": m.Challenge, "include_counter": m.C, "include_challenge": m.Q,
					"include_password": m.P, "include_session": m.S, "include_timestamp": m.T}
				if m.PasswordHash != 0 {
					sm["password_hash"] = m.PasswordHash
				}
				if m.TimeStep > 0 {
					sm["timestep"] = m.TimeStep
				} else {
					m.TimeStep = 0
				}
				if !m.T {
					m.TimeStep = int(fU64(sm, "timestep"))
				}
				f["suite"] = sm
			}
			in := admissibleInput(rng, m, i)
			// the REST layer reads hex text; an empty field cannot be distinguished from an absent one
			im := map[string]any{}
			put := func(k string, b []byte) {
				if len(b) > 0 {
					im[k] = ref.HexEncode(b)
				}
			}
			put("counter_hex", in.Counter)
			put("challenge_hex", in.Challenge)
			put("password_hex", in.Password)
			put("session_info_hex", in.Session)
			put("timestamp_hex", in.Timestamp)
			if m.Q && len(in.Challenge) == 0 {
				continue
			}
			f["input"] = im
			if i%10 == 4 {
				add(restCase{EP: "ocra/generate", Method: "POST", F: f, KeyHex: hexs(key)})
			} else {
				in2 := restInput(f)
				want := ref.OCRA(key, m, in2)
				code, note := want, "the generated code"
				if rng.Intn(3) == 0 {
					b := []byte(want)
					b[rng.Intn(len(b))] ^= 1
					code, note = string(b), "one character changed"
				}
				f["code"] = code
				add(restCase{EP: "ocra/validate", Method: "POST", F: f, KeyHex: hexs(key), Note: note})
			}
		case 6:
			add(restCase{EP: "ocra/suites", Method: "GET"})
		case 7:
			if len(names) > 0 {
				add(restCase{EP: "ocra/suite", Method: "POST", F: map[string]any{"raw_suite": gen.Pick(rng, names)}})
			}
		case 8:
			iss, acc := gen.URLString(rng, false), gen.URLString(rng, true)
			if rng.Intn(4) == 0 {
				// fields that are related to one another (the account repeating, containing or extending the issuer):
				// independent draws never produce these
				acc = gen.Related(rng, iss, strings.ToLower, strings.ToUpper)
			}
			if rng.Intn(6) == 0 {
				// large fields: responses of several KiB to 100 KiB (buffer-size thresholds, pooled buffers under concurrency)
				for n := gen.Pick(rng, []int{50, 300, 1500, 8000}); n > 0; n-- {
					iss += gen.URLString(rng, false)
				}
				if rng.Bool() {
					acc += strings.Repeat(gen.URLString(rng, true), 200)
				}
			}
			if strings.TrimSpace(iss) == "" || strings.TrimSpace(acc) == "" || !validUTF8(iss) || !validUTF8(acc) {
				continue
			}
			f["secret"] = strings.TrimSpace(sec)
			f["type"], f["issuer"], f["account_name"] = gen.Pick(rng, []string{"totp", "hotp"}), iss, acc
			if rng.Bool() {
				f["period"] = gen.Pick(rng, []uint64{0, 30, 60})
			}
			add(restCase{EP: "otp/url", Method: "POST", F: f})
		default:
			al, _ := spellAlgo(rng)
			q := ""
			if al != "" {
				q = "algorithm=" + url.QueryEscape(al)
			}
			add(restCase{EP: "otp/secret", Method: "GET", Query: q})
		}
	}
	return out
}

// c18LargeCases: well-formed requests whose success responses are several KiB to hundreds of KiB.
// respell turns a well-formed HOTP/TOTP request into a value-equivalent text that a strict decoder may refuse:
// numbers written as 100.0, 1e2 or "100", keys shuffled, and fields this endpoint does not use (or unknown ones)
// present with a wrong JSON type, before or after the others.
func respell(rng *gen.RNG, k restCase) (restCase, bool) {
	switch k.EP {
	case "hotp/generate", "hotp/validate", "totp/generate", "totp/validate":
	default:
		return k, false
	}
	if k.F == nil {
		return k, false
	}
	if ts, ok := k.F["timestamp"]; strings.HasPrefix(k.EP, "totp/") && (!ok || fmt.Sprint(ts) == "0") {
		return k, false // "now": not reproducible as a value
	}
	type kv struct{ k, v string }
	var items []kv
	changed := false
	for name, val := range k.F {
		var text string
		switch x := val.(type) {
		case uint64:
			text = fmt.Sprint(x)
			switch rng.Intn(6) {
			case 0:
				text += ".0"
				changed = true
			case 1:
				text += ".000"
				changed = true
			case 2:
				if x%10 == 0 && x > 0 && x < 1<<50 {
					z := 0
					for x%10 == 0 {
						x /= 10
						z++
					}
					text = fmt.Sprintf("%de%d", x, z)
				} else {
					text += "e0"
				}
				changed = true
			case 3:
				text = "\"" + text + "\""
				changed = true
			}
		default:
			b, _ := json.Marshal(val)
			text = string(b)
		}
		items = append(items, kv{name, text})
	}
	for i := len(items) - 1; i > 0; i-- {
		j := rng.Intn(i + 1)
		items[i], items[j] = items[j], items[i]
	}
	unused := []string{"counter"}
	if strings.HasPrefix(k.EP, "hotp/") {
		unused = []string{"timestamp", "period"}
	}
	if strings.HasSuffix(k.EP, "/generate") {
		unused = append(unused, "skew", "code")
	}
	unused = append(unused, "comment", "x")
	if rng.Intn(3) != 0 {
		u := gen.Pick(rng, unused)
		if _, present := k.F[u]; !present {
			bad := kv{u, gen.Pick(rng, []string{"1743879194.5", "\"x\"", "true", "{}", "[1]", "-1", "1e400", "null", "\"\""})}
			if rng.Bool() {
				items = append([]kv{bad}, items...)
			} else {
				items = append(items, bad)
			}
			changed = true
		}
	}
	if !changed {
		return k, false
	}
	var sb strings.Builder
	sb.WriteByte('{')
	for i, it := range items {
		if i > 0 {
			sb.WriteByte(',')
		}
		kb, _ := json.Marshal(it.k)
		sb.Write(kb)
		sb.WriteByte(':')
		sb.WriteString(it.v)
	}
	sb.WriteByte('}')
	k.RawBody = sb.String()
	k.Note = "respelled request (refusal or the answer for the values written); " + k.Note
	return k, true
}

// respellPath gives the endpoint's path in a non-canonical spelling.
// relex writes the case's JSON body in another lexical form that denotes exactly the same values (RFC 8259): characters
// of strings - keys and values - as \uXXXX escapes (non-BMP characters as surrogate pairs), "/" as "\/", and white space
// between the tokens. Unlike the respellings above this is not a matter of taste: the request is the same request.
func relex(rng *gen.RNG, k restCase) (restCase, bool) {
	if k.F == nil || k.RawBody != "" {
		return k, false
	}
	src := jsonBody(k.F)
	var sb strings.Builder
	ws := func() {
		for rng.Intn(3) == 0 {
			sb.WriteString(gen.Pick(rng, []string{" ", "\n", "\t", "\r", "  "}))
		}
	}
	in := false
	for i := 0; i < len(src); {
		ch := src[i]
		if !in {
			if ch == '"' {
				in = true
				sb.WriteByte(ch)
				i++
				continue
			}
			if strings.IndexByte("{}[]:,", ch) >= 0 {
				ws()
				sb.WriteByte(ch)
				ws()
			} else {
				sb.WriteByte(ch)
			}
			i++
			continue
		}
		switch {
		case ch == '\\':
			n := 2 // an escape the encoder wrote: kept as it is
			if i+1 < len(src) && src[i+1] == 'u' {
				n = 6
			}
			sb.Write(src[i : i+n])
			i += n
		case ch == '"':
			in = false
			sb.WriteByte(ch)
			i++
		case ch < 0x80:
			switch rng.Intn(5) {
			case 0:
				fmt.Fprintf(&sb, "\\u%04x", ch)
			case 1:
				fmt.Fprintf(&sb, "\\u%04X", ch)
			default:
				if ch == '/' && rng.Bool() {
					sb.WriteString("\\/")
				} else {
					sb.WriteByte(ch)
				}
			}
			i++
		default:
			rn, size := utf8.DecodeRune(src[i:])
			if rn == utf8.RuneError || rng.Intn(3) > 0 {
				sb.Write(src[i : i+size])
			} else if rn > 0xFFFF {
				r1, r2 := utf16.EncodeRune(rn)
				fmt.Fprintf(&sb, "\\u%04x\\u%04x", r1, r2)
			} else {
				fmt.Fprintf(&sb, "\\u%04x", rn)
			}
			i += size
		}
	}
	k.RawBody = sb.String()
	k.MustAnswer = true
	k.Framing = ""
	k.Note = "the same JSON text in another lexical form (string escapes, white space between tokens); " + k.Note
	return k, true
}

func respellPath(rng *gen.RNG, k restCase) restCase {
	ep := k.EP
	first := fmt.Sprintf("%%%02x", ep[0])
	k.RawPath = gen.Pick(rng, []string{"//" + ep, "/./" + ep, "/x/../" + ep, "/docs/../" + ep, "/" + first + ep[1:], "/" + ep + "/", "/" + strings.ToUpper(ep), "/docs/%2e%2e/" + ep, "/" + strings.Replace(ep, "/", "//", 1), "/" + strings.Replace(ep, "/", "%2f", 1)})
	k.Note = "non-canonical spelling of the path (refusal or the correct answer); " + k.Note
	return k
}

func c18LargeCases(c *Ctx, n int) []restCase {
	rng := c.RNG.Fork(182)
	var out []restCase
	for i := 0; i < n; i++ {
		sec, _ := restSecret(rng)
		iss := ""
		for k := gen.Pick(rng, []int{300, 600, 1500, 4000, 12000}); k > 0; k-- {
			iss += gen.Pick(rng, []string{"a", "Z", "0", " ", "é", "/", "%", "&", "日"})
		}
		f := map[string]any{"secret": strings.TrimSpace(sec), "type": gen.Pick(rng, []string{"totp", "hotp"}), "issuer": "I" + iss, "account_name": fmt.Sprintf("user-%d@example.com", i)}
		out = append(out, restCase{EP: "otp/url", Method: "POST", F: f, Fresh: rng.Intn(4) == 0, Note: "large response"})
	}
	return out
}

// cross-endpoint: a code generated by one endpoint validates at the matching endpoint
func c18CrossEndpoint(c *Ctx, srv *server, n int) {
	rng := c.RNG.Fork(181)
	r := c.R
	for i := 0; i < n; i++ {
		sec, _ := restSecret(rng)
		f := map[string]any{"secret": sec, "digits": gen.Pick(rng, []string{"6", "8", "9", "10"}), "algorithm": gen.Pick(rng, []string{"SHA1", "SHA256", "SHA512"})}
		ep := "hotp"
		if i%2 == 0 {
			ep = "totp"
			f["timestamp"] = uint64(1700000000 + rng.Intn(1<<20))
			f["period"] = uint64(gen.Pick(rng, []int{30, 60}))
		} else {
			f["counter"] = uint64(rng.Intn(1 << 30))
		}
		g := srv.do("POST", "/"+ep+"/generate", jsonBody(f), false, 30*time.Second)
		out, _ := decodeJSON(g.Body)
		code := fStr(out, "code")
		r.Eval(1)
		if g.Err != nil || g.Status != 200 || code == "" {
			continue // judged by the per-endpoint oracle
		}
		f["code"] = code
		va := srv.do("POST", "/"+ep+"/validate", jsonBody(f), false, 30*time.Second)
		vo, _ := decodeJSON(va.Body)
		r.Eval(1)
		r.Count("cross_endpoint_pairs", 1)
		if ok, _ := vo["valid"].(bool); !ok {
			r.Violate("C18|/"+ep+"/validate|cross-endpoint|", "a code generated by /"+ep+"/generate does not validate at /"+ep+"/validate with the same fields", "rest", restCase{EP: ep + "/validate", Method: "POST", F: f}, "valid:true", clipS(string(va.Body)))
		}
	}
	// OCRA across endpoints: the suite is named in the request as raw_suite, as a structured suite object, or as the
	// {raw, config} pair exactly as /ocra/suite describes it (a client that passes the description on); the code
	// /ocra/generate returns must validate at /ocra/validate with the same fields, a changed code must not
	names := liveNames()
	for i := 0; i < n && len(names) > 0; i++ {
		name := gen.Pick(rng, names)
		m, ok := ref.ParseSuiteName(name)
		if !ok {
			continue
		}
		sec, _ := restSecret(rng)
		f := map[string]any{"secret": sec}
		form := []string{"raw_suite", "suite object", "raw_suite + suite object as /ocra/suite returns them"}[i%3]
		if i%3 != 1 {
			f["raw_suite"] = name
		}
		if i%3 != 0 {
			d := srv.do("POST", "/ocra/suite", jsonBody(map[string]any{"raw_suite": name}), false, 30*time.Second)
			do, _ := decodeJSON(d.Body)
			cm, _ := do["config"].(map[string]any)
			if d.Err != nil || d.Status != 200 || cm == nil {
				r.Count("ocra_suite_descriptions_unavailable", 1)
				continue // judged by the per-endpoint oracle
			}
			r.Count("ocra_suite_descriptions_passed_on", 1)
			f["suite"] = cm
		}
		in := admissibleInput(rng, m, i)
		im := map[string]any{}
		for k, b := range map[string][]byte{"counter_hex": in.Counter, "challenge_hex": in.Challenge, "password_hex": in.Password, "session_info_hex": in.Session, "timestamp_hex": in.Timestamp} {
			if len(b) > 0 {
				im[k] = ref.HexEncode(b)
			}
		}
		if m.Q && len(in.Challenge) == 0 {
			continue
		}
		f["input"] = im
		g := srv.do("POST", "/ocra/generate", jsonBody(f), false, 30*time.Second)
		out, _ := decodeJSON(g.Body)
		code := fStr(out, "code")
		r.Eval(1)
		if g.Err != nil || g.Status != 200 || code == "" {
			if i%3 == 0 {
				r.Violate("C18|/ocra/generate|cross-endpoint|", "/ocra/generate does not answer a registered raw suite with admissible input", "rest", restCase{EP: "ocra/generate", Method: "POST", F: f}, "200 + code", fmt.Sprintf("%d %s", g.Status, clipS(string(g.Body))))
			}
			continue
		}
		f["code"] = code
		va := srv.do("POST", "/ocra/validate", jsonBody(f), false, 30*time.Second)
		vo, _ := decodeJSON(va.Body)
		r.Eval(1)
		r.Count("cross_endpoint_pairs_ocra", 1)
		if ok, _ := vo["valid"].(bool); !ok {
			r.Violate("C18|/ocra/validate|cross-endpoint|", "a code generated by /ocra/generate does not validate at /ocra/validate with the same fields (suite given as "+form+")", "rest", restCase{EP: "ocra/validate", Method: "POST", F: f}, "valid:true", clipS(string(va.Body)))
		}
		b := []byte(code)
		b[len(b)-1] = '0' + (b[len(b)-1]-'0'+1)%10
		f["code"] = string(b)
		vb := srv.do("POST", "/ocra/validate", jsonBody(f), false, 30*time.Second)
		vbo, _ := decodeJSON(vb.Body)
		if ok, _ := vbo["valid"].(bool); ok {
			r.Violate("C18|/ocra/validate|cross-endpoint-accepts-changed-code|", "/ocra/validate accepts a code that differs in its last digit from the one /ocra/generate returned for the same fields (suite given as "+form+")", "rest", restCase{EP: "ocra/validate", Method: "POST", F: f}, "valid:false", clipS(string(vb.Body)))
		}
	}
	if n >= 3 && len(names) > 0 && r.Counter("ocra_suite_descriptions_passed_on") == 0 {
		r.Inconclusive("OCRA cross-endpoint flow: no suite description could be obtained from /ocra/suite, the {raw, config} form was not exercised")
	}
	// "timestamp omitted => now" for validation: period 3600 and skew 1, so only an hour-long stall could change the verdict
	for i := 0; i < 5; i++ {
		sec, key := restSecret(rng)
		now := time.Now().Unix()
		f := map[string]any{"secret": sec, "period": uint64(3600), "skew": uint64(1), "code": ref.TOTP(key, now, 3600, 6, 0)}
		judgeREST(c, srv, restCase{EP: "totp/validate", Method: "POST", F: f, KeyHex: hexs(key), Note: "timestamp omitted (now), period 3600, skew 1"})
	}
}

// c18Pipelined: "arbitrary sequences of requests on reused connections": several different well-formed requests are
// written back to back on one TCP connection without waiting for the answers (HTTP/1.1 pipelining, the bytes cut into
// segments at seeded places), then the answers are read in order and the i-th is judged as the answer to the i-th
// request by the same oracle. A server may close a connection whenever it likes: requests left without an answer are
// counted and sent again on their own (and judged then); an answer that belongs to another request of the pipeline,
// or a damaged one, is what this looks for.
func c18Pipelined(c *Ctx, srv *server, cases []restCase) {
	r := c.R
	rng := c.RNG.Fork(1818)
	for at := 0; at < len(cases); {
		depth := 2 + rng.Intn(15)
		if at+depth > len(cases) {
			depth = len(cases) - at
		}
		part := cases[at : at+depth]
		at += depth
		var wire bytes.Buffer
		for _, k := range part {
			var body []byte
			if k.F != nil {
				body = jsonBody(k.F)
			}
			if k.RawBody != "" {
				body = []byte(k.RawBody)
			}
			path := "/" + k.EP
			if k.RawPath != "" {
				path = k.RawPath
			}
			if k.Query != "" {
				path += "?" + k.Query
			}
			fmt.Fprintf(&wire, "%s %s HTTP/1.1\r\nHost: %s\r\n", k.Method, path, srv.addr)
			if body != nil {
				fmt.Fprintf(&wire, "Content-Type: application/json\r\nContent-Length: %d\r\n", len(body))
			}
			wire.WriteString("\r\n")
			wire.Write(body)
		}
		conn, err := net.DialTimeout("tcp", srv.addr, 10*time.Second)
		if err != nil {
			r.Count("pipelines_not_connected", 1)
			for _, k := range part {
				judgeREST(c, srv, k)
			}
			continue
		}
		conn.SetDeadline(time.Now().Add(120 * time.Second))
		t0 := time.Now().Unix()
		// the bytes go out in segments cut at seeded places (sometimes one segment, sometimes many small ones)
		var cuts []int
		if rng.Intn(3) > 0 {
			for pos := 0; pos < wire.Len(); {
				pos += 1 + rng.Intn(1+wire.Len()/(1+rng.Intn(12)))
				cuts = append(cuts, pos)
			}
		}
		go func(b []byte, cuts []int) {
			prev := 0
			for _, cut := range append(cuts, len(b)) {
				if cut > len(b) {
					cut = len(b)
				}
				if cut <= prev {
					continue
				}
				if _, err := conn.Write(b[prev:cut]); err != nil {
					return
				}
				prev = cut
			}
		}(append([]byte(nil), wire.Bytes()...), cuts)
		br := bufio.NewReader(conn)
		answers := make([]*httpResult, len(part))
		for i := range part {
			resp, err := http.ReadResponse(br, &http.Request{Method: part[i].Method})
			if err != nil {
				if strings.Contains(err.Error(), "malformed HTTP") {
					peek, _ := br.Peek(br.Buffered())
					r.Violate(r.Prop+"|connection|bytes-that-are-no-response|", "on a connection carrying several well-formed requests the server sends bytes that are not an HTTP response", "rest", part[i], "an HTTP response, or a closed connection", err.Error()+" | next bytes: "+clipS(string(peek)))
				}
				break
			}
			b, rerr := io.ReadAll(resp.Body)
			resp.Body.Close()
			if rerr != nil {
				break
			}
			answers[i] = &httpResult{Status: resp.StatusCode, Header: resp.Header, Body: b}
			if resp.Close {
				break
			}
		}
		t1 := time.Now().Unix()
		conn.Close()
		r.Count("pipelines", 1)
		for i, k := range part {
			if answers[i] == nil || answers[i].Status == 429 {
				r.Count("pipelined_requests_left_unanswered_and_sent_again", 1)
				judgeREST(c, srv, k)
				continue
			}
			r.Count("pipelined_requests_answered", 1)
			k.Note += fmt.Sprintf(" [request %d of a pipeline of %d]", i+1, len(part))
			judgeRESTWith(c, srv, k, answers[i], t0, t1)
		}
	}
	if r.Counter("pipelines") > 0 && r.Counter("pipelined_requests_answered") == 0 {
		r.Inconclusive("pipelined requests: none was answered on its pipeline")
	}
}

// c18HeadThenBody: a client that writes a complete request and, in the same segment, the head of a second POST, then
// reads the first answer, and only then sends the second request's body (the order is the client's, nothing is
// timed). Both requests are well-formed and each must get the answer for its own fields: a server that keeps the
// first answer back until it has read the second body leaves this client waiting until a read timeout ends the
// second request.
func c18HeadThenBody(c *Ctx, srv *server, cases []restCase) {
	r := c.R
	var posts []restCase
	for _, k := range cases {
		if k.Method == "POST" && k.F != nil && k.RawBody == "" && k.RawPath == "" && k.Query == "" {
			if _, hasTS := k.F["timestamp"]; strings.HasPrefix(k.EP, "totp/") && !hasTS {
				continue
			}
			posts = append(posts, k)
		}
	}
	for i := 0; i+1 < len(posts); i += 2 {
		k1, k2 := posts[i], posts[i+1]
		b1, b2 := jsonBody(k1.F), jsonBody(k2.F)
		conn, err := net.DialTimeout("tcp", srv.addr, 10*time.Second)
		if err != nil {
			continue
		}
		conn.SetDeadline(time.Now().Add(60 * time.Second)) // watchdog only
		head := func(k restCase, n int) string {
			return fmt.Sprintf("POST /%s HTTP/1.1\r\nHost: %s\r\nContent-Type: application/json\r\nContent-Length: %d\r\n\r\n", k.EP, srv.addr, n)
		}
		conn.Write([]byte(head(k1, len(b1)) + string(b1) + head(k2, len(b2))))
		br := bufio.NewReader(conn)
		read := func() *httpResult {
			resp, err := http.ReadResponse(br, &http.Request{Method: "POST"})
			if err != nil {
				return nil
			}
			b, rerr := io.ReadAll(resp.Body)
			resp.Body.Close()
			if rerr != nil {
				return nil
			}
			return &httpResult{Status: resp.StatusCode, Header: resp.Header, Body: b}
		}
		a1 := read()
		conn.Write(b2) // only now
		a2 := read()
		conn.Close()
		r.Count("head_then_body_pairs", 1)
		for j, pr := range []struct {
			k restCase
			a *httpResult
		}{{k1, a1}, {k2, a2}} {
			k := pr.k
			k.Note += fmt.Sprintf(" [request %d of a pair: the second request's head travels with the first request, its body follows after the first answer has been read]", j+1)
			if pr.a == nil {
				r.Eval(1)
				r.Violate(r.Prop+"|/"+k.EP+"|no-response|head-then-body", "/"+k.EP+": a well-formed request gets no answer on a connection on which the client sends the next request's body only after reading the previous answer", "rest", k, "200 + JSON", "no response (connection closed)")
				continue
			}
			judgeRESTWith(c, srv, k, pr.a, 0, 0)
		}
	}
}

func runC18On(c *Ctx, binEnv string, n int, conc []int) {
	var env []string
	if strings.Contains(binEnv, "RACE") {
		env = append(env, "GORACE=halt_on_error=0 log_path="+c.Env["VERIF_SCRATCH"]+"/server.race")
	}
	srv, err := startServer(c, binEnv, env...)
	if err != nil {
		c.R.Inconclusive("server (" + binEnv + ") could not be started: " + err.Error())
		return
	}
	defer srv.stop()
	cases := c18Cases(c, n)
	// phases with 1..32 client goroutines
	per := len(cases) / len(conc)
	for pi, g := range conc {
		part := cases[pi*per : (pi+1)*per]
		monParallel(len(part), g, func(i int) { judgeREST(c, srv, part[i]) })
		c.R.Count(fmt.Sprintf("phase_client_goroutines=%d", g), len(part))
	}
	{
		lrng := c.RNG.Fork(1888)
		nl := 0
		for _, k := range c18Cases(c, n/4+100) {
			if rk, ok := relex(lrng, k); ok {
				judgeREST(c, srv, rk)
				nl++
			}
		}
		c.R.Count("requests_in_another_lexical_form", nl)
	}
	c18CrossEndpoint(c, srv, n/20)
	c18Pipelined(c, srv, c18Cases(c, n/8+40))
	c18DistinctSecrets(c, srv, n)
	c18SameParams(c, srv, c.N(6, 60))
	c18AfterHostile(c, srv, c18Cases(c, n/6+150))
	c18HeadThenBody(c, srv, c18Cases(c, 60))
	if !srv.alive() {
		c.R.Violate("C18|server|died|", "the server process exited during the well-formed workload", "none", nil, "alive", "exited; see server log")
	}
}

func init() {
	register(&Prop{
		ID: "C18",
		Rule: "the real server binary (built from the working tree) runs on a loopback port; well-formed requests to all ten endpoints are generated over every field present/absent, digits/hash spellings incl. unknown ones, raw and structured suites, secrets with surrounding white space, counters/timestamps/periods/skews of the C01-C06 domains, from 1..32 client goroutines over reused and fresh connections; each response is compared with the in-process library result for exactly the request's parameters AND the independent reference model; generated codes are fed back to the matching validate endpoint; 2..16 different requests are pipelined on one TCP connection (bytes cut into segments at seeded places) and the i-th answer is judged as the answer to the i-th request; pairs whose second head travels with the first request and whose second body follows the first answer; thousands of requests with secrets never seen before in one server process, with early secrets coming back after 10..50000 others in fresh spellings; one secret and parameter set on one connection with timestamps second by second across step boundaries, walks over adjacent and bit-related steps and counters and validation along them (observed.same_parameter_history_requests); well-formed requests sent directly after a request to the same endpoint that is not well-formed (two documents back to back, trailing text, truncated, wrong JSON type, empty; observed.well_formed_requests_after_a_not_well_formed_one); identical requests without a timestamp repeated as the clock moves on (periods 1 and 2 s), each verdict bracketed by the instants of its exchange; " +
			"distinct_nontrivial counts distinct (endpoint, body, query) requests judged",
		Run: func(c *Ctx) {
			nowDone := make(chan struct{})
			go c18NowHistory(c.forkFor(1801), "VERIF_SERVER_BIN", nowDone)
			defer func() { <-nowDone }()
			runC18On(c, "VERIF_SERVER_BIN", c.N(6000, 100000), []int{1, 4, 32, 8})
			if c.Thorough {
				runC18On(c, "VERIF_SERVER_RACE_BIN", 20000, []int{16, 32})
				raceLogs(c, "server.race")
			}
		},
		Replay: func(c *Ctx, kind string, raw json.RawMessage) error {
			if kind != "rest" {
				return fmt.Errorf("kind %q has no single-case replay", kind)
			}
			return replayAs(raw, func(k restCase) {
				srv, err := startServer(c, "VERIF_SERVER_BIN")
				if err != nil {
					c.R.Inconclusive("server could not be started: " + err.Error())
					return
				}
				defer srv.stop()
				// JSON numbers come back as float64: re-read the fields with UseNumber
				if k.F != nil {
					b, _ := json.Marshal(k.F)
					k.F, _ = decodeJSON(b)
				}
				judgeREST(c, srv, k)
			})
		},
	})
}
