//go:build verif_wasmnative

package props

import "github.com/ja7ad/otp"

// compiled only when the check builds the harness with the overlay that makes the
// js/wasm sources visible natively (tools/mkwasmnative.py)
func init() {
	wasmValidate = func(code string, secret []byte, counter uint64, digits, algo uint8) (bool, error) {
		return otp.ValidateOTPWasm(code, secret, counter, otp.Digits(digits), otp.Algorithm(algo))
	}
	wasmDerive = func(secret []byte, counter uint64, digits int, algo uint8) (string, error) {
		return otp.DeriveRFC4226Wasm(secret, counter, digits, otp.Algorithm(algo))
	}
}
