package props

import (
	"bytes"
	"context"
	"encoding/json"
	"fmt"
	"net/url"
	"os"
	"os/exec"
	"path/filepath"
	"strings"
	"time"

	"github.com/ja7ad/otp"

	"verifh/gen"
	"verifh/ref"
)

// ---- C20: the WebAssembly/JavaScript binding gives the same answers as the native library ----

type jsArg struct {
	T string  `json:"t"`
	S string  `json:"s,omitempty"`
	N float64 `json:"n,omitempty"`
	B bool    `json:"b,omitempty"`
}

type jsCase struct {
	ID   int     `json:"id"`
	Fn   string  `json:"fn"`
	Args []jsArg `json:"args"`
	// oracle side (not used by the drivers)
	Want      string `json:"want"`      // expected result: a string, "true"/"false", or "error:" (any string with that prefix)
	Malformed bool   `json:"malformed"` // expected "error:"; followed by a known-answer probe
	OrError   bool   `json:"or_error"`  // a number with a fractional part: the answer is Want (the truncation's answer) or an "error:" string
	Note      string `json:"note"`
	Expected  string `json:"expected,omitempty"`
	Submitted string `json:"submitted,omitempty"`
}

type jsVal struct {
	T      string `json:"t"`
	S      string `json:"s"`
	B      bool   `json:"b"`
	Thrown string `json:"thrown"`
}

func (v jsVal) canon() string {
	switch v.T {
	case "s":
		return v.S
	case "b":
		return fmt.Sprint(v.B)
	case "thrown":
		return "THROWN: " + v.Thrown
	}
	return "<" + v.T + " " + v.S + ">"
}

func sArg(s string) jsArg  { return jsArg{T: "s", S: s} }
func nArg(n float64) jsArg { return jsArg{T: "n", N: n} }

var hostileJS = []jsArg{{T: "u"}, {T: "null"}, {T: "nan"}, {T: "inf"}, {T: "ninf"}, {T: "n", N: -1}, {T: "n", N: 1e300}, {T: "b", B: true}, {T: "o"}, {T: "a"}, {T: "s", S: ""},
	// every other JavaScript type a caller can hand over: BigInt, Symbol, function, Date, typed array, boxed string / number
	{T: "bigint", S: "1"}, {T: "bigint", S: "18446744073709551616"}, {T: "sym"}, {T: "fn"}, {T: "date"}, {T: "u8"}, {T: "strobj", S: "6"}, {T: "numobj", N: 1}}

func jsDigits(rng *gen.RNG) string {
	if rng.Intn(8) == 0 {
		// unknown spellings, among them words that mean something to a JavaScript object or number parser
		return gen.Pick(rng, []string{"7", "06", "six", "11", "0", "1", "constructor", "__proto__", "toString", "valueOf", "hasOwnProperty", "prototype", "length", "undefined", "null", "NaN", "6.0", "0x6", " 6", "true"})
	}
	return gen.Pick(rng, []string{"6", "8", "9", "10"})
}
func jsAlgo(rng *gen.RNG) string {
	if rng.Intn(8) == 0 {
		return gen.Pick(rng, []string{"sha1", "SHA384", "MD5", "x", "constructor", "__proto__", "toString", "valueOf", "hasOwnProperty", "prototype", "length", "undefined", "null", "SHA1 ", "Sha256"})
	}
	return gen.Pick(rng, []string{"SHA1", "SHA256", "SHA512"})
}
func jsCounter(rng *gen.RNG) uint64 {
	switch rng.Intn(4) {
	case 0:
		return gen.Pick(rng, []uint64{0, 1, 2, 10, 1<<31 - 1, 1 << 31, 1<<32 - 1, 1 << 32, 1<<53 - 1, 1 << 53})
	case 1:
		return uint64(rng.Intn(100))
	}
	return rng.U64() % (1<<53 + 1)
}

func c20Cases(c *Ctx, n int) []jsCase {
	rng := c.RNG.Fork(20)
	var out []jsCase
	id := 0
	frng := c.RNG.Fork(2020)
	add := func(k jsCase) {
		id++
		k.ID = id
		out = append(out, k)
		if k.Malformed || k.Note == "fractional counter" || frng.Intn(8) != 0 {
			return
		}
		// the same call with a fractional part on one numeric argument (counter, timestamp, skew or period): a number
		// between two integers is outside the native domain, so the binding may refuse it ('error:') or treat it
		// as its integer part; it must not answer with a different code or verdict
		var nums []int
		for i, a := range k.Args {
			if a.T == "n" && a.N >= 0 && a.N < 1<<40 && a.N == float64(uint64(a.N)) {
				nums = append(nums, i)
			}
		}
		if len(nums) == 0 {
			return
		}
		f := k
		f.Args = append([]jsArg(nil), k.Args...)
		j := nums[frng.Intn(len(nums))]
		f.Args[j].N += []float64{0.5, 0.9, 0.25, 0.999}[frng.Intn(4)]
		f.OrError = true
		f.Note = fmt.Sprintf("fractional part on argument %d; %s", j, k.Note)
		id++
		f.ID = id
		out = append(out, f)
	}
	key0 := []byte("12345678901234567890")
	probe := func() {
		add(jsCase{Fn: "generateHOTP", Args: []jsArg{sArg(ref.Base32Encode(key0)), nArg(1), sArg("6"), sArg("SHA1")}, Want: "287082", Note: "known-answer probe after a malformed call"})
	}
	for i := 0; i < n; i++ {
		key := rng.Bytes(gen.Pick(rng, []int{1, 10, 20, 32, 64, 65}))
		sec := gen.Spell(rng, ref.Base32Encode(key), rng.Intn(gen.NSpellings))
		if strings.TrimSpace(sec) == "" {
			sec = ref.Base32Encode(key)
		}
		ds, as := jsDigits(rng), jsAlgo(rng)
		d, a := restDigits(ds), restAlgo(as)
		switch i % 6 {
		case 0:
			ctr := jsCounter(rng)
			arg := float64(ctr)
			note := ""
			if rng.Intn(6) == 0 && ctr < 1<<40 {
				arg += 0.9 // a fractional number is refused or behaves as its integer part
				note = "fractional counter"
			}
			add(jsCase{Fn: "generateHOTP", Args: []jsArg{sArg(sec), nArg(arg), sArg(ds), sArg(as)}, Want: ref.HOTP(key, ctr, d, a), Note: note, OrError: note != ""})
		case 1:
			ts := jsCounter(rng)
			period := uint64(1 + rng.Intn(3600))
			add(jsCase{Fn: "generateTOTP", Args: []jsArg{sArg(sec), nArg(float64(ts)), sArg(ds), sArg(as), nArg(float64(period))}, Want: ref.TOTP(key, int64(ts), period, d, a)})
		case 2:
			ctr := jsCounter(rng)
			if ctr > 1<<53-20 {
				ctr = 1<<53 - 20
			}
			skew := uint64(rng.Intn(11))
			dist := int64(rng.Intn(int(2*skew+5))) - int64(skew) - 2
			x := ctr + uint64(dist)
			if dist < 0 && ctr < uint64(-dist) {
				if rng.Bool() {
					x = ctr
				} // else: the code of the wrapped counter 2^64-d, which no window below 0 contains
			}
			code := ref.HOTP(key, x, d, a)
			if rng.Intn(4) == 0 {
				// any other string (edits, sign/space instead of a leading zero, Unicode digits, bytes sharing bits with
				// the right digit …): the oracle is window membership, which equals the native verdict
				code = gen.Pick(rng, gen.HostileCodes(rng, ref.HOTP(key, ctr, d, a)))
				if code == "" || !validUTF8(code) {
					code = "+" + ref.HOTP(key, ctr, d, a)[1:]
				}
			}
			_, want := ref.HOTPWindow(key, ctr, skew, d, a)[code]
			add(jsCase{Fn: "validateHOTP", Args: []jsArg{sArg(sec), sArg(code), nArg(float64(ctr)), sArg(ds), sArg(as), nArg(float64(skew))}, Want: fmt.Sprint(want), Note: fmt.Sprintf("genuine code at distance %+d, window %d", int64(x-ctr), skew)})
		case 3:
			period := uint64(1 + rng.Intn(3600))
			skew := uint64(rng.Intn(11))
			if rng.Intn(5) == 0 && skew > 0 {
				// close to the epoch (window reaches below step 0): the oracle is the native library's own verdict
				ts := uint64(rng.Intn(int(skew*period) + 1))
				step := ts / period
				dist := int64(rng.Intn(int(2*skew+3))) - int64(skew) - 1
				code := ref.HOTP(key, step+uint64(dist), d, a) // wraps below 0 exactly as uint64 arithmetic does
				nat, _ := otp.ValidateTOTP(strings.TrimSpace(sec), code, time.Unix(int64(ts), 0), &otp.Param{Digits: otp.Digits(d), Algorithm: otp.Algorithm(a), Skew: uint(skew), Period: uint(period)})
				add(jsCase{Fn: "validateTOTP", Args: []jsArg{sArg(sec), sArg(code), nArg(float64(ts)), sArg(ds), sArg(as), nArg(float64(skew)), nArg(float64(period))}, Want: fmt.Sprint(nat), Note: fmt.Sprintf("timestamp %d within skew*period of the epoch, code of step %+d (mod 2^64), skew %d; expected = native library verdict", ts, int64(step)+dist, skew)})
				continue
			}
			ts := jsCounter(rng)
			if ts/period < skew+3 {
				ts += (skew + 3) * period
			}
			if ts > 1<<53 {
				ts = 1<<53 - 1
			}
			step := ts / period
			dist := int64(rng.Intn(int(2*skew+5))) - int64(skew) - 2
			code := ref.HOTP(key, step+uint64(dist), d, a)
			if rng.Intn(4) == 0 {
				code = gen.Pick(rng, gen.HostileCodes(rng, ref.HOTP(key, step, d, a)))
				if code == "" || !validUTF8(code) {
					code = "+" + ref.HOTP(key, step, d, a)[1:]
				}
			}
			_, want := ref.HOTPWindow(key, step, skew, d, a)[code]
			add(jsCase{Fn: "validateTOTP", Args: []jsArg{sArg(sec), sArg(code), nArg(float64(ts)), sArg(ds), sArg(as), nArg(float64(skew)), nArg(float64(period))}, Want: fmt.Sprint(want), Note: fmt.Sprintf("genuine code at step distance %+d, skew %d", dist, skew)})
		case 4:
			iss, acc := gen.URLString(rng, false), gen.URLString(rng, true)
			if !validUTF8(iss) || !validUTF8(acc) {
				continue
			}
			typ := gen.Pick(rng, []string{"totp", "hotp"})
			up := otp.URLParam{Issuer: iss, AccountName: acc, Secret: strings.TrimSpace(sec), Digits: otp.Digits(d), Algorithm: otp.Algorithm(a)}
			var u *url.URL
			if typ == "totp" {
				u, _ = otp.GenerateTOTPURL(up)
			} else {
				u, _ = otp.GenerateHOTPURL(up)
			}
			if u == nil || up.Secret == "" {
				continue
			}
			add(jsCase{Fn: "generateOTPURL", Args: []jsArg{sArg(typ), sArg(iss), sArg(acc), sArg(up.Secret), sArg(ds), sArg(as)}, Want: u.String()})
		default:
			// malformed calls: one argument position replaced by a hostile value, or too few / too many arguments
			fns := map[string][]jsArg{
				"generateHOTP":   {sArg(sec), nArg(5), sArg("6"), sArg("SHA1")},
				"generateTOTP":   {sArg(sec), nArg(59), sArg("6"), sArg("SHA1"), nArg(30)},
				"validateHOTP":   {sArg(sec), sArg("123456"), nArg(5), sArg("6"), sArg("SHA1"), nArg(1)},
				"validateTOTP":   {sArg(sec), sArg("123456"), nArg(59), sArg("6"), sArg("SHA1"), nArg(1), nArg(30)},
				"generateOTPURL": {sArg("totp"), sArg("iss"), sArg("acc"), sArg("ABCD"), sArg("6"), sArg("SHA1")},
			}
			fn := gen.Pick(rng, []string{"generateHOTP", "generateTOTP", "validateHOTP", "validateTOTP", "generateOTPURL"})
			args := append([]jsArg{}, fns[fn]...)
			note := ""
			switch rng.Intn(6) {
			case 0:
				args = args[:rng.Intn(len(args))]
				note = "too few arguments"
			case 1:
				args = append(args, gen.Pick(rng, hostileJS))
				note = "too many arguments"
			default:
				pos := rng.Intn(len(args))
				h := gen.Pick(rng, hostileJS)
				wasNum := args[pos].T == "n"
				wasStr := args[pos].T == "s"
				if wasStr && h.T == "s" && h.S == "" {
					// empty strings are rejected by the binding ("cannot be empty")
				}
				if (wasNum && h.T == "n" && h.N >= 0) || (wasStr && h.T == "s" && h.S != "") {
					continue
				}
				args[pos] = h
				note = fmt.Sprintf("argument %d of %s is %s", pos, fn, describeJS(h))
			}
			// range errors
			if rng.Intn(5) == 0 {
				args = append([]jsArg{}, fns[fn]...)
				switch fn {
				case "validateHOTP":
					args[5] = nArg(float64(11 + rng.Intn(100)))
					note = "skew out of range"
					if rng.Bool() {
						// out of range, but equal to an admissible value modulo a machine word
						args[5] = nArg(float64(rng.Intn(11)) + gen.Pick(rng, []float64{1 << 8, 1 << 16, 1 << 31, 1 << 32, 3 * (1 << 32), 1 << 40, 1 << 53}))
						note = "skew out of range, congruent to an admissible one modulo a power of two"
					}
				case "validateTOTP":
					if rng.Bool() {
						args[5] = nArg(float64(11 + rng.Intn(100)))
						note = "skew out of range"
						if rng.Bool() {
							args[5] = nArg(float64(rng.Intn(11)) + gen.Pick(rng, []float64{1 << 8, 1 << 16, 1 << 31, 1 << 32, 3 * (1 << 32), 1 << 40, 1 << 53}))
							note = "skew out of range, congruent to an admissible one modulo a power of two"
						}
					} else {
						args[6] = nArg(0)
						note = "period 0"
					}
				case "generateTOTP":
					args[4] = nArg(gen.Pick(rng, []float64{0, 3601, 1e9}))
					note = "period out of range"
					if rng.Bool() {
						args[4] = nArg(float64(1+rng.Intn(3600)) + gen.Pick(rng, []float64{1 << 16, 1 << 31, 1 << 32, 3 * (1 << 32), 1 << 40, 1 << 52}))
						note = "period out of range, congruent to an admissible one modulo a power of two"
					}
				case "generateOTPURL":
					args[0] = sArg("xotp")
					note = "unknown otp type"
				default:
					args[0] = sArg("not base32 !")
					note = "undecodable secret"
				}
			}
			add(jsCase{Fn: fn, Args: args, Want: "error:", Malformed: true, Note: note})
			probe()
		}
	}
	// back-to-back calls whose string renderings collide when concatenated without separators
	// (digits '6' + counter 70  vs  digits '67' + counter 0; algo 'SHA1' + digits '10' vs 'SHA11' + '0'; …)
	for i := 0; i < n/40+10; i++ {
		key := rng.Bytes(10)
		sec := ref.Base32EncodeNoPad(key)
		ctr := uint64(10 + rng.Intn(990))
		ds := gen.Pick(rng, []string{"6", "8", "9", "10"})
		as := gen.Pick(rng, []string{"SHA1", "SHA256", "SHA512"})
		period := uint64(10 + rng.Intn(90))
		gh := func(f []string) {
			var cv uint64
			if _, err := fmt.Sscan(f[1], &cv); err != nil || fmt.Sprint(cv) != f[1] || cv > 1<<53 {
				return
			}
			kb, derr := ref.Base32Decode(f[0])
			if derr != nil || f[0] == "" || f[2] == "" || f[3] == "" || ref.Base32EncodeNoPad(kb) != f[0] {
				return
			}
			add(jsCase{Fn: "generateHOTP", Args: []jsArg{sArg(f[0]), nArg(float64(cv)), sArg(f[2]), sArg(f[3])}, Want: ref.HOTP(kb, cv, restDigits(f[2]), restAlgo(f[3])), Note: "field-shifted neighbour of the previous call"})
		}
		gt := func(f []string) {
			var tv, pv uint64
			if _, err := fmt.Sscan(f[1], &tv); err != nil || fmt.Sprint(tv) != f[1] || tv > 1<<53 {
				return
			}
			if _, err := fmt.Sscan(f[4], &pv); err != nil || fmt.Sprint(pv) != f[4] || pv < 1 || pv > 3600 {
				return
			}
			kb, derr := ref.Base32Decode(f[0])
			if derr != nil || f[0] == "" || f[2] == "" || f[3] == "" || ref.Base32EncodeNoPad(kb) != f[0] {
				return
			}
			add(jsCase{Fn: "generateTOTP", Args: []jsArg{sArg(f[0]), nArg(float64(tv)), sArg(f[2]), sArg(f[3]), nArg(float64(pv))}, Want: ref.TOTP(kb, int64(tv), pv, restDigits(f[2]), restAlgo(f[3])), Note: "field-shifted neighbour of the previous call"})
		}
		oh := []string{sec, fmt.Sprint(ctr), ds, as}
		for _, v := range gen.ShiftPairs(oh) {
			gh(oh)
			gh(v)
		}
		ot := []string{sec, fmt.Sprint(ctr * 1000), ds, as, fmt.Sprint(period)}
		for _, v := range gen.ShiftPairs(ot) {
			gt(ot)
			gt(v)
		}
	}
	// same-parameter histories in one module instance: one secret, digits, hash and period throughout, and
	//  (a) timestamps second by second across step boundaries (.., k*p-2, k*p-1, k*p, k*p+1, ..) upwards and downwards,
	//      and the last second of a step directly followed by the first second of the next (and the reverse);
	//  (b) a walk over adjacent steps / counters (stepWalkOffsets) and bit-related ones (relatedCounters, below 2^53);
	//  (c) validation along the same walks with the own code, the window's edges and the first code outside.
	// Anything the binding remembers between calls (last result, last step, a range "good until") is driven across
	// the points where it must let go.
	hrng := c.RNG.Fork(2021)
	for w := 0; w < n/250+4; w++ {
		key := hrng.Bytes(20)
		sec := ref.Base32EncodeNoPad(key)
		ds := gen.Pick(hrng, []string{"6", "6", "8", "10"})
		as := gen.Pick(hrng, []string{"SHA1", "SHA1", "SHA256", "SHA512"})
		d, a := restDigits(ds), restAlgo(as)
		period := gen.Pick(hrng, []uint64{30, 30, 60, 1, 2, 7, 3600})
		k0 := uint64(3 + hrng.Intn(1<<20))
		gt := func(ts uint64, note string) {
			add(jsCase{Fn: "generateTOTP", Args: []jsArg{sArg(sec), nArg(float64(ts)), sArg(ds), sArg(as), nArg(float64(period))}, Want: ref.TOTP(key, int64(ts), period, d, a), Note: note})
		}
		// (a)
		lo, hi := k0*period-2, (k0+2)*period+2
		if period > 40 {
			hi = (k0+1)*period + 2
		}
		for ts := lo; ts <= hi; ts++ {
			if period > 40 && ts > lo+4 && ts+4 < (k0+1)*period {
				continue // long periods: only the seconds around the boundaries
			}
			gt(ts, "same parameters, second by second upwards across step boundaries")
		}
		for ts := hi; ts >= lo && ts <= hi; ts-- {
			if period > 40 && ts > lo+4 && ts+4 < (k0+1)*period {
				continue
			}
			gt(ts, "same parameters, second by second downwards across step boundaries")
		}
		for i := 0; i < 12; i++ {
			k := k0 + uint64(hrng.Intn(50))
			gt(k*period+uint64(hrng.Intn(int(period))), "same parameters, somewhere inside a step")
			gt((k+1)*period, "same parameters, then the first second of the next step")
			gt((k+1)*period-1, "same parameters, then the last second of the step before")
			gt((k+2)*period-1, "same parameters, last second of a step")
			gt((k+2)*period, "same parameters, directly followed by the first second of the next step")
		}
		// (a') the same secret and instant with exactly one other argument changed - the period (multiples, divisors,
		// +-1; at an instant where the steps of all of them begin in the same second), the digits, the hash - each
		// followed by the base call again
		{
			ts := uint64(1+hrng.Intn(40000))*43200 + uint64(hrng.Intn(10))
			call := func(ds2, as2 string, per uint64, note string) {
				add(jsCase{Fn: "generateTOTP", Args: []jsArg{sArg(sec), nArg(float64(ts)), sArg(ds2), sArg(as2), nArg(float64(per))}, Want: ref.TOTP(key, int64(ts), per, restDigits(ds2), restAlgo(as2)), Note: note})
			}
			for _, q := range []uint64{period * 2, period * 3, period * 10, period / 2, period / 3, period + 1, period - 1, 30, 60, 1, 3600} {
				if q >= 1 && q <= 3600 && q != period {
					call(ds, as, period, "base call of a one-argument-changed history")
					call(ds, as, q, "same arguments as the previous call but the period")
				}
			}
			for _, ds2 := range []string{"6", "8", "10"} {
				if ds2 != ds {
					call(ds, as, period, "base call of a one-argument-changed history")
					call(ds2, as, period, "same arguments as the previous call but the digits")
				}
			}
			for _, as2 := range []string{"SHA1", "SHA256", "SHA512"} {
				if as2 != as {
					call(ds, as, period, "base call of a one-argument-changed history")
					call(ds, as2, period, "same arguments as the previous call but the hash")
				}
			}
			call(ds, as, period, "base call of a one-argument-changed history")
		}
		// (b)
		offs := stepWalkOffsets(hrng, 120)
		for _, off := range offs {
			step := uint64(int64(k0+300) + off)
			switch w % 2 {
			case 0:
				gt(step*period+uint64(hrng.Intn(int(period))), "same parameters, walk over adjacent steps")
			default:
				add(jsCase{Fn: "generateHOTP", Args: []jsArg{sArg(sec), nArg(float64(step)), sArg(ds), sArg(as)}, Want: ref.HOTP(key, step, d, a), Note: "same parameters, walk over adjacent counters"})
			}
		}
		rel := relatedCounters(hrng, k0, (1<<53-3600)/period)
		for i, v := range rel {
			if i > 160 {
				break
			}
			if w%2 == 0 {
				add(jsCase{Fn: "generateHOTP", Args: []jsArg{sArg(sec), nArg(float64(v)), sArg(ds), sArg(as)}, Want: ref.HOTP(key, v, d, a), Note: "same parameters, bit-related counters"})
			} else {
				gt(v*period+uint64(hrng.Intn(int(period))), "same parameters, bit-related steps")
			}
		}
		// (c)
		skew := uint64(hrng.Intn(4))
		for i, off := range offs {
			if i > 60 {
				break
			}
			step := uint64(int64(k0+300) + off)
			for j, x := range []uint64{step, step - skew, step + skew, step + skew + 1, step - skew - 1} {
				code := ref.HOTP(key, x, d, a)
				_, want := ref.HOTPWindow(key, step, skew, d, a)[code]
				note := fmt.Sprintf("same parameters, validation walk, code %d of (own, low edge, high edge, above, below), window %d", j, skew)
				if w%2 == 0 {
					add(jsCase{Fn: "validateTOTP", Args: []jsArg{sArg(sec), sArg(code), nArg(float64(step*period + uint64(hrng.Intn(int(period))))), sArg(ds), sArg(as), nArg(float64(skew)), nArg(float64(period))}, Want: fmt.Sprint(want), Note: note})
				} else {
					add(jsCase{Fn: "validateHOTP", Args: []jsArg{sArg(sec), sArg(code), nArg(float64(step)), sArg(ds), sArg(as), nArg(float64(skew))}, Want: fmt.Sprint(want), Note: note})
				}
			}
		}
	}
	return out
}

func describeJS(a jsArg) string {
	switch a.T {
	case "u":
		return "undefined"
	case "n":
		return fmt.Sprint(a.N)
	case "b":
		return "boolean"
	case "o":
		return "object"
	case "a":
		return "array"
	case "s":
		return fmt.Sprintf("string %q", a.S)
	}
	return a.T
}

type nodeOut struct {
	Fatal         string   `json:"fatal"`
	ExportedNames []string `json:"exported_names"`
	EntryCalls    int      `json:"entry_function_calls"`
	Results       []struct {
		ID       int   `json:"id"`
		Global   jsVal `json:"global"`
		Exported jsVal `json:"exported"`
	} `json:"results"`
}

func runNode(c *Ctx, cases []jsCase, tag string) (*nodeOut, string, error) {
	return runNodeIn(c, c.Env["VERIF_JS_DIR"], cases, tag)
}

func runNodeIn(c *Ctx, dir string, cases []jsCase, tag string, mode ...string) (*nodeOut, string, error) {
	drv, scratch := c.Env["VERIF_JS_DRIVER"], c.Env["VERIF_SCRATCH"]
	if dir == "" || drv == "" {
		return nil, "", fmt.Errorf("wasm module / Node driver not provided by bin/check")
	}
	cp := filepath.Join(scratch, "c20-cases-"+tag+".json")
	op := filepath.Join(scratch, "c20-out-"+tag+".json")
	b, _ := json.Marshal(cases)
	os.WriteFile(cp, b, 0o644)
	// a watchdog, not a verdict: the driver rewrites <out>.progress with the number of cases done every 200 cases; the
	// watchdog fires when that number has stood still for `limit` (never because the whole run is long - the case list
	// grows with the tier), and the CPU time node used DURING the stall tells a hang (spinning) from a stalled machine.
	// A run that keeps progressing is only cut off after 45 minutes, which is inconclusive.
	limit := 10 * time.Minute
	if len(mode) > 0 {
		limit = 90 * time.Second
	}
	prog := op + ".progress"
	os.Remove(prog)
	cmd := exec.Command("node", append([]string{drv, dir, cp, op}, mode...)...)
	var outBuf bytes.Buffer
	cmd.Stdout, cmd.Stderr = &outBuf, &outBuf
	err := cmd.Start()
	if err == nil {
		waited := make(chan error, 1)
		go func() { waited <- cmd.Wait() }()
		started := time.Now()
		lastChange, lastVal, cpuAtChange := time.Now(), "", procCPUSeconds(cmd.Process.Pid)
		tick := time.NewTicker(2 * time.Second)
	wait:
		for {
			select {
			case err = <-waited:
				tick.Stop()
				break wait
			case <-tick.C:
				if b, rerr := os.ReadFile(prog); rerr == nil && string(b) != lastVal {
					lastVal, lastChange, cpuAtChange = string(b), time.Now(), procCPUSeconds(cmd.Process.Pid)
				}
				stalled := time.Since(lastChange) > limit
				if !stalled && time.Since(started) < 45*time.Minute {
					continue
				}
				cpu := procCPUSeconds(cmd.Process.Pid) - cpuAtChange
				cmd.Process.Kill()
				<-waited
				tick.Stop()
				os.Remove(op)
				os.Remove(prog)
				if !stalled {
					return nil, clipS(outBuf.String()), fmt.Errorf("node still progressing after 45 minutes (cases done: %s); cut off", lastVal)
				}
				return nil, clipS(outBuf.String()), &nodeHang{limit: limit, cpuSeconds: cpu, done: lastVal}
			}
		}
	}
	os.Remove(prog)
	outB := outBuf.Bytes()
	tail := string(outB)
	if len(tail) > 2000 {
		tail = tail[len(tail)-2000:]
	}
	ob, rerr := os.ReadFile(op)
	if rerr != nil {
		return nil, tail, fmt.Errorf("node produced no result file (%v)", err)
	}
	var no nodeOut
	if jerr := json.Unmarshal(ob, &no); jerr != nil {
		return nil, tail, jerr
	}
	return &no, tail, nil
}

// nodeHang: node did not finish within the watchdog's limit; cpuSeconds is what it had used by then.
type nodeHang struct {
	limit      time.Duration
	cpuSeconds float64
	done       string // the driver's last heartbeat (cases done)
}

func (h *nodeHang) Error() string {
	return fmt.Sprintf("node made no progress for %v (cases done: %s; CPU time used meanwhile: %.0f s)", h.limit, h.done, h.cpuSeconds)
}

func procCPUSeconds(pid int) float64 {
	b, err := os.ReadFile(fmt.Sprintf("/proc/%d/stat", pid))
	if err != nil {
		return 0
	}
	s := string(b)
	if i := strings.LastIndexByte(s, ')'); i >= 0 {
		f := strings.Fields(s[i+1:])
		if len(f) > 12 {
			var ut, st float64
			fmt.Sscan(f[11], &ut)
			fmt.Sscan(f[12], &st)
			return (ut + st) / 100
		}
	}
	return 0
}

func judgeJS(c *Ctx, k jsCase, path string, got jsVal) {
	r := c.R
	g := got.canon()
	v := func(cls, what string) {
		r.Violate("C20|"+k.Fn+"|"+cls+"|"+path, k.Fn+" via "+path+": "+what+noteSfx(k.Note), "js", k, k.Want, g)
	}
	r.Eval(1)
	switch {
	case got.T == "missing":
		v("not-exported", "the function is not reachable under this name")
	case got.T == "thrown":
		v("throws", "the call throws instead of returning (a Go panic kills the module)")
	case k.Malformed:
		if !(got.T == "s" && strings.HasPrefix(got.S, "error:")) {
			v("malformed-not-rejected", "a malformed call is not answered with a string starting with 'error:'")
		}
	case k.OrError && got.T == "s" && strings.HasPrefix(got.S, "error:"):
		r.Count("fractional_numbers_refused", 1)
	case g != k.Want:
		if k.OrError {
			r.Count("fractional_numbers_judged", 1)
		}
		cls := "differs-from-native"
		if strings.HasPrefix(k.Fn, "validate") {
			cls = "verdict-differs-from-native"
		}
		v(cls, "the binding's answer differs from the native library / reference")
	}
}

func noteSfx(n string) string {
	if n == "" {
		return ""
	}
	return " (" + n + ")"
}

func init() {
	register(&Prop{
		ID: "C20",
		Rule: "otp.wasm is built from the working tree (GOOS=js GOARCH=wasm) into a scratch copy of otp-js and loaded under Node through the repository's index.js; a generated case list (counters/timestamps 0..2^53, a fractional part on any numeric argument (answer = integer part's answer or error:), digits '6','8','9','10' + unknown spellings, three hashes + unknown, periods 1..3600, skews 0..10, codes at every window distance -(s+2)..+(s+2), URLs, and malformed calls: every argument position x {undefined,null,NaN,+-Infinity,-1,1e300,boolean,object,array,'',BigInt,Symbol,function,Date,typed array,boxed string/number}, too few/many arguments, range errors) is executed through globalThis.<name> and through the exported object by name; answers are compared with the native library and the reference model, malformed calls must return 'error:…' and are followed by a known-answer probe; the binding's Go sources are additionally compiled natively through an overlay for a larger differential; " +
			"the driver reloads the module after a call has killed the Go program, so later cases are judged on their own; the package as committed (index.js + the committed lib/otp.wasm) is driven with a reduced list against the same oracle (paths committed-artefact/...); distinct_nontrivial counts distinct (function, arguments) calls judged through both access paths",
		Run: func(c *Ctx) {
			r := c.R
			procs := c.N(1, 6)
			per := c.N(4000, 100000) / procs
			for p := 0; p < procs; p++ {
				sub := *c
				sub.RNG = c.RNG.Fork(uint64(2000 + p))
				cases := c20Cases(&sub, per)
				no, tail, err := runNode(c, cases, fmt.Sprint(p))
				if err != nil || no.Fatal != "" {
					msg := fmt.Sprint(err)
					if no != nil {
						msg = no.Fatal
					}
					r.Inconclusive("Node run failed: " + msg + " " + clipS(tail))
					continue
				}
				r.Extra["exported_names"] = no.ExportedNames
				byID := map[int]int{}
				for i, res := range no.Results {
					byID[res.ID] = i
				}
				for _, k := range cases {
					i, ok := byID[k.ID]
					if !ok {
						r.Violate("C20|"+k.Fn+"|no-result|", "the module stopped answering (no result for a call; a Go panic inside a callback kills the runtime)", "js", k, k.Want, "no result; node output: "+clipS(tail))
						break
					}
					r.Nontrivial(k.Fn + "|" + mustJSON(k.Args))
					judgeJS(c, k, "globalThis", no.Results[i].Global)
					judgeJS(c, k, "exports", no.Results[i].Exported)
					r.Count("calls:"+k.Fn, 1)
					if k.Malformed {
						r.Count("malformed_calls", 1)
					}
					if r.WantSample() {
						r.Sample(map[string]any{"fn": k.Fn, "args": k.Args, "want": k.Want, "globalThis": no.Results[i].Global.canon(), "exports": no.Results[i].Exported.canon(), "note": k.Note})
					}
				}
				r.Count("node_processes", 1)
			}
			// every name the entry module exports must be a function this check drives
			if names, ok := r.Extra["exported_names"].([]string); ok {
				known := map[string]bool{"generateHOTP": true, "generateTOTP": true, "validateHOTP": true, "validateTOTP": true, "generateOTPURL": true}
				for _, n := range names {
					if !known[n] {
						r.Inconclusive("the entry module exports a name this check has no cases for: " + n)
					}
				}
			}
			c20Native(c)
			c20Committed(c)
			c20Reinit(c)
		},
		Replay: func(c *Ctx, kind string, raw json.RawMessage) error {
			if kind != "js" {
				return fmt.Errorf("kind %q has no single-case replay", kind)
			}
			return replayAs(raw, func(k jsCase) {
				k.ID = 1
				no, tail, err := runNode(c, []jsCase{k}, "replay")
				if err != nil || no.Fatal != "" || len(no.Results) != 1 {
					c.R.Inconclusive("Node run failed: " + fmt.Sprint(err) + clipS(tail))
					return
				}
				judgeJS(c, k, "globalThis", no.Results[0].Global)
				judgeJS(c, k, "exports", no.Results[0].Exported)
			})
		},
	})
}

// c20Committed: the JavaScript package as it sits in the tree - index.js loads the COMMITTED otp-js/lib/otp.wasm, not
// a fresh build. The names the package exports must answer like the native library there too; an artefact that was
// not rebuilt after the Go sources changed shows up as a difference (path label "committed-artefact/...").
func c20Committed(c *Ctx) {
	r := c.R
	dir := c.Env["VERIF_JS_COMMITTED_DIR"]
	if dir == "" {
		r.Inconclusive("committed otp-js/lib/otp.wasm not examined: scratch copy of the package as committed not provided by bin/check")
		return
	}
	sub := *c
	sub.RNG = c.RNG.Fork(2099)
	cases := c20Cases(&sub, c.N(3000, 40000))
	no, tail, err := runNodeIn(c, dir, cases, "committed")
	if err != nil || no == nil || no.Fatal != "" {
		msg := fmt.Sprint(err)
		if no != nil && no.Fatal != "" {
			msg = no.Fatal
		}
		r.Inconclusive("Node run on the committed artefact failed: " + msg + " " + clipS(tail))
		return
	}
	byID := map[int]int{}
	for i, res := range no.Results {
		byID[res.ID] = i
	}
	for _, k := range cases {
		i, ok := byID[k.ID]
		if !ok {
			r.Violate("C20|"+k.Fn+"|no-result|committed-artefact", "the committed module stopped answering", "js", k, k.Want, "no result; node output: "+clipS(tail))
			break
		}
		r.Nontrivial("committed|" + k.Fn + "|" + mustJSON(k.Args))
		judgeJS(c, k, "committed-artefact/globalThis", no.Results[i].Global)
		judgeJS(c, k, "committed-artefact/exports", no.Results[i].Exported)
		r.Count("calls_on_committed_artefact", 1)
	}
}

// c20Reinit: the package's entry function called several times in one process (same module instance): every object it
// has returned and the global names must keep answering like the native library and keep refusing malformed calls.
func c20Reinit(c *Ctx) {
	r := c.R
	sub := *c
	sub.RNG = c.RNG.Fork(2077)
	cases := c20Cases(&sub, c.N(2500, 30000))
	no, tail, err := runNodeIn(c, c.Env["VERIF_JS_DIR"], cases, "reinit", "reinit")
	if h, ok := err.(*nodeHang); ok && h.cpuSeconds > 0.5*h.limit.Seconds() {
		r.Eval(1)
		r.Violate("C20|module|hangs|after-repeated-initialisation", "after the package's entry function has been called again in the same process (once right after a call with a 1 MiB string argument), node stops making progress while using a full CPU: no call returns any more", "none",
			map[string]any{"history": "initWasm(); generateHOTP(<1 MiB string>, 1, \"6\", \"SHA1\"); initWasm(); 2 s of event loop; initWasm(); calls"}, "every call returns", h.Error()+" "+clipS(tail))
		return
	}
	if err != nil || no == nil || no.Fatal != "" {
		msg := fmt.Sprint(err)
		if no != nil && no.Fatal != "" {
			msg = no.Fatal
		}
		r.Inconclusive("Node run with repeated initialisation failed: " + msg + " " + clipS(tail))
		return
	}
	byID := map[int]int{}
	for i, res := range no.Results {
		byID[res.ID] = i
	}
	for _, k := range cases {
		i, ok := byID[k.ID]
		if !ok {
			r.Violate("C20|"+k.Fn+"|no-result|after-repeated-initialisation", "the module stopped answering", "js", k, k.Want, "no result; node output: "+clipS(tail))
			break
		}
		r.Nontrivial("reinit|" + k.Fn + "|" + mustJSON(k.Args))
		judgeJS(c, k, "after-repeated-initialisation/globalThis", no.Results[i].Global)
		judgeJS(c, k, "after-repeated-initialisation/exports", no.Results[i].Exported)
		r.Count("calls_after_repeated_initialisation", 1)
	}
	r.Count("entry_function_calls_in_one_process", no.EntryCalls)
}

// c20Native: the binding's Go sources compiled natively (overlay) against the same oracle, larger domain.
func c20Native(c *Ctx) {
	r := c.R
	bin, scratch := c.Env["VERIF_WASMNATIVE_BIN"], c.Env["VERIF_SCRATCH"]
	if bin == "" {
		r.Inconclusive("native build of the binding's Go sources not available (overlay rewrite or build failed); the Node run still decides")
		return
	}
	sub := *c
	sub.RNG = c.RNG.Fork(2999)
	cases := c20Cases(&sub, c.N(30000, 600000))
	var keep []jsCase
	for _, k := range cases {
		if !k.Malformed { // malformed-argument semantics are decided by the real wasm run only
			keep = append(keep, k)
		}
	}
	cp, op := filepath.Join(scratch, "c20-native-cases.json"), filepath.Join(scratch, "c20-native-out.json")
	b, _ := json.Marshal(keep)
	os.WriteFile(cp, b, 0o644)
	ctx, cancel := context.WithTimeout(context.Background(), 15*time.Minute)
	defer cancel()
	cmd := exec.CommandContext(ctx, bin, cp, op)
	cmd.Stdout, cmd.Stderr = nil, nil
	if err := cmd.Run(); err != nil {
		r.Inconclusive("native binding driver failed: " + err.Error())
		return
	}
	ob, _ := os.ReadFile(op)
	var res []struct {
		ID int `json:"id"`
		jsVal
	}
	if json.Unmarshal(ob, &res) != nil {
		r.Inconclusive("native binding driver wrote no results")
		return
	}
	byID := map[int]jsVal{}
	for _, x := range res {
		byID[x.ID] = x.jsVal
	}
	for _, k := range keep {
		got, ok := byID[k.ID]
		if !ok {
			continue
		}
		r.Nontrivial("native|" + k.Fn + "|" + mustJSON(k.Args))
		judgeJS(c, k, "native-build-of-binding", got)
		r.Count("native_binding_calls", 1)
	}
}
