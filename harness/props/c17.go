package props

import (
	"encoding/json"
	"fmt"
	"math/big"
	"strings"

	"github.com/ja7ad/otp"

	"verifh/gen"
	"verifh/ref"
)

// ---- C17: input helpers encode as documented; numeric questions follow the RFC ----

type helperCase struct {
	Op   string   `json:"op"`
	S    []string `json:"s,omitempty"`
	V    uint64   `json:"v,omitempty"`
	N    int      `json:"n,omitempty"`
	Note string   `json:"note,omitempty"`
}

func isDigits(s string) bool {
	if s == "" {
		return false
	}
	for i := 0; i < len(s); i++ {
		if s[i] < '0' || s[i] > '9' {
			return false
		}
	}
	return true
}

func judgeHelper(c *Ctx, k helperCase) {
	r := c.R
	r.Eval(1)
	r.Nontrivial(mustJSON(k))
	bad := func(cls, what, exp, obs string) {
		r.Violate("C17|"+k.Op+"|"+cls+"|", k.Op+": "+what, "helper", k, exp, obs)
	}
	switch k.Op {
	case "To8ByteBigEndian":
		var got []byte
		if p := monCatch(func() { got = otp.To8ByteBigEndian(k.V) }); p != nil {
			bad("panic", "panics", "8 bytes", panicStr(p))
			return
		}
		if hexs(got) != hexs(ref.BE8(k.V)) {
			bad("wrong-encoding", "is not the 8-byte big-endian encoding", hexs(ref.BE8(k.V)), hexs(got))
		}
	case "ParseDecimalToBigEndian8", "ParseDecimal64BigEndian":
		var got []byte
		var err error
		if p := monCatch(func() {
			if k.Op == "ParseDecimalToBigEndian8" {
				got, err = otp.ParseDecimalToBigEndian8(k.S[0])
			} else {
				got, err = otp.ParseDecimal64BigEndian(k.S[0])
			}
		}); p != nil {
			bad("panic", "panics", "bytes or an error", panicStr(p))
			return
		}
		v, ok := ref.ParseUint64Dec(k.S[0])
		if ok {
			if err != nil || hexs(got) != hexs(ref.BE8(v)) {
				bad("wrong-encoding", "valid decimal text is not encoded as the 8-byte big-endian counter", hexs(ref.BE8(v)), fmt.Sprintf("%x err=%v", got, err))
			}
		} else if err == nil {
			bad("malformed-accepted", "malformed decimal text is accepted", "an error", fmt.Sprintf("%x", got))
		}
	case "LeftPadHex":
		var got string
		if p := monCatch(func() { got = otp.LeftPadHex(k.S[0], k.N) }); p != nil {
			bad("panic", "panics for a width inside 0..2^20", "a string", panicStr(p))
			return
		}
		if want := ref.LeftPadHex(k.S[0], k.N); got != want {
			bad("wrong-padding", "does not left-pad with '0' to the width / keep the rightmost characters", clipS(want), clipS(got))
		}
	case "MustHexPadLeft":
		var got []byte
		p := monCatch(func() { got = otp.MustHexPadLeft(k.S[0], k.N) })
		want, ok := ref.HexDecode(ref.LeftPadHex(k.S[0], 2*k.N))
		if ok {
			if p != nil || hexs(got) != hexs(want) {
				bad("wrong-encoding", "valid hex is not decoded to the left-padded fixed-width bytes", clipS(hexs(want)), fmt.Sprintf("%s panic=%v", clipS(hexs(got)), p))
			}
		} else if p == nil {
			bad("malformed-accepted", "malformed hex does not panic as documented", "a panic", clipS(hexs(got)))
		}
	case "ParseHexTimestamp":
		var got []byte
		var err error
		if p := monCatch(func() { got, err = otp.ParseHexTimestamp(k.S[0]) }); p != nil {
			bad("panic", "panics", "bytes or an error", panicStr(p))
			return
		}
		padded := k.S[0]
		if len(padded) < 16 {
			padded = strings.Repeat("0", 16-len(padded)) + padded
		}
		want, ok := ref.HexDecode(padded)
		switch {
		case ok && len(padded) == 16:
			if err != nil || hexs(got) != hexs(want) {
				bad("wrong-encoding", "a hex timestamp is not decoded to left-padded bytes (8 bytes for up to 16 digits)", hexs(want), fmt.Sprintf("%x err=%v", got, err))
			}
		case ok:
			// more than 16 hex digits: "hex timestamps become 8 bytes, malformed text is rejected" - an error, or (when
			// everything in front of the last 16 digits is zero) exactly those 8 bytes; never another number of bytes
			if err != nil {
				c.R.Count("overlong_hex_timestamps_rejected", 1)
				break
			}
			lead, last := padded[:len(padded)-16], padded[len(padded)-16:]
			w8, _ := ref.HexDecode(last)
			if len(got) != 8 || strings.Trim(lead, "0") != "" || hexs(got) != hexs(w8) {
				bad("overlong-timestamp", "a hex timestamp of more than 16 digits is neither rejected nor reduced to its 8 bytes", "an error (or the 8-byte value when only zeros are in front)", fmt.Sprintf("%d bytes %s", len(got), clipS(hexs(got))))
			}
		case err == nil:
			bad("malformed-accepted", "malformed hex is accepted", "an error", hexs(got))
		}
	case "ParseDecimalChallengeRFC6287":
		var got []byte
		var err error
		if p := monCatch(func() { got, err = otp.ParseDecimalChallengeRFC6287(k.S[0]) }); p != nil {
			bad("panic", "panics", "bytes or an error", panicStr(p))
			return
		}
		s := k.S[0]
		if isDigits(s) {
			want, ok := ref.QuestionToBytes(s)
			if ok && (err != nil || hexs(got) != hexs(want)) {
				bad("wrong-encoding", "a decimal question is not converted as RFC 6287 prescribes (decimal -> hex text -> right-pad '0' to 128 bytes)", clipS(hexs(want)), fmt.Sprintf("%s err=%v", clipS(hexs(got)), err))
			}
		} else if !strings.HasPrefix(s, "+") && !strings.HasPrefix(s, "-") && err == nil {
			bad("malformed-accepted", "malformed decimal text is accepted", "an error", clipS(hexs(got)))
		} else if (strings.HasPrefix(s, "+") || strings.HasPrefix(s, "-")) && err == nil {
			// a sign in front: whether that is still a decimal question is not stated, so refusing it is right and so is
			// taking it as the number it denotes; anything else (another value, sign + non-digits, a negative number) is not
			rest := s[1:]
			zero := rest != "" && strings.Trim(rest, "0") == ""
			want, ok := ref.QuestionToBytes(rest)
			if !isDigits(rest) || !ok || (s[0] == '-' && !zero) || hexs(got) != hexs(want) {
				bad("signed-text-approximated", "signed decimal text is accepted with a value other than the number it denotes", "an error, or the encoding of the number written", clipS(hexs(got)))
			}
		}
	case "HexInputToOCRA":
		var got otp.OCRAInput
		var err error
		if p := monCatch(func() { got, err = otp.HexInputToOCRA(k.S[0], k.S[1], k.S[2], k.S[3], k.S[4]) }); p != nil {
			bad("panic", "panics", "an input or an error", panicStr(p))
			return
		}
		allOK := true
		var want [5][]byte
		for i, s := range k.S {
			if s == "" {
				continue
			}
			b, ok := ref.HexDecode(s)
			if !ok {
				allOK = false
			}
			want[i] = b
		}
		if !allOK {
			if err == nil {
				bad("malformed-accepted", "a malformed hex field is accepted", "an error", fmt.Sprintf("%+v", got))
			}
			return
		}
		gotF := [5][]byte{got.Counter, got.Challenge, got.Password, got.SessionInfo, got.Timestamp}
		for i := range want {
			if err != nil || hexs(gotF[i]) != hexs(want[i]) || (k.S[i] == "" && len(gotF[i]) != 0) {
				bad("field-crossed-or-wrong", fmt.Sprintf("hex request field %d (%s) does not become the corresponding byte field", i, []string{"counter", "challenge", "password", "session", "timestamp"}[i]), fmt.Sprintf("%x", want), fmt.Sprintf("%x err=%v", gotF, err))
				break
			}
		}
	case "question-end-to-end":
		q := k.S[0]
		key := unhex(k.S[1])
		m := ref.Suite{Raw: k.S[2], Hash: int(k.V), Digits: k.N, Q: true, Challenge: ref.QN08}
		if strings.Contains(k.S[2], "QN10") {
			m.Challenge = ref.QN10
		}
		wantQ, ok := ref.QuestionToBytes(q)
		if !ok {
			return
		}
		want := ref.OCRA(key, m, ref.Input{Challenge: wantQ})
		var code string
		var err error
		p := monCatch(func() {
			var ch []byte
			ch, err = otp.ParseDecimalChallengeRFC6287(q)
			if err != nil {
				return
			}
			code, err = otp.GenerateOCRA(ref.Base32Encode(key), toCfg(m), otp.OCRAInput{Challenge: ch})
		})
		if p != nil || err != nil || code != want {
			bad("rfc-value", "an OCRA code computed from a numeric question through the helpers differs from the RFC 6287 value", want, fmt.Sprintf("%q err=%v panic=%v", code, err, p))
		}
	}
	if r.WantSample() {
		r.Sample(k)
	}
}

func clipS(s string) string {
	if len(s) > 120 {
		return s[:120] + fmt.Sprintf("…(%d)", len(s))
	}
	return s
}

func classString(rng *gen.RNG, n int, class int) string {
	alph := []string{"0123456789", "0123456789abcdefABCDEF", "0123456789+- ", "0123456789abcdefghxyz_", "0000000000"}[class%5]
	b := make([]byte, n)
	for i := range b {
		b[i] = alph[rng.Intn(len(alph))]
	}
	return string(b)
}

func c17Cases(c *Ctx, emit func(helperCase)) {
	rng := c.RNG.Fork(17)
	// 64-bit values
	vals := append([]uint64{}, gen.Counters...)
	for i := 0; i < c.N(100000, 3000000); i++ {
		vals = append(vals, rng.U64()>>uint(rng.Intn(64)))
	}
	for _, v := range vals {
		emit(helperCase{Op: "To8ByteBigEndian", V: v})
		s := fmt.Sprint(v)
		if rng.Intn(4) == 0 {
			s = strings.Repeat("0", rng.Intn(5)) + s
		}
		emit(helperCase{Op: "ParseDecimalToBigEndian8", S: []string{s}})
		emit(helperCase{Op: "ParseDecimal64BigEndian", S: []string{s}})
	}
	special := []string{"", "0", "00", "18446744073709551615", "18446744073709551616", "18446744073709551617", "99999999999999999999", "-1", "+1", "-0", " 1", "1 ", "1_000", "0x10", "1e3", "１２", "१२", "12a", "a", "ff", "FF", "0f", "f", "fff", "0g", "zz", "\x00", "1\n"}
	for _, s := range special {
		for _, op := range []string{"ParseDecimalToBigEndian8", "ParseDecimal64BigEndian", "ParseDecimalChallengeRFC6287", "ParseHexTimestamp"} {
			emit(helperCase{Op: op, S: []string{s}})
		}
		for _, n := range []int{0, 1, 2, 8, 16, 17} {
			emit(helperCase{Op: "LeftPadHex", S: []string{s}, N: n})
			emit(helperCase{Op: "MustHexPadLeft", S: []string{s}, N: n})
		}
	}
	// strings of length 0..300 from the character classes
	for rep := 0; rep < c.N(3, 40); rep++ {
		for n := 0; n <= 300; n++ {
			for cl := 0; cl < 5; cl++ {
				s := classString(rng, n, cl)
				emit(helperCase{Op: "ParseDecimalToBigEndian8", S: []string{s}})
				emit(helperCase{Op: "ParseDecimal64BigEndian", S: []string{s}})
				emit(helperCase{Op: "ParseDecimalChallengeRFC6287", S: []string{s}})
				emit(helperCase{Op: "ParseHexTimestamp", S: []string{s}})
				emit(helperCase{Op: "LeftPadHex", S: []string{s}, N: gen.Pick(rng, []int{0, 1, 8, 16, 32, 256, 257, 1 << 10, n, n + 1, n - 1 + 1})})
				emit(helperCase{Op: "MustHexPadLeft", S: []string{s}, N: gen.Pick(rng, []int{0, 1, 4, 8, 20, 64, 128, n / 2, n/2 + 1})})
			}
		}
	}
	// every byte value 0..255 at every kind of place in short texts (alone, first, last, in the middle, repeated 4, 8
	// and 16 times): a digit test that folds case, masks bits or subtracts before comparing lets bytes through that are
	// no digits (0x10..0x19 under |0x20, 0xB0..0xB9 under &0x7f, ':'..'?' under a nibble mask, ...)
	for b := 0; b < 256; b++ {
		ch := string([]byte{byte(b)})
		texts := []string{ch, "1" + ch, ch + "1", "12" + ch + "34", "ab" + ch + "c", "0" + ch, strings.Repeat(ch, 2), strings.Repeat(ch, 4), strings.Repeat(ch, 8), strings.Repeat(ch, 16), "0000000" + ch, ch + "0000000", "00000000000000" + ch + "1"}
		for _, t := range texts {
			note := fmt.Sprintf("byte 0x%02x in the text (hex of the text: %x)", b, t)
			for _, op := range []string{"ParseDecimalToBigEndian8", "ParseDecimal64BigEndian", "ParseDecimalChallengeRFC6287", "ParseHexTimestamp"} {
				emit(helperCase{Op: op, S: []string{t}, Note: note})
			}
			for _, n := range []int{len(t)/2 + 1, 8, 20} {
				emit(helperCase{Op: "LeftPadHex", S: []string{t}, N: 2 * n, Note: note})
				emit(helperCase{Op: "MustHexPadLeft", S: []string{t}, N: n, Note: note})
			}
			for f := 0; f < 5; f++ {
				fields := []string{"0000000000000001", "3132333435363738", "", "", "000000000132d0b6"}
				fields[f] = t
				emit(helperCase{Op: "HexInputToOCRA", S: fields, Note: note})
			}
		}
	}
	emit(helperCase{Op: "LeftPadHex", S: []string{"abc"}, N: 1 << 20})
	emit(helperCase{Op: "MustHexPadLeft", S: []string{"abc"}, N: 1 << 19})
	// timestamps: every length 0..20 of valid hex, odd and even
	for n := 0; n <= 20; n++ {
		for i := 0; i < 10; i++ {
			emit(helperCase{Op: "ParseHexTimestamp", S: []string{classString(rng, n, 1)}})
		}
	}
	// five-field combinations: valid / invalid / empty
	valid := []string{"0000000000000001", "3132333435363738", "7110eda4d09e062aa5e4a390b0a572ac0d2c0220", "AbCd", "000000000132d0b6"}
	invalid := []string{"0", "xyz1", "7110eda4d09e062aa5e4a390b0a572ac0d2c022", "ab cd", "0x12"}
	for m := 0; m < 243; m++ {
		var f [5]string
		x := m
		for i := 0; i < 5; i++ {
			switch x % 3 {
			case 0:
				f[i] = ""
			case 1:
				f[i] = valid[(i+m)%5]
			default:
				f[i] = invalid[(i+m)%5]
			}
			x /= 3
		}
		emit(helperCase{Op: "HexInputToOCRA", S: f[:]})
	}
	for i := 0; i < c.N(20000, 500000); i++ {
		var f [5]string
		for j := range f {
			f[j] = fmt.Sprintf("%x", rng.Bytes(rng.Intn(140)))
			if rng.Intn(6) == 0 {
				f[j] = ""
			}
			if rng.Intn(12) == 0 {
				f[j] += "g"
			}
		}
		emit(helperCase{Op: "HexInputToOCRA", S: f[:]})
	}
	// numeric questions end to end: every length 1..64, leading zeros, odd hex lengths
	for n := 1; n <= 64; n++ {
		for rep := 0; rep < c.N(60, 1500); rep++ {
			q := classString(rng, n, 0)
			if rep%3 == 0 {
				q = "0" + q[1:]
			}
			h := rep % 3
			d := 4 + (rep+n)%7
			raw := fmt.Sprintf("OCRA-1:HOTP-%s-%d:%s", []string{"SHA1", "SHA256", "SHA512"}[h], d, gen.Pick(rng, []string{"QN08", "QN10"}))
			emit(helperCase{Op: "question-end-to-end", S: []string{q, hexs(rng.Bytes(20)), raw}, V: uint64(h), N: d})
			emit(helperCase{Op: "ParseDecimalChallengeRFC6287", S: []string{q}})
		}
	}
	for _, v := range ref.OCRAVectors {
		emit(helperCase{Op: "ParseDecimalChallengeRFC6287", S: []string{v.QuestionDec}})
	}
	// structured values: sums of a few powers of two / ten / sixteen (long zero runs in binary, decimal or hex), up to 64 digits
	lim := new(big.Int).Exp(big.NewInt(10), big.NewInt(64), nil)
	for i := 0; i < c.N(4000, 100000); i++ {
		v := new(big.Int)
		for t := 1 + rng.Intn(3); t > 0; t-- {
			base := gen.Pick(rng, []int64{2, 2, 2, 10, 16})
			maxE := map[int64]int{2: 212, 10: 63, 16: 53}[base]
			e := rng.Intn(maxE + 1)
			if base == 2 && rng.Bool() {
				e = 8 * rng.Intn(27) // byte / word aligned
				if rng.Bool() {
					e = 64 * rng.Intn(4)
				}
			}
			term := new(big.Int).Exp(big.NewInt(base), big.NewInt(int64(e)), nil)
			term.Mul(term, big.NewInt(int64(1+rng.Intn(255))))
			if rng.Intn(4) == 0 {
				v.Sub(v, big.NewInt(int64(rng.Intn(3))))
			}
			v.Add(v, term)
		}
		if v.Sign() <= 0 || v.Cmp(lim) >= 0 {
			continue
		}
		q := v.String()
		emit(helperCase{Op: "ParseDecimalChallengeRFC6287", S: []string{q}})
		if i%4 == 0 {
			h := i % 3
			d := 4 + i%7
			raw := fmt.Sprintf("OCRA-1:HOTP-%s-%d:QN08", []string{"SHA1", "SHA256", "SHA512"}[h], d)
			emit(helperCase{Op: "question-end-to-end", S: []string{q, hexs(rng.Bytes(20)), raw}, V: uint64(h), N: d})
		}
	}
}

// c17History: on one goroutine, each text helper is given a valid text, then the same text with one fault
// (sign, blank, letter, split by a sign, too long), then valid texts that are shorter, equal and longer - a helper
// that keeps anything between calls (scratch buffers, big numbers) shows up as a wrong encoding of the later ones.
func c17History(c *Ctx) {
	rng := c.RNG.Fork(1717)
	ops := []string{"ParseDecimalChallengeRFC6287", "ParseDecimalToBigEndian8", "ParseDecimal64BigEndian", "ParseHexTimestamp"}
	for i := 0; i < c.N(3000, 60000); i++ {
		op := ops[i%len(ops)]
		maxLen, class := 64, 0
		switch op {
		case "ParseDecimalToBigEndian8", "ParseDecimal64BigEndian":
			maxLen = 19
		case "ParseHexTimestamp":
			maxLen, class = 16, 1
		}
		mk := func(n int) string {
			q := classString(rng, n, class)
			if class == 0 && n > 1 && q[0] == '0' && rng.Bool() {
				q = "1" + q[1:]
			}
			return q
		}
		n1 := 1 + rng.Intn(maxLen)
		q1 := mk(n1)
		k := rng.Intn(n1 + 1)
		faults := []string{"-" + q1, "+" + q1, q1 + "x", " " + q1, q1 + " ", q1[:k] + "-" + q1[k:], q1 + mk(maxLen), "-" + q1 + mk(maxLen)}
		call := func(s string) {
			judgeHelper(c, helperCase{Op: op, S: []string{s}, Note: "history"})
			c.R.Count("helper_history_calls", 1)
		}
		call(q1)
		f1 := faults[rng.Intn(len(faults))]
		call(f1)
		call(mk(1 + rng.Intn(n1)))
		call(faults[rng.Intn(len(faults))])
		call(q1)
		call(mk(1 + rng.Intn(maxLen)))
		// texts that differ from an earlier one only by something a normalising key would drop: leading zeros added
		// or removed, blanks, letter case - each is judged on its own (some are valid, some are not)
		for _, x := range []string{q1, f1, "+" + q1, "-" + strings.Repeat("0", 1+rng.Intn(8))} {
			call(x)
			nb := []string{"0" + x, "00" + x, strings.Repeat("0", 1+rng.Intn(12)) + x, strings.TrimLeft(x, "0"), " " + x, x + " ", strings.ToUpper(x), strings.ToLower(x), "+" + x, strings.TrimLeft(x, "+-")}
			call(nb[rng.Intn(len(nb))])
			call(nb[rng.Intn(len(nb))])
		}
	}
}

func init() {
	register(&Prop{
		ID: "C17",
		Rule: "each helper is run on 64-bit boundary and random values, special texts, every byte value 0..255 at every kind of place in short texts, and strings of length 0..300 drawn from digit / hex / sign+space / letter classes, and compared with independent encoders (value-exact for valid text, error or documented panic for malformed text; hex timestamps of more than 16 digits: an error, or the 8-byte value when only zeros are in front; signed decimal questions: an error, or the encoding of the number written); sequential histories per helper (valid, one fault, shorter/equal/longer valid, normalisation neighbours: leading zeros, blanks, case, sign); HexInputToOCRA on all 3^5 valid/invalid/empty combinations; decimal questions of every length 1..64 go through ParseDecimalChallengeRFC6287 + GenerateOCRA and must equal the RFC 6287 reference for numeric-challenge suites of every hash and digit count; " +
			"a reduced differential against the same reference models also runs in a binary built for GOARCH=386 (32-bit int/uint; observed.evaluations_on_a_32bit_build); " +
			"distinct_nontrivial counts distinct (helper, arguments) cases",
		Run: func(c *Ctx) {
			b := newBatcher(c, judgeHelper, 0)
			c17Cases(c, b.add)
			b.flush()
			c17History(c)
			runArch386(c)
		},
		Replay: func(c *Ctx, kind string, raw json.RawMessage) error {
			return replayAs(raw, func(k helperCase) { judgeHelper(c, k) })
		},
	})
}
