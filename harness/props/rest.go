package props

import (
	"bytes"
	"context"
	"encoding/json"
	"fmt"
	"io"
	"net"
	"net/http"
	"os"
	"os/exec"
	"path/filepath"
	"strconv"
	"strings"
	"syscall"
	"time"
)

// ---- the real server binary on loopback (C18, C19, C09) ----

type server struct {
	cmd     *exec.Cmd
	addr    string
	logPath string
	client  *http.Client
	done    chan struct{}
}

func freePort() (int, error) {
	l, err := net.Listen("tcp", "127.0.0.1:0")
	if err != nil {
		return 0, err
	}
	defer l.Close()
	return l.Addr().(*net.TCPAddr).Port, nil
}

func startServer(c *Ctx, binEnv string, extraEnv ...string) (*server, error) {
	bin := c.Env[binEnv]
	if bin == "" {
		return nil, fmt.Errorf("%s not provided by bin/check", binEnv)
	}
	var lastErr error
	for attempt := 0; attempt < 5; attempt++ {
		port, err := freePort()
		if err != nil {
			return nil, err
		}
		s := &server{addr: fmt.Sprintf("127.0.0.1:%d", port), done: make(chan struct{})}
		s.logPath = filepath.Join(c.Env["VERIF_SCRATCH"], fmt.Sprintf("server-%d.log", port))
		lf, err := os.Create(s.logPath)
		if err != nil {
			return nil, err
		}
		s.cmd = exec.Command(bin, "-serve", s.addr)
		s.cmd.Stdout, s.cmd.Stderr = lf, lf
		s.cmd.Env = append(os.Environ(), extraEnv...)
		if err := s.cmd.Start(); err != nil {
			lf.Close()
			return nil, err
		}
		lf.Close()
		go func() { s.cmd.Wait(); close(s.done) }()
		s.client = &http.Client{Timeout: 60 * time.Second, Transport: &http.Transport{MaxConnsPerHost: 24, MaxIdleConnsPerHost: 24, IdleConnTimeout: 20 * time.Second, ExpectContinueTimeout: 2 * time.Second}}
		ok := false
		for i := 0; i < 100; i++ {
			select {
			case <-s.done:
				i = 1000
				continue
			default:
			}
			resp, err := s.client.Get("http://" + s.addr + "/")
			if err == nil {
				io.Copy(io.Discard, resp.Body)
				resp.Body.Close()
				ok = true
				break
			}
			lastErr = err
			time.Sleep(100 * time.Millisecond)
		}
		if ok {
			return s, nil
		}
		s.stop()
	}
	return nil, fmt.Errorf("server did not start: %v", lastErr)
}

func (s *server) alive() bool {
	select {
	case <-s.done:
		return false
	default:
		return true
	}
}

func (s *server) stop() {
	if s.cmd != nil && s.cmd.Process != nil && s.alive() {
		s.cmd.Process.Signal(syscall.SIGTERM)
		select {
		case <-s.done:
		case <-time.After(3 * time.Second):
			s.cmd.Process.Kill()
			<-s.done
		}
	}
	if s.client != nil {
		s.client.CloseIdleConnections()
	}
}

// cpuTicks returns utime+stime of the server process in clock ticks (a measure of work, not latency).
func (s *server) cpuTicks() (int64, bool) {
	b, err := os.ReadFile(fmt.Sprintf("/proc/%d/stat", s.cmd.Process.Pid))
	if err != nil {
		return 0, false
	}
	txt := string(b)
	i := strings.LastIndexByte(txt, ')')
	if i < 0 {
		return 0, false
	}
	f := strings.Fields(txt[i+1:])
	if len(f) < 13 {
		return 0, false
	}
	ut, _ := strconv.ParseInt(f[11], 10, 64)
	st, _ := strconv.ParseInt(f[12], 10, 64)
	return ut + st, true
}

// rssKB returns the resident set size of the server process in KiB (VmRSS of /proc/<pid>/status).
func (s *server) rssKB() (int64, bool) {
	b, err := os.ReadFile(fmt.Sprintf("/proc/%d/status", s.cmd.Process.Pid))
	if err != nil {
		return 0, false
	}
	for _, ln := range strings.Split(string(b), "\n") {
		if strings.HasPrefix(ln, "VmRSS:") {
			f := strings.Fields(ln)
			if len(f) >= 2 {
				v, e := strconv.ParseInt(f[1], 10, 64)
				return v, e == nil
			}
		}
	}
	return 0, false
}

type httpResult struct {
	Status int
	Header http.Header
	Body   []byte
	Err    error
}

// do issues one request; on a connection the server closed (it recycles connections
// after 100 requests) the request is retried once on a fresh connection.
// framing variants for request bodies
const (
	framingPlain     = ""
	framingChunked   = "chunked"    // Transfer-Encoding: chunked (no Content-Length)
	framingExpect100 = "expect-100" // Expect: 100-continue
)

type unsizedReader struct{ r io.Reader }

func (u unsizedReader) Read(p []byte) (int, error) { return u.r.Read(p) }

func (s *server) do(method, path string, body []byte, fresh bool, timeout time.Duration) httpResult {
	return s.doFramed(method, path, body, fresh, timeout, framingPlain)
}

func (s *server) doFramed(method, path string, body []byte, fresh bool, timeout time.Duration, framing string) httpResult {
	var last httpResult
	busy := 0
	for attempt := 0; attempt < 2; attempt++ {
		ctx, cancel := context.WithTimeout(context.Background(), timeout)
		var rd io.Reader = bytes.NewReader(body)
		if framing == framingChunked && body != nil {
			rd = unsizedReader{bytes.NewReader(body)} // length unknown to net/http => chunked transfer encoding
		}
		req, err := http.NewRequestWithContext(ctx, method, "http://"+s.addr+path, rd)
		if err != nil {
			cancel()
			return httpResult{Err: err}
		}
		if framing == framingExpect100 && body != nil {
			req.Header.Set("Expect", "100-continue")
		}
		if body != nil {
			req.Header.Set("Content-Type", "application/json")
		}
		if fresh || attempt > 0 {
			req.Close = true
		}
		resp, err := s.client.Do(req)
		if err != nil {
			cancel()
			last = httpResult{Err: err}
			if ctx.Err() != nil {
				return last // timeout: do not retry
			}
			continue
		}
		b, rerr := io.ReadAll(resp.Body)
		resp.Body.Close()
		cancel()
		last = httpResult{Status: resp.StatusCode, Header: resp.Header, Body: b, Err: rerr}
		if rerr == nil && resp.StatusCode == 429 && bytes.Contains(b, []byte("MaxConnsPerIP")) && busy < 100 {
			// the server's per-IP connection limit (50): connections this client has just closed may still be counted.
			// Not a verdict on the request: back off and re-issue it.
			busy++
			attempt--
			time.Sleep(30 * time.Millisecond)
			continue
		}
		if rerr == nil {
			return last
		}
	}
	return last
}

func jsonBody(f map[string]any) []byte {
	b, _ := json.Marshal(f)
	return b
}

func newPlainClient() *http.Client {
	return &http.Client{Timeout: 120 * time.Second, Transport: &http.Transport{MaxConnsPerHost: 4}}
}
