package props

import (
	"context"
	"encoding/json"
	"fmt"
	"os"
	"os/exec"
	"path/filepath"
	"sort"
	"strconv"
	"strings"
	"syscall"
	"time"

	"verifh/gen"
	"verifh/ref"
)

// ---- C09: submitted codes are compared with the expected code in constant time ----
// Decided by a debugger-based execution monitor (gdb + Python, gdb/ctmon.py):
//  (a) operand watch on early-exit comparison primitives, (b) instruction-count differential.

var ctPrimitives = map[string]string{
	"runtime.memequal":                  "mem3",
	"runtime.memequal_varlen":           "varlen",
	"runtime.strequal":                  "strptr2",
	"runtime.cmpstring":                 "str2",
	"internal/bytealg.Compare":          "slice2",
	"internal/bytealg.CompareString":    "str2",
	"bytes.Compare":                     "slice2",
	"bytes.Equal":                       "slice2",
	"strings.Compare":                   "str2",
	"strings.EqualFold":                 "str2",
	"bytes.EqualFold":                   "slice2",
	"strings.HasPrefix":                 "str2",
	"strings.HasSuffix":                 "str2",
	"bytes.HasPrefix":                   "slice2",
	"internal/stringslite.HasPrefix":    "str2",
	"strings.Index":                     "index",
	"strings.Contains":                  "index",
	"internal/bytealg.IndexString":      "index",
	"crypto/subtle.ConstantTimeCompare": "slice2",
	"crypto/internal/fips140/subtle.ConstantTimeCompare": "slice2",
}

var ctCountedPrefixes = []string{"github.com/ja7ad/otp", "main.", "crypto/subtle.", "crypto/internal/fips140/subtle.", "bytes.", "strings.", "internal/bytealg.", "internal/stringslite.", "strconv.", "unicode.", "unicode/utf8."}
var ctCountedExact = []string{"runtime.memequal", "runtime.memequal_varlen", "runtime.strequal", "runtime.cmpstring", "memeqbody", "cmpbody", "runtime.memeqbody", "runtime.cmpbody", "indexbytebody", "runtime.strhash"}

type gdbOut struct {
	Watch []struct {
		ID      int  `json:"id"`
		CTC     int  `json:"ctc_submitted_expected"`
		OK      bool `json:"ok"`
		Flagged []struct {
			Primitive, Caller, A, B string
		} `json:"flagged"`
	} `json:"watch"`
	Count []struct {
		ID     int            `json:"id"`
		Total  int            `json:"total"`
		Steps  int            `json:"steps"`
		ByFunc map[string]int `json:"by_func"`
	} `json:"count"`
	Errors        []string `json:"errors"`
	PrimitiveHits int      `json:"primitive_hits"`
	Markers       int      `json:"markers_seen"`
	PrimitivesSet []string `json:"primitives_set"`
	ServerFlagged []struct {
		Primitive, Caller, A, B string
	} `json:"server_flagged"`
	ServerCTC int `json:"server_ctc_with_expected"`
}

func nmSymbols(c *Ctx, bin string) ([][2]any, error) {
	goBin := os.Getenv("GO_BIN")
	if goBin == "" {
		goBin = "go"
	}
	out, err := exec.Command(goBin, "tool", "nm", "-n", bin).Output()
	if err != nil {
		return nil, err
	}
	var syms [][2]any
	for _, ln := range strings.Split(string(out), "\n") {
		f := strings.Fields(ln)
		if len(f) < 3 || (f[1] != "T" && f[1] != "t") {
			continue
		}
		a, err := strconv.ParseUint(f[0], 16, 64)
		if err != nil {
			continue
		}
		syms = append(syms, [2]any{a, strings.Join(f[2:], " ")})
	}
	sort.Slice(syms, func(i, j int) bool { return syms[i][0].(uint64) < syms[j][0].(uint64) })
	return syms, nil
}

// runGDB runs the monitor over binary+args and returns its report. Any tooling failure => error (inconclusive).
func runGDB(c *Ctx, tag, mode, bin string, args []string, expected []string, timeout time.Duration, during func(gdbPid int)) (*gdbOut, error) {
	scratch := c.Env["VERIF_SCRATCH"]
	script := filepath.Join(c.Env["VERIF_ROOT"], "gdb", "ctmon.py")
	syms, err := nmSymbols(c, bin)
	if err != nil || len(syms) == 0 {
		return nil, fmt.Errorf("cannot list symbols of %s: %v", bin, err)
	}
	outPath := filepath.Join(scratch, "gdb-"+tag+".out.json")
	cfgPath := filepath.Join(scratch, "gdb-"+tag+".cfg.json")
	cfg := map[string]any{"binary": bin, "args": args, "out": outPath, "symbols": syms, "mode": mode, "expected_codes": expected,
		"counted_prefixes": ctCountedPrefixes, "excluded_exact": []string{"main.verifSettle", "main.verifSettle2"}, "counted_exact": ctCountedExact, "primitives": ctPrimitives,
		"env": map[string]string{"GODEBUG": "asyncpreemptoff=1", "GOGC": "off", "GOMAXPROCS": "1"}}
	if mode == "server" {
		cfg["env"] = map[string]string{"GODEBUG": "asyncpreemptoff=1"}
	}
	b, _ := json.Marshal(cfg)
	os.WriteFile(cfgPath, b, 0o644)
	ctx, cancel := context.WithTimeout(context.Background(), timeout)
	defer cancel()
	cmd := exec.CommandContext(ctx, "gdb", "-q", "-nx", "-batch", "-ex", "python CFG='"+cfgPath+"'", "-x", script)
	lf, _ := os.Create(filepath.Join(scratch, "gdb-"+tag+".log"))
	defer lf.Close()
	cmd.Stdout, cmd.Stderr = lf, lf
	cmd.SysProcAttr = &syscall.SysProcAttr{Setpgid: true}
	if err := cmd.Start(); err != nil {
		return nil, err
	}
	if during != nil {
		during(cmd.Process.Pid)
	}
	werr := cmd.Wait()
	if ctx.Err() != nil {
		syscall.Kill(-cmd.Process.Pid, syscall.SIGKILL)
		return nil, fmt.Errorf("gdb run exceeded its watchdog (%v)", timeout)
	}
	ob, rerr := os.ReadFile(outPath)
	if rerr != nil {
		return nil, fmt.Errorf("gdb wrote no report (%v)", werr)
	}
	var o gdbOut
	if err := json.Unmarshal(ob, &o); err != nil {
		return nil, err
	}
	return &o, nil
}

type ctCase struct {
	ID        int    `json:"id"`
	Target    string `json:"target"`
	Secret    string `json:"secret"`
	Submitted string `json:"submitted"`
	Expected  string `json:"expected"`
	Counter   uint64 `json:"counter"`
	Unix      int64  `json:"unix"`
	Period    uint   `json:"period"`
	Skew      uint   `json:"skew"`
	Digits    uint8  `json:"digits"`
	Algo      uint8  `json:"algo"`
	Suite     string `json:"suite"`
	Challenge string `json:"challenge_hex"`
	CounterB  string `json:"counter_hex"`
	Count     bool   `json:"count"`
	// wasm-native driver form
	Fn   string  `json:"fn,omitempty"`
	Args []jsArg `json:"args,omitempty"`
	// bookkeeping
	K      int    `json:"k"`      // position of the first wrong character
	Family string `json:"family"` // rest-equal | rest-different | accept | warmup
	Config string `json:"config"`
}

type ctConfig struct {
	Target string
	Digits int
	Skew   uint64
	Algo   int
	Wasm   bool
	// LeadingZeros > 0: the counter/instant is searched so that the expected code begins with that many '0'
	// (zero padding is derived from the HMAC output, so work that depends on it is secret-dependent too)
	LeadingZeros int
}

func (g ctConfig) String() string {
	w := ""
	if g.Wasm {
		w = "wasm-binding:"
	}
	z := ""
	if g.LeadingZeros > 0 {
		z = fmt.Sprintf("/expected-code-has-%d-leading-zeros", g.LeadingZeros)
	}
	return fmt.Sprintf("%s%s/digits=%d/window=%d/hash=%d%s", w, g.Target, g.Digits, g.Skew, g.Algo, z)
}

// buildCTCases builds, for one configuration, the wrong codes W_k whose first differing character is at k.
// families: with both==false only "rest-equal" (first k characters right, character k wrong, rest right) is
// generated for counting runs — the shape an early exit distinguishes; thorough adds "rest-different".
var ctBothFamilies = false

func buildCTCases(rng *gen.RNG, g ctConfig, count bool, id *int) []ctCase {
	key := rng.Bytes(20)
	sec := ref.Base32Encode(key)
	base := ctCase{Target: g.Target, Secret: sec, Digits: uint8(g.Digits), Algo: uint8(g.Algo), Skew: uint(g.Skew), Config: g.String()}
	var window map[string]uint64
	var E string
	switch g.Target {
	case "hotp":
		base.Counter = 1000 + uint64(rng.Intn(1000))
		for tries := 0; g.LeadingZeros > 0 && tries < 2000000 && !strings.HasPrefix(ref.HOTP(key, base.Counter, g.Digits, g.Algo), strings.Repeat("0", g.LeadingZeros)); tries++ {
			base.Counter++
		}
		window = ref.HOTPWindow(key, base.Counter, g.Skew, g.Digits, g.Algo)
		E = ref.HOTP(key, base.Counter, g.Digits, g.Algo)
	case "totp":
		base.Unix, base.Period = 1700000000+int64(rng.Intn(100000)), 30
		for tries := 0; g.LeadingZeros > 0 && tries < 2000000 && !strings.HasPrefix(ref.TOTP(key, base.Unix, 30, g.Digits, g.Algo), strings.Repeat("0", g.LeadingZeros)); tries++ {
			base.Unix += 30
		}
		st := ref.Step(base.Unix, 30)
		window = ref.HOTPWindow(key, st, g.Skew, g.Digits, g.Algo)
		E = ref.HOTP(key, st, g.Digits, g.Algo)
	case "ocra":
		name := fmt.Sprintf("OCRA-1:HOTP-%s-%d:C-QN08", algoName(g.Algo), g.Digits)
		m, _ := ref.ParseSuiteName(name)
		in := ref.Input{Counter: ref.BE8(uint64(rng.Intn(1000))), Challenge: []byte("12345678")}
		base.Suite, base.Challenge, base.CounterB = name, hexs(in.Challenge), hexs(in.Counter)
		E = ref.OCRA(key, m, in)
		window = map[string]uint64{E: 0}
	}
	var all []string
	for code := range window {
		all = append(all, code)
	}
	sort.Strings(all)
	base.Expected = strings.Join(all, ",")
	if g.Wasm {
		base.Fn = map[string]string{"hotp": "validateHOTP", "totp": "validateTOTP"}[g.Target]
	}
	mk := func(sub string, k int, fam string, cnt bool) ctCase {
		*id++
		x := base
		x.ID, x.Submitted, x.K, x.Family, x.Count = *id, sub, k, fam, cnt
		if g.Wasm {
			ds, as := fmt.Sprint(g.Digits), algoName(g.Algo)
			if g.Target == "hotp" {
				x.Args = []jsArg{sArg(sec), sArg(sub), nArg(float64(base.Counter)), sArg(ds), sArg(as), nArg(float64(g.Skew))}
			} else {
				x.Args = []jsArg{sArg(sec), sArg(sub), nArg(float64(base.Unix)), sArg(ds), sArg(as), nArg(float64(g.Skew)), nArg(30)}
			}
		}
		return x
	}
	n := len(E)
	var ws []ctCase
	for k := 0; k < n; k++ {
		for fam, f := range map[string]func(i int) byte{
			"rest-equal":     func(i int) byte { return E[i] },
			"rest-different": func(i int) byte { return '0' + (E[i]-'0'+3)%10 },
		} {
			if count && !ctBothFamilies && fam == "rest-different" {
				continue
			}
			b := []byte(E)
			b[k] = '0' + (E[k]-'0'+1+byte(rng.Intn(8)))%10
			for i := k + 1; i < n; i++ {
				b[i] = f(i)
			}
			if _, in := window[string(b)]; in {
				continue // a wrong code that happens to be a neighbour's code is accepted early, legitimately
			}
			ws = append(ws, mk(string(b), k, fam, count))
		}
	}
	// the same wrong codes written in other decimal digit scripts (UTF-8 multi-byte): a validator that understands
	// them must not do position-dependent work there either; counts are compared within each script
	if count && g.LeadingZeros == 0 && ((g.Digits == 9 && (g.Target == "hotp" || ctBothFamilies)) || (g.Digits == 7 && ctBothFamilies) || (g.Wasm && g.Digits == 6)) {
		for _, sc := range []struct {
			name string
			zero rune
		}{{"arabic-indic", 0x0660}, {"persian", 0x06F0}, {"fullwidth", 0xFF10}} {
			if sc.name == "fullwidth" && !ctBothFamilies {
				continue
			}
			for _, k := range []int{0, n / 2, n - 1} {
				b := []byte(E)
				b[k] = '0' + (E[k]-'0'+1+byte(rng.Intn(8)))%10
				if _, in := window[string(b)]; in {
					continue
				}
				var sb strings.Builder
				for _, ch := range b {
					sb.WriteRune(sc.zero + rune(ch-'0'))
				}
				ws = append(ws, mk(sb.String(), k, "script:"+sc.name, count))
			}
		}
	}
	sort.SliceStable(ws, func(i, j int) bool {
		if ws[i].Family != ws[j].Family {
			return ws[i].Family < ws[j].Family
		}
		return ws[i].K < ws[j].K
	})
	for i := range ws {
		*id++
		ws[i].ID = *id
	}
	var out []ctCase
	if count {
		// two discarded warm-up validations, forward pass, reverse pass
		out = append(out, mk(ws[0].Submitted, -1, "warmup", false), mk(ws[len(ws)-1].Submitted, -1, "warmup", false))
		out = append(out, ws...)
		for i := len(ws) - 1; i >= 0; i-- {
			*id++
			x := ws[i]
			x.ID = *id
			x.Family += "/reverse-pass"
			out = append(out, x)
		}
	} else {
		out = append(out, ws...)
		out = append(out, mk(E, -1, "accept", false))
	}
	return out
}

func judgeWatch(c *Ctx, cases []ctCase, o *gdbOut, where string) {
	r := c.R
	byID := map[int]ctCase{}
	for _, k := range cases {
		byID[k.ID] = k
	}
	for _, w := range o.Watch {
		k, ok := byID[w.ID]
		if !ok {
			continue
		}
		r.Eval(1)
		r.Count("validations_under_operand_watch", 1)
		r.Nontrivial("watch|" + where + "|" + k.Config + "|" + k.Submitted)
		if w.CTC > 0 {
			r.Count("constant_time_compares_seen_with(submitted,expected)", w.CTC)
		}
		for _, f := range w.Flagged {
			r.Violate("C09|"+where+"|early-exit-comparison|"+f.Primitive, "an early-exit comparison primitive is entered with the expected code as an operand while a wrong code of the right length is being rejected ("+f.Primitive+" called from "+f.Caller+")", "ct", k,
				"the expected code only reaches a constant-time equality", fmt.Sprintf("%s(%q, %q) called from %s", f.Primitive, f.A, f.B, f.Caller))
		}
		if k.Family == "accept" && !w.OK {
			r.Inconclusive("operand watch: the accept case of " + k.Config + " was rejected (driver/oracle mismatch)")
		}
		if r.WantSample() {
			r.Sample(map[string]any{"where": where, "config": k.Config, "submitted": k.Submitted, "window_codes": k.Expected, "first_wrong_position": k.K, "ctc_with(submitted,expected)": w.CTC, "flagged": len(w.Flagged)})
		}
	}
}

func judgeCounts(c *Ctx, cases []ctCase, o *gdbOut, where string) {
	r := c.R
	byID := map[int]ctCase{}
	for _, k := range cases {
		byID[k.ID] = k
	}
	type row struct {
		k     ctCase
		total int
		by    map[string]int
	}
	groups := map[string][]row{}
	for _, cnt := range o.Count {
		k, ok := byID[cnt.ID]
		if !ok {
			continue
		}
		class := "" // ASCII families are compared with each other; each other digit script within itself
		if f := strings.TrimSuffix(k.Family, "/reverse-pass"); strings.HasPrefix(f, "script:") {
			class = " [" + f + "]"
		}
		groups[k.Config+class] = append(groups[k.Config+class], row{k, cnt.Total, cnt.ByFunc})
		r.Eval(1)
		r.Count("validations_single_stepped", 1)
		r.Count("instructions_counted", cnt.Total)
		r.Nontrivial("count|" + where + "|" + k.Config + "|" + k.Family + "|" + k.Submitted)
	}
	for cfgName, rows := range groups {
		fwd := map[string]int{}
		rev := map[string]int{}
		for _, x := range rows {
			key := fmt.Sprintf("%s|%d", strings.TrimSuffix(x.k.Family, "/reverse-pass"), x.k.K)
			if strings.HasSuffix(x.k.Family, "/reverse-pass") {
				rev[key] = x.total
			} else {
				fwd[key] = x.total
			}
		}
		stable := len(fwd) > 0 && len(fwd) == len(rev)
		for k, v := range fwd {
			if rev[k] != v {
				stable = false
			}
		}
		if !stable {
			r.Inconclusive(fmt.Sprintf("instruction counts of %s (%s) are not reproducible between the forward and the reverse pass", cfgName, where))
			continue
		}
		distinct := map[int][]string{}
		for k, v := range fwd {
			distinct[v] = append(distinct[v], k)
		}
		var keys []string
		for k := range fwd {
			keys = append(keys, k)
		}
		sort.Strings(keys)
		var desc []string
		for _, k := range keys {
			desc = append(desc, fmt.Sprintf("%s:%d", k, fwd[k]))
		}
		r.Count("configurations_counted", 1)
		if len(distinct) > 1 {
			// name the function whose count varies
			varying := map[string]bool{}
			var first map[string]int
			for _, x := range rows {
				if first == nil {
					first = x.by
					continue
				}
				for fn, n := range x.by {
					if first[fn] != n {
						varying[fn] = true
					}
				}
				for fn, n := range first {
					if x.by[fn] != n {
						varying[fn] = true
					}
				}
			}
			var vf []string
			for fn := range varying {
				vf = append(vf, fn)
			}
			sort.Strings(vf)
			r.Violate("C09|"+where+"|position-dependent-work|"+strings.Join(vf, ","), "the number of instructions executed while rejecting a wrong code depends on the position of its first wrong character (reproducible in two passes); varying in: "+strings.Join(vf, ", "), "ct", rows[0].k,
				"identical instruction count for every position", strings.Join(desc, " "))
		} else if r.WantSample() {
			r.Sample(map[string]any{"where": where, "config": cfgName, "instruction_count_per_(family|first wrong position)": desc})
		}
	}
}

func writeCases(c *Ctx, tag string, cases any) string {
	p := filepath.Join(c.Env["VERIF_SCRATCH"], "ct-"+tag+".cases.json")
	b, _ := json.Marshal(cases)
	os.WriteFile(p, b, 0o644)
	return p
}

func runC09(c *Ctx) {
	r := c.R
	rng := c.RNG.Fork(9)
	if _, err := exec.LookPath("gdb"); err != nil {
		r.Inconclusive("gdb not found")
		return
	}
	drv := c.Env["VERIF_CTDRIVER_BIN"]
	if drv == "" {
		r.Inconclusive("ctdriver not provided by bin/check")
		return
	}
	id := 0
	// ---- (a) operand watch, native entry points
	var watch []ctCase
	for _, g := range []ctConfig{{"hotp", 6, 0, 0, false, 0}, {"hotp", 8, 2, 1, false, 0}, {"hotp", 10, 1, 2, false, 0}, {"totp", 6, 0, 0, false, 0}, {"totp", 9, 2, 1, false, 0}, {"ocra", 6, 0, 0, false, 0}, {"ocra", 10, 0, 2, false, 0}, {"ocra", 8, 0, 1, false, 0}, {"hotp", 6, 0, 0, false, 2}} {
		watch = append(watch, buildCTCases(rng, g, false, &id)...)
	}
	o, err := runGDB(c, "watch-native", "driver", drv, []string{writeCases(c, "watch-native", watch)}, nil, 5*time.Minute, nil)
	if err != nil {
		r.Inconclusive("operand watch (native): " + err.Error())
	} else {
		if len(o.Errors) > 0 {
			r.Inconclusive("operand watch (native) script errors: " + strings.Join(o.Errors, "; "))
		}
		r.Count("primitive_entries_inspected", o.PrimitiveHits)
		r.Extra["primitives_with_breakpoints"] = o.PrimitivesSet
		judgeWatch(c, watch, o, "native")
	}
	// ---- (b) instruction-count differential, native entry points
	// both rendering paths of the library (<= 8 digits / > 8 digits) are covered in quick
	// quick: every HOTP length from 6 to 10 (the common lengths and the one in between), one short length, both
	// rendering paths, a leading-zero code, one OCRA length outside {6,8,10}; thorough: every length of every target
	cfgs := []ctConfig{{Target: "hotp", Digits: 10, Skew: 1}, {Target: "hotp", Digits: 9}, {Target: "hotp", Digits: 8, Algo: 1}, {Target: "hotp", Digits: 7}, {Target: "hotp", Digits: 6, Algo: 2, LeadingZeros: 2},
		{Target: "totp", Digits: 4, Skew: 1}, {Target: "totp", Digits: 9, Algo: 1}, {Target: "ocra", Digits: 7}, {Target: "ocra", Digits: 6}}
	ctBothFamilies = c.Thorough
	if c.Thorough {
		cfgs = nil
		for d := 1; d <= 10; d++ {
			if d != 6 && d != 8 && d != 9 && d != 10 {
				cfgs = append(cfgs, ctConfig{Target: "hotp", Digits: d, Algo: d % 3})
				if d >= 4 {
					cfgs = append(cfgs, ctConfig{Target: "ocra", Digits: d, Algo: (d + 1) % 3})
				}
				if d%2 == 1 {
					cfgs = append(cfgs, ctConfig{Target: "totp", Digits: d, Skew: 1})
				}
			}
		}
		for _, t := range []string{"hotp", "totp", "ocra"} {
			for _, d := range []int{6, 8, 9, 10} {
				sk := uint64(0)
				if t != "ocra" && d%2 == 0 {
					sk = 2
				}
				cfgs = append(cfgs, ctConfig{t, d, sk, (d + len(t)) % 3, false, 0})
			}
		}
		cfgs = append(cfgs, ctConfig{"hotp", 8, 0, 0, false, 3}, ctConfig{"totp", 10, 0, 2, false, 2}, ctConfig{"hotp", 9, 1, 1, false, 1})
	}
	var cnt []ctCase
	for _, g := range cfgs {
		cnt = append(cnt, buildCTCases(rng, g, true, &id)...)
	}
	o, err = runGDB(c, "count-native", "driver", drv, []string{writeCases(c, "count-native", cnt)}, nil, 90*time.Minute, nil)
	if err != nil {
		r.Inconclusive("instruction-count differential (native): " + err.Error())
	} else {
		if len(o.Errors) > 0 {
			r.Inconclusive("instruction-count differential (native) script errors: " + strings.Join(o.Errors, "; "))
		}
		judgeCounts(c, cnt, o, "native")
	}
	// ---- wasm binding compiled natively: both monitors
	if wn := c.Env["VERIF_WASMNATIVE_NOINLINE_BIN"]; wn == "" {
		r.Inconclusive("wasm binding (native overlay build) not available: its validation path is not monitored in this run")
	} else {
		var ww []ctCase
		for _, g := range []ctConfig{{"hotp", 6, 2, 0, true, 0}, {"totp", 10, 1, 2, true, 0}, {"hotp", 9, 0, 1, true, 0}} {
			ww = append(ww, buildCTCases(rng, g, false, &id)...)
		}
		wc := buildCTCases(rng, ctConfig{"hotp", 6, 1, 0, true, 0}, true, &id)
		wc = append(wc, buildCTCases(rng, ctConfig{"hotp", 6, 0, 1, true, 2}, true, &id)...)
		if c.Thorough {
			wc = append(wc, buildCTCases(rng, ctConfig{"totp", 10, 0, 2, true, 0}, true, &id)...)
			wc = append(wc, buildCTCases(rng, ctConfig{"hotp", 8, 0, 1, true, 0}, true, &id)...)
			wc = append(wc, buildCTCases(rng, ctConfig{"totp", 9, 0, 0, true, 3}, true, &id)...)
		}
		all := append(append([]ctCase{}, ww...), wc...)
		outp := filepath.Join(c.Env["VERIF_SCRATCH"], "ct-wasm.res.json")
		o, err := runGDB(c, "wasm-native", "driver", wn, []string{writeCases(c, "wasm-native", all), outp}, nil, 45*time.Minute, nil)
		if err != nil {
			r.Inconclusive("wasm binding monitors: " + err.Error())
		} else {
			if len(o.Errors) > 0 {
				r.Inconclusive("wasm binding monitors script errors: " + strings.Join(o.Errors, "; "))
			}
			judgeWatch(c, ww, o, "wasm-binding(native build)")
			judgeCounts(c, wc, o, "wasm-binding(native build)")
		}
	}
	// ---- REST server under operand watch
	c09Server(c, rng)
	if r.Counter("validations_under_operand_watch") == 0 && r.Counter("validations_single_stepped") == 0 {
		r.Inconclusive("no validation was observed by either monitor")
	}
}

func c09Server(c *Ctx, rng *gen.RNG) {
	r := c.R
	bin := c.Env["VERIF_SERVER_NOINLINE_BIN"]
	if bin == "" {
		r.Inconclusive("REST server (no-inline build) not available: REST validation path not monitored")
		return
	}
	port, err := freePort()
	if err != nil {
		r.Inconclusive("REST operand watch: no free port")
		return
	}
	addr := fmt.Sprintf("127.0.0.1:%d", port)
	type req struct {
		path, body string
		exp        []string
	}
	var reqs []req
	var allExp []string
	for i := 0; i < 12; i++ {
		key := rng.Bytes(20)
		sec := ref.Base32Encode(key)
		d := []int{6, 8, 10}[i%3]
		wrong := func(E string, w map[string]uint64) string {
			for t := 0; t < 50; t++ {
				b := []byte(E)
				b[len(b)-1] = '0' + (b[len(b)-1]-'0'+1+byte(t))%10
				if _, in := w[string(b)]; !in {
					return string(b)
				}
			}
			return ""
		}
		switch i % 3 {
		case 0:
			w := ref.HOTPWindow(key, 77, 1, d, 0)
			q := req{path: "/hotp/validate", body: fmt.Sprintf(`{"secret":%q,"code":%q,"counter":77,"digits":"%d","skew":1}`, sec, wrong(ref.HOTP(key, 77, d, 0), w), d)}
			for code := range w {
				q.exp = append(q.exp, code)
			}
			reqs = append(reqs, q)
		case 1:
			w := ref.HOTPWindow(key, ref.Step(1700000000, 30), 1, d, 0)
			q := req{path: "/totp/validate", body: fmt.Sprintf(`{"secret":%q,"code":%q,"timestamp":1700000000,"period":30,"digits":"%d","skew":1}`, sec, wrong(ref.TOTP(key, 1700000000, 30, d, 0), w), d)}
			for code := range w {
				q.exp = append(q.exp, code)
			}
			reqs = append(reqs, q)
		default:
			m, _ := ref.ParseSuiteName("OCRA-1:HOTP-SHA1-6:QN08")
			E := ref.OCRA(key, m, ref.Input{Challenge: []byte("12345678")})
			reqs = append(reqs, req{path: "/ocra/validate", body: fmt.Sprintf(`{"secret":%q,"code":%q,"raw_suite":"OCRA-1:HOTP-SHA1-6:QN08","input":{"challenge_hex":"3132333435363738"}}`, sec, wrong(E, map[string]uint64{E: 0})), exp: []string{E}})
		}
	}
	for _, q := range reqs {
		allExp = append(allExp, q.exp...)
	}
	answered := 0
	o, err := runGDB(c, "server", "server", bin, []string{"-serve", addr}, allExp, 4*time.Minute, func(gdbPid int) {
		s := &server{addr: addr}
		s.client = newPlainClient()
		up := false
		for i := 0; i < 300; i++ {
			res := s.do("GET", "/", nil, false, 2*time.Second)
			if res.Err == nil {
				up = true
				break
			}
			time.Sleep(100 * time.Millisecond)
		}
		if up {
			for _, q := range reqs {
				res := s.do("POST", q.path, []byte(q.body), false, 60*time.Second)
				if res.Err == nil && res.Status == 200 && strings.Contains(string(res.Body), `"valid":false`) {
					answered++
				}
			}
		}
		// terminate the server (the inferior): it is the child of gdb
		if kids, err := os.ReadFile(fmt.Sprintf("/proc/%d/task/%d/children", gdbPid, gdbPid)); err == nil {
			for _, f := range strings.Fields(string(kids)) {
				if pid, e := strconv.Atoi(f); e == nil {
					syscall.Kill(pid, syscall.SIGTERM)
				}
			}
		}
	})
	if err != nil {
		r.Inconclusive("REST operand watch: " + err.Error())
		return
	}
	if answered == 0 {
		r.Inconclusive("REST operand watch: the server under gdb answered no validation request")
		return
	}
	r.Eval(answered)
	r.Count("rest_validations_under_operand_watch", answered)
	r.Count("rest_primitive_entries_inspected", o.PrimitiveHits)
	r.Count("rest_constant_time_compares_with_an_expected_code", o.ServerCTC)
	r.Nontrivial(fmt.Sprintf("rest-watch|%d", answered))
	for _, f := range o.ServerFlagged {
		r.Violate("C09|rest|early-exit-comparison|"+f.Primitive, "inside the REST server an early-exit comparison primitive is entered with an expected code as an operand ("+f.Primitive+" called from "+f.Caller+")", "none", f,
			"the expected code only reaches a constant-time equality", fmt.Sprintf("%s(%q, %q) called from %s", f.Primitive, f.A, f.B, f.Caller))
	}
}

func init() {
	register(&Prop{
		ID: "C09",
		Rule: "a marked driver (no-inline build) performs rejecting validations of wrong codes of the right length whose first wrong character is at every position k (two families: rest equal to the expected code / rest different; codes that fall into the acceptance window are skipped) through ValidateHOTP/TOTP/OCRA, through the wasm binding's handlers compiled natively, and through the REST validate endpoints of the real server; gdb monitors (a) every entry into an early-exit comparison primitive (memequal, cmpstring, strequal, bytealg.Compare/Index, HasPrefix, EqualFold, …) for an operand equal to a code of the acceptance window and (b) single-steps each validation and counts instructions in the module, crypto/subtle, bytes/strings/bytealg/strconv and the runtime comparison primitives: the count must be identical for every k (measured forward and in reverse after two warm-ups); " +
			"distinct_nontrivial counts distinct (place, configuration, submitted code) validations observed by a monitor",
		Run: runC09,
	})
}
