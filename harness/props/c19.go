package props

import (
	"encoding/json"
	"fmt"
	"net"
	"net/http"
	"os"
	"path/filepath"
	"strings"
	"time"

	"verifh/gen"
	"verifh/ref"
)

// ---- C19: the REST service answers every request promptly and keeps serving ----

type hostileReq struct {
	Method string `json:"method"`
	Path   string `json:"path"`
	Body   string `json:"body_hex"` // hex (bodies may be arbitrary bytes); "" = no body
	BodyN  int    `json:"body_len"`
	Note   string `json:"note"`
}

var apiPaths = []string{"/totp/generate", "/totp/validate", "/hotp/generate", "/hotp/validate", "/ocra/generate", "/ocra/validate", "/ocra/suites", "/ocra/suite", "/otp/url", "/otp/secret", "/"}

// successSchemaOK: a 2xx answer of an API path must be the endpoint's success object, never an error body or an empty body.
func successSchemaOK(path string, body []byte) (bool, string) {
	p := path
	if i := strings.IndexByte(p, '?'); i >= 0 {
		p = p[:i]
	}
	m, err := decodeJSON(body)
	if err != nil {
		return false, "2xx with a body that is not a JSON object"
	}
	has := func(k string) bool { _, ok := m[k]; return ok }
	if has("message") && !has("app") {
		return false, "2xx with an error body"
	}
	switch p {
	case "/totp/generate", "/hotp/generate", "/ocra/generate":
		s, _ := m["code"].(string)
		if s == "" {
			return false, "2xx without a code"
		}
	case "/totp/validate", "/hotp/validate", "/ocra/validate":
		if _, ok := m["valid"].(bool); !ok {
			return false, "2xx without a boolean verdict"
		}
	case "/ocra/suites":
		if _, ok := m["suites"].([]any); !ok {
			return false, "2xx without a suite list"
		}
	case "/ocra/suite":
		if _, ok := m["config"].(map[string]any); !ok {
			return false, "2xx without a suite description"
		}
	case "/otp/url":
		s, _ := m["url"].(string)
		if !strings.HasPrefix(s, "otpauth://") {
			return false, "2xx without an otpauth URL"
		}
	case "/otp/secret":
		s, _ := m["secret"].(string)
		if s == "" {
			return false, "2xx without a secret"
		}
	case "/":
		if !has("status") {
			return false, "2xx without the home object"
		}
	}
	return true, ""
}

func hostileBodies(rng *gen.RNG) []string {
	// every optional field carries a NON-default value, so that anything a rejected request leaves behind in
	// server-side state is visible in a following request that omits the field
	valid := `{"secret":"GEZDGNBVGY3TQOJQGEZDGNBVGY3TQOJQ","code":"123456","counter":7,"timestamp":1700000000,"digits":"8","period":45,"skew":3,"algorithm":"SHA512","raw_suite":"OCRA-1:HOTP-SHA1-6:QN08","input":{"challenge_hex":"3132333435363738"},"type":"totp","issuer":"i","account_name":"a"}`
	out := []string{"", "{", "}", "null", "[]", `"str"`, "123", "{}", "{\"secret\":", valid[:len(valid)/2], valid + valid, valid + "garbage", "\x00\x01\x02\xff\xfe", "<xml/>", "secret=abc&code=1",
		`{"secret":"A","secret":"B","secret":1}`, strings.Repeat("[", 20000), strings.Repeat(`{"a":`, 12000), `{"secret":"` + strings.Repeat("A", 1<<20-64) + `"}`,
		strings.Repeat(" ", 1<<20+10), `{"secret":"` + strings.Repeat("A", 1<<20+100) + `"}`, "\xef\xbb\xbf" + valid, `{"SECRET":"GEZDGNBVGY3TQOJQ","Code":"1"}`}
	fields := []string{"secret", "code", "counter", "timestamp", "digits", "period", "skew", "algorithm", "raw_suite", "suite", "input", "type", "issuer", "account_name"}
	values := []string{"null", "true", "false", "0", "1", "-1", "1.5", "1e400", "-1e400", "9223372036854775807", "9223372036854775808", "18446744073709551615", "18446744073709551616", "1e19", `""`, `" "`, `"str"`, `"\u0000"`, "{}", "[]", `{"a":1}`, "[1,2]", `"` + strings.Repeat("9", 400) + `"`}
	for _, f := range fields {
		for _, v := range values {
			var m map[string]json.RawMessage
			json.Unmarshal([]byte(valid), &m)
			m[f] = json.RawMessage(v)
			b, _ := json.Marshal(m)
			out = append(out, string(b))
		}
	}
	// numeric extremes forwarded to loops / divisions
	for _, skew := range []string{"11", "12", "100", "10000", "10000000", "4294967296", "9223372036854775807", "9223372036854775808", "18446744073709551615"} {
		for _, extra := range []string{`"timestamp":59`, `"timestamp":1700000000,"period":1`, `"counter":0`, `"counter":18446744073709551615`, `"period":18446744073709551615`} {
			out = append(out, `{"secret":"GEZDGNBVGY3TQOJQGEZDGNBVGY3TQOJQ","code":"000001","skew":`+skew+`,`+extra+`}`)
		}
	}
	// OCRA: unknown and contradictory suites, weird structured values, bad hex
	sfx := `,"secret":"GEZDGNBVGY3TQOJQGEZDGNBVGY3TQOJQ","code":"123456"}`
	for _, s := range []string{
		`{"raw_suite":"OCRA-1:HOTP-SHA1-6:QN99","input":{}`, `{"raw_suite":"nope","input":{}`, `{"raw_suite":" ","input":{}`, `{"raw_suite":"OCRA-1:HOTP-SHA1-6:QN08"`,
		`{"raw_suite":"OCRA-1:HOTP-SHA1-6:QN08","suite":{"hash_function":"SHA512","code_digits":8},"input":{"challenge_hex":"3132333435363738"}`,
		`{"raw_suite":"OCRA-1:HOTP-SHA1-6:QN08","suite":{"code_digits":0},"input":{"challenge_hex":"3132333435363738"}`,
		`{"raw_suite":" ","suite":{"hash_function":"SHA1","code_digits":6,"include_counter":true},"input":{"counter_hex":"0000000000000001"}`,
		`{"raw_suite":"\t","suite":{"hash_function":"SHA1","code_digits":6,"challenge_format":1,"include_challenge":true},"input":{"challenge_hex":"3132333435363738"}`,
		`{"raw_suite":"  ","suite":{"code_digits":3},"input":{}`,
		`{"raw_suite":"\n","suite":{},"input":null`,
		`{"raw_suite":"nope","suite":{"hash_function":"SHA1","code_digits":6,"include_counter":true},"input":{"counter_hex":"0000000000000001"}`,
		`{"suite":{},"input":{}`, `{"suite":null,"input":{}`, `{"suite":{"code_digits":0},"input":{}`, `{"suite":{"code_digits":-1},"input":{}`, `{"suite":{"code_digits":11},"input":{}`,
		`{"suite":{"code_digits":9223372036854775807,"hash_function":"x"},"input":{}`, `{"suite":{"code_digits":6,"challenge_format":99,"include_challenge":true},"input":{"challenge_hex":"00"}`,
		`{"suite":{"code_digits":6,"challenge_format":-5,"include_challenge":true},"input":{"challenge_hex":"3132333435363738"}`,
		`{"suite":{"code_digits":6,"include_password":true,"password_hash":99},"input":{"password_hex":"00"}`, `{"suite":{"code_digits":6,"include_password":true,"password_hash":-1},"input":{}`,
		`{"suite":{"code_digits":6,"include_timestamp":true,"timestep":-1},"input":{"timestamp_hex":"0000000000000001"}`,
		`{"suite":{"code_digits":6,"include_counter":true},"input":{"counter_hex":"zz"}`, `{"suite":{"code_digits":6,"include_counter":true},"input":{"counter_hex":"0"}`,
		`{"suite":{"code_digits":6,"include_counter":true},"input":null`, `{"suite":{"code_digits":6,"include_counter":true},"input":{"counter_hex":"` + strings.Repeat("00", 300000) + `"}`,
		`{"suite":{"code_digits":6,"include_session":true},"input":{"session_info_hex":"` + strings.Repeat("ab", 129) + `"}`,
		`{"suite":{"code_digits":10,"hash_function":"SHA512","include_counter":true,"include_challenge":true,"challenge_format":1,"include_password":true,"password_hash":3,"include_session":true,"include_timestamp":true,"timestep":1},"input":{}`,
	} {
		out = append(out, s+sfx)
	}
	for i := 0; i < 40; i++ {
		out = append(out, string(rng.Bytes(rng.Intn(300))))
	}
	// fields that are echoed in error bodies, at sizes around buffer thresholds (4 KiB, 8 KiB, 64 KiB)
	for _, n := range []int{3000, 4090, 4100, 8200, 20000, 70000} {
		big := strings.Repeat("OCRA-1:HOTP-SHA1-6:QN08-", n/24)
		out = append(out, `{"secret":"GEZDGNBVGY3TQOJQGEZDGNBVGY3TQOJQ","code":"123456","raw_suite":"`+big+`","input":{}}`,
			`{"secret":"GEZDGNBVGY3TQOJQ","issuer":"i","account_name":"a","type":"`+big+`"}`,
			`{"raw_suite":"`+big+`"}`)
	}
	// very long string fields in every character class (what is cheap for one class of characters need not be for another):
	// lower-case / mixed-case / upper-case letters, digits, padding, blanks, percent signs, non-ASCII letters, hex
	classes := []string{"a", "aB", "A", "7", "=", " ", "%", "\u00e9", "ab12", "MZXW6YTB", "k\u212a"}
	for _, field := range []string{"secret", "code", "raw_suite", "issuer"} {
		for ci, cl := range classes {
			for _, size := range []int{200 << 10, 900 << 10} {
				if (ci+len(field))%2 == 0 && size > 300<<10 {
					continue // half of the classes at the larger size only
				}
				big := strings.Repeat(cl, size/len(cl))
				m := map[string]any{"secret": "GEZDGNBVGY3TQOJQGEZDGNBVGY3TQOJQ", "code": "123456", "counter": 7, "timestamp": 1700000000, "raw_suite": "OCRA-1:HOTP-SHA1-6:QN08",
					"input": map[string]any{"challenge_hex": "3132333435363738"}, "issuer": "i", "account_name": "a", "type": "totp"}
				m[field] = big
				b, _ := json.Marshal(m)
				out = append(out, string(b))
			}
		}
	}
	return out
}

func c19Requests(c *Ctx, n int) []hostileReq {
	rng := c.RNG.Fork(19)
	bodies := hostileBodies(rng)
	methods := []string{"GET", "POST", "PUT", "DELETE", "PATCH", "HEAD", "OPTIONS", "POST", "POST", "POST"}
	paths := append([]string{}, apiPaths...)
	paths = append(paths, "/nope", "/totp", "/totp/generate/", "//", "/%2e%2e/etc/passwd", "/TOTP/GENERATE", "/docs", "/docs/index.html", "/docs/doc.json", "/docs/../x", "/"+strings.Repeat("a", 4000), "/otp/secret?algorithm=SHA512&algorithm=x", "/otp/secret?algorithm=%zz", "/otp/secret?"+strings.Repeat("a=b&", 500), "/ocra/suites?x=1")
	var out []hostileReq
	// every body against every POST endpoint once (in seeded order), then random mixing
	for _, p := range apiPaths[:6] {
		for _, b := range bodies {
			out = append(out, hostileReq{Method: "POST", Path: p, Body: hs(b), BodyN: len(b), Note: "catalogue"})
		}
	}
	for _, m := range methods[:7] {
		for _, p := range paths {
			out = append(out, hostileReq{Method: m, Path: p, Body: "", Note: "method x path"})
			out = append(out, hostileReq{Method: m, Path: p, Body: hs(bodies[rng.Intn(len(bodies))]), Note: "method x path"})
		}
	}
	for len(out) < n {
		b := gen.Pick(rng, bodies)
		out = append(out, hostileReq{Method: gen.Pick(rng, methods), Path: gen.Pick(rng, paths), Body: hs(b), BodyN: len(b), Note: "random"})
	}
	// seeded shuffle
	for i := len(out) - 1; i > 0; i-- {
		j := rng.Intn(i + 1)
		out[i], out[j] = out[j], out[i]
	}
	if len(out) > n {
		// keep the complete catalogue in thorough; in quick keep a seeded prefix
		out = out[:n]
	}
	return out
}

// judgeHostile issues one hostile request. cpu=true (sequential phase) attributes server CPU time to it.
func judgeHostile(c *Ctx, srv *server, k hostileReq, cpu bool) (needRestart bool) {
	r := c.R
	var body []byte
	if k.Body != "" {
		body = unhex(k.Body)
	}
	k.BodyN = len(body)
	var t0 int64
	var okT bool
	if cpu {
		t0, okT = srv.cpuTicks()
	}
	res := srv.do(k.Method, k.Path, body, false, 30*time.Second)
	r.Eval(1)
	r.Count("hostile_requests", 1)
	r.Nontrivial(k.Method + " " + k.Path + " " + k.Body)
	v := func(cls, what, exp, obs string) {
		r.Violate("C19|"+pathClass(k.Path)+"|"+cls+"|", what, "hostile", k, exp, obs)
	}
	var burned float64
	if cpu && okT {
		if t1, ok := srv.cpuTicks(); ok {
			burned = float64(t1-t0) / 100.0
			if burned > 2.0 {
				v("unbounded-work", fmt.Sprintf("a single request consumed %.1f CPU-seconds of server time (work unbounded in a request parameter)", burned), "<= 2 CPU-seconds", fmt.Sprintf("%.1f CPU-seconds", burned))
			}
		}
	}
	if res.Err != nil {
		if !srv.alive() {
			v("server-died", "the server process exited while handling a request", "a response", res.Err.Error())
			return true
		}
		if strings.Contains(res.Err.Error(), "deadline exceeded") || strings.Contains(res.Err.Error(), "Timeout") {
			if cpu && burned > 10 {
				v("no-response", "no response within 30 s while the server burned CPU (hang on a request parameter)", "a response", fmt.Sprintf("timeout, %.1f CPU-seconds", burned))
			} else if cpu {
				r.Inconclusive("a request got no answer within 30 s but the server was idle (not attributed): " + k.Method + " " + clipS(k.Path))
			} else {
				r.Inconclusive("a request of the concurrent phase timed out (CPU not attributable): " + k.Method + " " + clipS(k.Path))
			}
			return true
		}
		// bodies above the 1 MiB limit: the server answers 413 and closes while the client is still writing — a reset is legitimate there
		if k.BodyN > 1<<20 {
			r.Count("oversized_body_resets", 1)
			return false
		}
		// likewise a request head beyond the server's 8 KiB read buffer: it is refused (500) and the connection closed
		// with the rest of the head unread, which can reset the connection before the client has read the refusal
		if len(k.Path) > 7900 {
			r.Count("oversized_head_resets", 1)
			return false
		}
		v("incomplete-response", "the request did not receive a complete HTTP response", "status line + headers + Content-Length-consistent body", res.Err.Error())
		return false
	}
	r.Count(fmt.Sprintf("status_%dxx", res.Status/100), 1)
	isAPI := false
	p := k.Path
	if i := strings.IndexByte(p, '?'); i >= 0 {
		p = p[:i]
	}
	for _, ap := range apiPaths {
		if p == ap {
			isAPI = true
		}
	}
	if isAPI && res.Status >= 200 && res.Status < 300 && k.Method != "HEAD" {
		if ok, why := successSchemaOK(k.Path, res.Body); !ok {
			v("status-does-not-distinguish", "a 2xx response does not carry the endpoint's success object: "+why, "2xx + success object, or 4xx/5xx", fmt.Sprintf("%d %s", res.Status, clipS(string(res.Body))))
		}
	}
	if res.Status < 100 || res.Status > 599 {
		v("bad-status", "invalid status code", "1xx..5xx", fmt.Sprint(res.Status))
	}
	if r.WantSample() {
		r.Sample(map[string]any{"request": map[string]any{"method": k.Method, "path": clipS(k.Path), "body": clipS(string(body))}, "status": res.Status, "response": clipS(string(res.Body)), "server_cpu_s": burned})
	}
	return false
}

func pathClass(p string) string {
	if i := strings.IndexByte(p, '?'); i >= 0 {
		p = p[:i]
	}
	for _, ap := range apiPaths {
		if p == ap {
			return p
		}
	}
	return "other-path"
}

// functional form of the bounded-work clause + huge skews must be answered
func c19SkewProbes(c *Ctx, srv *server) *server {
	key := []byte("12345678901234567890")
	sec := ref.Base32Encode(key)
	type probe struct {
		ep   string
		body string
		note string
	}
	var ps []probe
	ps = append(ps, probe{"/totp/validate", fmt.Sprintf(`{"secret":%q,"code":%q,"timestamp":1700000000,"period":30,"skew":11}`, sec, ref.TOTP(key, 1700000000+11*30, 30, 6, 0)), "skew 11, code of step +11"})
	ps = append(ps, probe{"/hotp/validate", fmt.Sprintf(`{"secret":%q,"code":%q,"counter":100,"skew":11}`, sec, ref.HOTP(key, 111, 6, 0)), "window 11, code of counter +11"})
	ps = append(ps, probe{"/totp/validate", fmt.Sprintf(`{"secret":%q,"code":%q,"timestamp":1700000000,"period":30,"skew":12}`, sec, ref.TOTP(key, 1700000000, 30, 6, 0)), "skew 12, code of step +0"})
	for _, skew := range []string{"10000000", "9223372036854775807", "18446744073709551615"} {
		ps = append(ps, probe{"/totp/validate", fmt.Sprintf(`{"secret":%q,"code":"000001","timestamp":59,"skew":%s}`, sec, skew), "huge skew " + skew})
		ps = append(ps, probe{"/hotp/validate", fmt.Sprintf(`{"secret":%q,"code":"000001","counter":7,"skew":%s}`, sec, skew), "huge window " + skew})
	}
	for _, p := range ps {
		k := hostileReq{Method: "POST", Path: p.ep, Body: hs(p.body), BodyN: len(p.body), Note: p.note}
		t0, _ := srv.cpuTicks()
		res := srv.do("POST", p.ep, []byte(p.body), false, 30*time.Second)
		t1, _ := srv.cpuTicks()
		burned := float64(t1-t0) / 100
		c.R.Eval(1)
		c.R.Count("skew_probes", 1)
		c.R.Nontrivial("skewprobe|" + p.body)
		restart := false
		switch {
		case res.Err != nil && burned > 10:
			c.R.Violate("C19|"+p.ep+"|no-response|", "no response within 30 s while the server burned CPU: "+p.note, "hostile", k, "a response", fmt.Sprintf("%v, %.1f CPU-seconds", res.Err, burned))
			restart = true
		case res.Err != nil:
			c.R.Inconclusive("skew probe got no answer with an idle server: " + p.note)
			restart = true
		case burned > 2:
			c.R.Violate("C19|"+p.ep+"|unbounded-work|", fmt.Sprintf("a single request consumed %.1f CPU-seconds of server time: %s", burned, p.note), "hostile", k, "<= 2 CPU-seconds", fmt.Sprintf("%.1f CPU-seconds", burned))
		default:
			m, _ := decodeJSON(res.Body)
			if ok, _ := m["valid"].(bool); ok && res.Status == 200 {
				c.R.Violate("C19|"+p.ep+"|refused-skew-accepted|", "a skew/window above 10 is not refused: "+p.note, "hostile", k, "valid:false or an error status", clipS(string(res.Body)))
			}
		}
		if restart {
			srv.stop()
			ns, err := startServer(c, "VERIF_SERVER_BIN")
			if err != nil {
				c.R.Inconclusive("server could not be restarted: " + err.Error())
				return nil
			}
			srv = ns
		}
	}
	return srv
}

func c19RawTCP(c *Ctx, srv *server) {
	payloads := []string{
		"POST /totp/generate HTTP/1.1\r\nHost: x\r\nContent-Length: 100\r\n\r\n{\"secret\":",
		"POST /totp/gen",
		"GET / HTTP/1.1\r\n",
		"POST /hotp/validate HTTP/1.1\r\nHost: x\r\nContent-Length: 5\r\n\r\n{}",
		"GARBAGE\r\n\r\n",
		"POST /ocra/generate HTTP/1.1\r\nHost: x\r\nTransfer-Encoding: chunked\r\n\r\nffff\r\n{",
		"GET / HTTP/9.9\r\n\r\n",
		strings.Repeat("A", 20000),
	}
	for _, p := range payloads {
		conn, err := net.DialTimeout("tcp", srv.addr, 3*time.Second)
		if err != nil {
			continue
		}
		conn.Write([]byte(p))
		conn.SetReadDeadline(time.Now().Add(200 * time.Millisecond))
		buf := make([]byte, 512)
		conn.Read(buf)
		conn.Close()
		c.R.Count("raw_tcp_fragments", 1)
		c.R.Eval(1)
	}
}

// c19RejectedThenMinimal: for every POST endpoint and every field, a request that is rejected because that one
// field has the wrong JSON type (all other fields well-typed, with non-default values) is immediately followed by
// well-formed minimal requests that omit every optional field; those must be answered from their own fields only.
func c19RejectedThenMinimal(c *Ctx, srv *server) {
	rng := c.RNG.Fork(191)
	key := []byte("12345678901234567890")
	sec := ref.Base32Encode(key)
	full := map[string]string{
		"secret": `"` + sec + `"`, "code": `"123456"`, "counter": "7", "timestamp": "1700000000", "digits": `"8"`, "period": "45", "skew": "3", "algorithm": `"SHA512"`,
		"raw_suite": `"OCRA-1:HOTP-SHA512-8:C-QH10"`, "input": `{"counter_hex":"0000000000000009","challenge_hex":"31323334353637383930"}`,
		"suite": `{"hash_function":"SHA256","code_digits":9,"challenge_format":2,"include_counter":true,"include_challenge":true}`,
		"type":  `"hotp"`, "issuer": `"Poison Issuer"`, "account_name": `"poison@example.com"`,
	}
	fieldsOf := map[string][]string{
		"totp/generate": {"secret", "timestamp", "digits", "period", "algorithm"},
		"totp/validate": {"secret", "code", "timestamp", "digits", "period", "skew", "algorithm"},
		"hotp/generate": {"secret", "counter", "digits", "algorithm"},
		"hotp/validate": {"secret", "code", "counter", "digits", "skew", "algorithm"},
		"otp/url":       {"type", "secret", "issuer", "account_name", "period", "digits", "algorithm"},
		"ocra/generate": {"secret", "raw_suite", "input"},
		"ocra/validate": {"secret", "code", "raw_suite", "input"},
	}
	wrong := []string{"1", `"x"`, "true", "{}", "[]", "1.5", "-1"}
	minimal := func(ep string) []restCase {
		switch ep {
		case "totp/generate":
			return []restCase{{EP: ep, Method: "POST", F: map[string]any{"secret": sec, "timestamp": uint64(1700000123)}, KeyHex: hexs(key)}}
		case "hotp/generate":
			return []restCase{{EP: ep, Method: "POST", F: map[string]any{"secret": sec}, KeyHex: hexs(key)}}
		case "hotp/validate":
			return []restCase{{EP: ep, Method: "POST", F: map[string]any{"secret": sec, "code": ref.HOTP(key, 0, 6, 0)}, KeyHex: hexs(key), Note: "minimal request, own counter"},
				{EP: ep, Method: "POST", F: map[string]any{"secret": sec, "code": ref.HOTP(key, 1, 6, 0)}, KeyHex: hexs(key), Note: "minimal request, code of counter +1 with no window"},
				{EP: ep, Method: "POST", F: map[string]any{"secret": sec, "code": ref.HOTP(key, 7, 6, 0)}, KeyHex: hexs(key), Note: "minimal request, code of counter 7"}}
		case "totp/validate":
			return []restCase{{EP: ep, Method: "POST", F: map[string]any{"secret": sec, "timestamp": uint64(1700000123), "code": ref.TOTP(key, 1700000123, 30, 6, 0)}, KeyHex: hexs(key), Note: "minimal request, own step"},
				{EP: ep, Method: "POST", F: map[string]any{"secret": sec, "timestamp": uint64(1700000123), "code": ref.TOTP(key, 1700000123+30, 30, 6, 0)}, KeyHex: hexs(key), Note: "minimal request, code of step +1 with no skew"}}
		case "otp/url":
			return []restCase{{EP: ep, Method: "POST", F: map[string]any{"secret": sec, "type": "totp", "issuer": "I", "account_name": "a"}}}
		case "ocra/generate":
			return []restCase{{EP: ep, Method: "POST", F: map[string]any{"secret": sec, "raw_suite": "OCRA-1:HOTP-SHA1-6:QN08", "input": map[string]any{"challenge_hex": "3132333435363738"}}, KeyHex: hexs(key)}}
		case "ocra/validate":
			m, _ := ref.ParseSuiteName("OCRA-1:HOTP-SHA1-6:QN08")
			return []restCase{{EP: ep, Method: "POST", F: map[string]any{"secret": sec, "raw_suite": "OCRA-1:HOTP-SHA1-6:QN08", "code": ref.OCRA(key, m, ref.Input{Challenge: []byte("12345678")}), "input": map[string]any{"challenge_hex": "3132333435363738"}}, KeyHex: hexs(key), Note: "the generated code"}}
		}
		return nil
	}
	for rep := 0; rep < c.N(3, 12); rep++ {
		for ep, fs := range fieldsOf {
			for _, bad := range fs {
				var parts []string
				for _, f := range fs {
					v := full[f]
					if f == bad {
						v = gen.Pick(rng, wrong)
						if v == full[f] || (strings.HasPrefix(full[f], `"`) && strings.HasPrefix(v, `"`)) {
							v = "[1]"
						}
					}
					parts = append(parts, `"`+f+`":`+v)
				}
				if ep == "ocra/generate" || ep == "ocra/validate" {
					if rng.Bool() {
						parts = append(parts, `"suite":`+full["suite"])
					}
				}
				body := "{" + strings.Join(parts, ",") + "}"
				judgeHostile(c, srv, hostileReq{Method: "POST", Path: "/" + ep, Body: hs(body), Note: "rejected-then-minimal: wrong type for " + bad}, false)
				for _, m := range minimal(ep) {
					judgeREST(c, srv, m)
					c.R.Count("minimal_requests_after_a_rejected_one", 1)
				}
			}
		}
	}
}

func c19Soak(c *Ctx, srv *server, seq []hostileReq, probe func()) {
	pad := strings.Repeat("x", 1<<20-4096)
	type cls struct {
		path   string
		status int
		msg    string // the error message (or the first bytes of a non-JSON body): distinguishes error paths with the same status
	}
	seen := map[cls]bool{}
	var reps []hostileReq
	for _, k := range seq {
		if k.Method != "POST" || k.Body == "" || len(k.Body) > 4000 {
			continue
		}
		b := strings.TrimSpace(string(unhex(k.Body)))
		if !strings.HasPrefix(b, "{") || !strings.HasSuffix(b, "}") || len(b) < 3 {
			continue
		}
		res := srv.do("POST", k.Path, []byte(b), false, 30*time.Second)
		if res.Err != nil || res.Status < 400 {
			continue
		}
		msg := string(res.Body)
		if m, err := decodeJSON(res.Body); err == nil {
			msg = fStr(m, "message")
		}
		if len(msg) > 40 {
			msg = msg[:40]
		}
		key := cls{pathClass(k.Path), res.Status, msg}
		if seen[key] {
			continue
		}
		seen[key] = true
		// the same request with a large ignored field: same error path, large body
		big := b[:len(b)-1] + `,"pad":"` + pad + `"}`
		reps = append(reps, hostileReq{Method: "POST", Path: k.Path, Body: hs(big), Note: fmt.Sprintf("soak: error path %s -> %d with a ~1 MiB body", key.path, key.status)})
	}
	n := c.N(90, 300)
	if len(reps) > 40 {
		reps = reps[:40]
	}
	for _, k := range reps {
		for i := 0; i < n; i++ {
			judgeHostile(c, srv, k, i == 0)
			if i%30 == 29 {
				probe()
			}
		}
		probe()
		c.R.Count("soak_error_classes", 1)
	}
	for i := 0; i < 10; i++ {
		probe()
	}
}

// c19FailingOnly: a dedicated server instance that, from its start, sees nothing but failing requests at a low
// rate for 21 s (two full 10-second windows of any periodic bookkeeping), and must then still answer probes.
// It runs concurrently with the main phases on its own server, so it adds no wall time.
func c19FailingOnly(c *Ctx, done chan<- struct{}) {
	defer close(done)
	r := c.R
	srv, err := startServer(c, "VERIF_SERVER_BIN")
	if err != nil {
		r.Inconclusive("failing-only soak: server could not be started: " + err.Error())
		return
	}
	defer srv.stop()
	bodies := []hostileReq{
		{Method: "POST", Path: "/totp/generate", Body: hs("{"), Note: "failing-only soak"},
		{Method: "POST", Path: "/hotp/validate", Body: hs(`{"secret":"GEZDGNBVGY3TQOJQ","code":123456}`), Note: "failing-only soak"},
		{Method: "GET", Path: "/nope", Note: "failing-only soak"},
		{Method: "PUT", Path: "/otp/secret", Note: "failing-only soak"},
		{Method: "POST", Path: "/ocra/generate", Body: hs(`{"secret":"GEZDGNBVGY3TQOJQ","raw_suite":"nope","input":{}}`), Note: "failing-only soak"},
	}
	t0 := time.Now()
	n := 0
	for time.Since(t0) < 21*time.Second {
		k := bodies[n%len(bodies)]
		judgeHostile(c, srv, k, false)
		if n < len(bodies) {
			// the soak is only meaningful if each of its requests is indeed answered with a failure status
			var body []byte
			if k.Body != "" {
				body = unhex(k.Body)
			}
			if res := srv.do(k.Method, k.Path, body, false, 10*time.Second); res.Err == nil && res.Status < 400 {
				r.Inconclusive(fmt.Sprintf("failing-only soak: %s %s is answered %d, not a failure status", k.Method, k.Path, res.Status))
			}
		}
		n++
		time.Sleep(100 * time.Millisecond)
		if !srv.alive() {
			break
		}
	}
	r.Count("failing_only_soak_requests", n)
	if !srv.alive() {
		r.Violate("C19|server|died|failing-only-traffic", "the server process exited after a period in which every request failed", "none", "21 s of failing-only requests", "alive", "exited; see server log")
		return
	}
	for _, k := range c18Cases(c, 30) {
		judgeREST(c, srv, k)
		r.Count("probes", 1)
	}
}

// c19ResourceGrowth: "keeps serving" restated as bounded resources - for each class of request that is answered
// without any state being asked for, four equal batches are sent and the server's resident memory is read after each.
// A class whose every batch adds at least growthKB (and whose control-relative growth is clear) holds something per
// request for good (a goroutine, a buffer, a cache entry): it will stop serving at some request count.
func c19ResourceGrowth(c *Ctx, srv *server) {
	r := c.R
	type class struct {
		name, method, path string
		body               []byte
		// vary, when set, gives the i-th request of the class its own path / body: the requests of the class are then
		// all DIFFERENT from one another (a table keyed by request data grows with distinct requests, not with repeats)
		vary func(i int) (string, []byte)
	}
	long := strings.Repeat("a", 6000)
	seq := 0
	classes := []class{
		{"home", "GET", "/", nil, nil},
		{"docs-index", "GET", "/docs/index.html", nil, nil},
		{"docs-static-asset", "GET", "/docs/swagger-ui.css", nil, nil},
		{"docs-unknown-file", "GET", "/docs/no-such-file.png", nil, nil},
		{"docs-json", "GET", "/docs/doc.json", nil, nil},
		{"unknown-path", "GET", "/no/such/path", nil, nil},
		{"wrong-method", "GET", "/totp/generate", nil, nil},
		{"broken-json", "POST", "/hotp/generate", []byte("{\"secret\":"), nil},
		{"suite-list", "GET", "/ocra/suites", nil, nil},
		{"hotp-generate", "POST", "/hotp/generate", []byte("{\"secret\":\"GEZDGNBVGY3TQOJQGEZDGNBVGY3TQOJQ\",\"counter\":1}"), nil},
		{name: "distinct-unknown-paths", method: "GET", vary: func(i int) (string, []byte) { return fmt.Sprintf("/files/%s/%d", long, i), nil }},
		{name: "distinct-methods-and-paths", method: "PUT", vary: func(i int) (string, []byte) { return fmt.Sprintf("/totp/generate/%d/%s", i, long[:3000]), nil }},
		{name: "distinct-query-strings", method: "GET", vary: func(i int) (string, []byte) {
			return fmt.Sprintf("/otp/secret?algorithm=SHA1&x%d=%s", i, long[:3000]), nil
		}},
		{name: "distinct-secrets", method: "POST", vary: func(i int) (string, []byte) {
			return "/hotp/generate", []byte(fmt.Sprintf("{\"secret\":\"%s\",\"counter\":%d}", ref.Base32Encode([]byte(fmt.Sprintf("%0600d", i))), i))
		}},
		{name: "distinct-issuers", method: "POST", vary: func(i int) (string, []byte) {
			return "/otp/url", []byte(fmt.Sprintf("{\"secret\":\"GEZDGNBVGY3TQOJQGEZDGNBVGY3TQOJQ\",\"type\":\"totp\",\"issuer\":\"%s%d\",\"account_name\":\"a%d\"}", long[:3000], i, i))
		}},
		{name: "distinct-refused-bodies", method: "POST", vary: func(i int) (string, []byte) {
			return "/ocra/generate", []byte(fmt.Sprintf("{\"secret\":\"x%d\",\"raw_suite\":\"nope-%s-%d\",\"input\":{}}", i, long[:3000], i))
		}},
	}
	batch := c.N(2500, 12000)
	const growthKB = 4096
	for _, cl := range classes {
		var rss [5]int64
		ok := true
		rss[0], ok = srv.rssKB()
		if !ok {
			r.Inconclusive("resource growth: /proc/<pid>/status of the server not readable")
			return
		}
		for b := 1; b <= 4; b++ {
			base := seq
			seq += batch
			monParallel(batch, 16, func(i int) {
				path, body := cl.path, cl.body
				if cl.vary != nil {
					path, body = cl.vary(base + i)
				}
				srv.do(cl.method, path, body, false, 30*time.Second)
			})
			rss[b], _ = srv.rssKB()
		}
		r.Eval(1)
		r.Count("resource_growth_requests", 4*batch)
		r.Nontrivial("growth|" + cl.name)
		steady := true
		for b := 1; b <= 4; b++ {
			if rss[b]-rss[b-1] < growthKB {
				steady = false
			}
		}
		r.Extra["resident_KiB_after_batches:"+cl.name] = rss
		if steady {
			r.Violate("C19|"+cl.name+"|resources-grow-per-request|", fmt.Sprintf("the server's resident memory grows by at least %d KiB with every batch of %d identical %s requests (something is kept per request for good)", growthKB, batch, cl.name),
				"none", map[string]any{"class": cl.name, "method": cl.method, "path": cl.path, "batch": batch}, "no steady growth", fmt.Sprintf("resident KiB before and after four batches: %v", rss))
		}
	}
}

func runC19(c *Ctx) {
	r := c.R
	// a wrapper that starts the server with a descriptor limit (for the silent-client phase); c.Env is written here,
	// before any of the phases that read it runs beside this one
	if bin := c.Env["VERIF_SERVER_BIN"]; bin != "" {
		wrap := filepath.Join(c.Env["VERIF_SCRATCH"], "server-fdlimit.sh")
		if os.WriteFile(wrap, []byte("#!/bin/sh\nulimit -n 170 || exit 97\nexec \""+bin+"\" \"$@\"\n"), 0o755) == nil {
			c.Env["VERIF_SERVER_BIN_FDLIMIT"] = wrap
		}
	}
	soakDone := make(chan struct{})
	go c19FailingOnly(c.forkFor(1901), soakDone)
	defer func() { <-soakDone }()
	silentDone := make(chan struct{})
	go c19SilentClients(c.forkFor(1902), silentDone)
	defer func() { <-silentDone }()
	connDone := make(chan struct{})
	go c19ConnectionFaults(c.forkFor(1903), connDone)
	defer func() { <-connDone }()
	docsDone := make(chan struct{})
	docsCtx, docsRaceCtx := c.forkFor(1904), c.forkFor(1905)
	go c19DocsAssets(docsCtx, "VERIF_SERVER_BIN", c.N(3, 12), "", docsDone)
	defer func() {
		<-docsDone
		if c.Thorough {
			// the same rounds against the server built with the race detector
			d2 := make(chan struct{})
			go c19DocsAssets(docsRaceCtx, "VERIF_SERVER_RACE_BIN", 6, "server.race19", d2)
			<-d2
			raceLogs(c, "server.race19")
		}
	}()
	srv, err := startServer(c, "VERIF_SERVER_BIN")
	if err != nil {
		r.Inconclusive("server could not be started: " + err.Error())
		return
	}
	defer func() {
		if srv != nil {
			srv.stop()
		}
	}()
	srv.client.CheckRedirect = func(*http.Request, []*http.Request) error { return http.ErrUseLastResponse }
	reqs := c19Requests(c, c.N(3000, 50000))
	probes := c18Cases(c, len(reqs)/4+50)
	pi := 0
	probe := func() {
		if pi < len(probes) {
			judgeREST(c, srv, probes[pi])
			r.Count("probes", 1)
			pi++
		}
	}
	restart := func() bool {
		srv.stop()
		ns, err := startServer(c, "VERIF_SERVER_BIN")
		if err != nil {
			r.Inconclusive("server could not be restarted: " + err.Error())
			srv = nil
			return false
		}
		ns.client.CheckRedirect = srv.client.CheckRedirect
		srv = ns
		r.Count("server_restarts", 1)
		return true
	}
	// sequential phase: CPU attribution per hostile request, one probe per 5 hostile requests
	seq := reqs[:len(reqs)*2/3]
	for i, k := range seq {
		if judgeHostile(c, srv, k, true) {
			if !restart() {
				return
			}
		}
		if i%5 == 4 {
			probe()
		}
	}
	// soak: every failing request class repeated many times with bodies close to the 1 MiB limit (resource
	// accounting that leaks on an error path exhausts only after dozens of large requests), then probes
	c19RejectedThenMinimal(c, srv)
	// value-equivalent respellings of well-formed requests (numbers as 100.0 / 1e2 / "100", shuffled keys, unused
	// fields with a wrong type): refused, or answered for exactly the values written - never for other values
	{
		rrng := c.RNG.Fork(1919)
		n := 0
		for _, k := range c18Cases(c, c.N(3000, 30000)) {
			if rk, ok := respell(rrng, k); ok {
				judgeREST(c, srv, rk)
				n++
			}
			if rrng.Intn(6) == 0 && k.Method == "POST" {
				judgeREST(c, srv, respellPath(rrng, k))
				r.Count("respelled_paths", 1)
			}
		}
		r.Count("respelled_requests", n)
	}
	c19ResourceGrowth(c, srv)
	if srv = c19HostileHeaders(c, srv); srv == nil {
		return
	}
	if srv = c19WideText(c, srv); srv == nil {
		return
	}
	c19Soak(c, srv, seq, probe)
	srv = c19SkewProbes(c, srv)
	if srv == nil {
		return
	}
	srv.client.CheckRedirect = func(*http.Request, []*http.Request) error { return http.ErrUseLastResponse }
	probe()
	c19RawTCP(c, srv)
	for i := 0; i < 5; i++ {
		probe()
	}
	// concurrent phase: 32 connections
	conc := reqs[len(reqs)*2/3:]
	large := c18LargeCases(c, len(conc)/8+20)
	monParallel(len(conc), 32, func(i int) {
		judgeHostile(c, srv, conc[i], false)
		if i%8 == 0 && i/8 < len(large) {
			judgeREST(c, srv, large[i/8]) // large well-formed responses in flight together with hostile traffic
			r.Count("probes_with_large_responses", 1)
		}
		if i%5 == 4 {
			if j := len(probes) - 1 - i/5; j >= pi {
				judgeREST(c, srv, probes[j])
				r.Count("probes", 1)
			}
		}
	})
	for i := 0; i < 10; i++ {
		probe()
	}
	if !srv.alive() {
		r.Violate("C19|server|died|", "the server process is not alive at the end of the hostile workload", "none", nil, "alive", "exited")
	}
}

func init() {
	register(&Prop{
		ID: "C19",
		Rule: "the real server binary on loopback receives a seeded shuffle of hostile requests (broken JSON, every field with every JSON type, numbers at and beyond 64-bit limits, skew/period/counter/timestamp extremes, unknown/contradictory/weird suites, bad hex, 1 MiB bodies and bodies above the limit, every method x every path, unknown paths, raw TCP fragments), sequentially with per-request server CPU accounting (/proc/<pid>/stat) and then on 32 connections, interleaved with well-formed probe requests judged by the C18 oracle; every response must be complete, 2xx only with the endpoint's success object, no single request may cost more than 2 CPU-seconds, refused skews must not accept, value-equivalent respellings of well-formed requests (numbers as 100.0 / 1e2 / \"100\", shuffled keys, unused fields of a wrong type) must be refused or answered for exactly the values written (C18 oracle), for sixteen request classes (ten of identical requests, six whose requests all differ from one another in a long path, query, secret, issuer or refused field) four equal batches are sent and the server's resident memory is read after each (steady growth of >= 4 MiB per batch = something is kept per request for good), 27 request-header names x hostile values one at a time under CPU accounting; on a second server: refused/failed first requests followed by a well-formed request on the same connection (judged by the C18 oracle), abandoned uploads and clients stalled beyond the read timeout, each followed by probes; documentation assets requested by 224 clients at once under eight Accept-Encoding values in rounds that each meet an expired compressed-file cache, by one client alone and by 40 clients with the same first request on freshly started servers for every (file, coding) pair, and by 96 concurrent byte-range requests per round, must decode (by the coding the response names) to the bytes served for the identity coding resp. carry the bytes their Content-Range names, probes must stay correct and the process alive; " +
			"distinct_nontrivial counts distinct hostile (method, path, body) requests plus distinct probes",
		Run: runC19,
		Replay: func(c *Ctx, kind string, raw json.RawMessage) error {
			srv, err := startServer(c, "VERIF_SERVER_BIN")
			if err != nil {
				c.R.Inconclusive("server could not be started: " + err.Error())
				return nil
			}
			defer srv.stop()
			srv.client.CheckRedirect = func(*http.Request, []*http.Request) error { return http.ErrUseLastResponse }
			switch kind {
			case "hostile":
				return replayAs(raw, func(k hostileReq) { judgeHostile(c, srv, k, true) })
			case "rest":
				return replayAs(raw, func(k restCase) {
					if k.F != nil {
						b, _ := json.Marshal(k.F)
						k.F, _ = decodeJSON(b)
					}
					judgeREST(c, srv, k)
				})
			}
			return fmt.Errorf("unknown kind %q", kind)
		},
	})
}
