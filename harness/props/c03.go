package props

import (
	"encoding/json"
	"fmt"
	"math"
	"strings"
	"time"

	"github.com/ja7ad/otp"

	"verifh/gen"
	"verifh/hooks"
	"verifh/ref"
)

// ---- C03 / C04: validation accepts exactly the window ----

type vhotpCase struct {
	KeyHex    string   `json:"key_hex"`
	Secret    string   `json:"secret"`
	Counter   uint64   `json:"counter"`
	Skew      uint64   `json:"skew"`
	NilParam  bool     `json:"nil_param"`
	Digits    uint8    `json:"digits"`
	Algo      uint8    `json:"algo"`
	Submitted []string `json:"submitted_hex"` // hex of each submitted byte string (judged against one window)
	Notes     []string `json:"notes"`
}

func callValidateHOTP(secret, code string, counter uint64, p *otp.Param) (ok bool, err error, pan any) {
	defer func() {
		if x := recover(); x != nil {
			pan = x
		}
	}()
	ok, err = otp.ValidateHOTP(secret, code, counter, p)
	return
}

func callValidateTOTP(secret, code string, t time.Time, p *otp.Param) (ok bool, err error, pan any) {
	defer func() {
		if x := recover(); x != nil {
			pan = x
		}
	}()
	ok, err = otp.ValidateTOTP(secret, code, t, p)
	return
}

// pairRule is C13's first sentence; judged for C13 on the same events.
func pairRule(c *Ctx, op string, ok bool, err error, kind string, k any) {
	if c.R.Prop != "C13" {
		return
	}
	c.R.Nontrivial("pair|" + op + "|" + mustJSON(k))
	c.R.Count(fmt.Sprintf("verdict_pairs:%s:(%v,%s)", op, ok, map[bool]string{true: "nil", false: "error"}[err == nil]), 1)
	if ok && err != nil {
		c.R.Violate("C13|"+op+"|true-with-error|", op+" returned (true, error)", kind, k, "(true, nil) or (false, error)", fmt.Sprintf("(true, %v)", err))
	}
	if !ok && err == nil {
		c.R.Violate("C13|"+op+"|false-without-error|", op+" returned (false, nil)", kind, k, "(true, nil) or (false, error)", "(false, nil)")
	}
}

func errClass(err error) string {
	if err == nil {
		return "nil"
	}
	s := err.Error()
	if len(s) > 24 {
		s = s[:24]
	}
	return s
}

func judgeVHOTP(c *Ctx, k vhotpCase) {
	r := c.R
	key := unhex(k.KeyHex)
	var p *otp.Param
	digits, algo, skew := int(k.Digits), int(k.Algo), k.Skew
	if k.NilParam {
		digits, algo, skew = 6, ref.SHA1, 2
	} else {
		p = &otp.Param{Digits: otp.Digits(k.Digits), Algorithm: otp.Algorithm(k.Algo), Skew: uint(k.Skew)}
	}
	supported := digits >= 1 && digits <= 10 && ref.HashSupported(algo)
	inDomain := k.Counter <= math.MaxUint64-skew
	var w map[string]uint64
	if skew <= 10 && supported && inDomain {
		w = ref.HOTPWindow(key, k.Counter, skew, digits, algo)
	}
	one := func(sh, note string) vhotpCase { x := k; x.Submitted, x.Notes = []string{sh}, []string{note}; return x }
	for i, sh := range k.Submitted {
		sub := string(unhex(sh))
		note := ""
		if i < len(k.Notes) {
			note = k.Notes[i]
		}
		ok, err, pan := callValidateHOTP(k.Secret, sub, k.Counter, p)
		r.Eval(1)
		if pan != nil {
			if r.Prop != "C13" {
				r.Violate(r.Prop+"|ValidateHOTP|panic|"+paramClass(digits, algo), "ValidateHOTP panics", "vhotp", one(sh, note), "a verdict", panicStr(pan))
			}
			continue
		}
		pairRule(c, "ValidateHOTP", ok, err, "vhotp", one(sh, note))
		if r.Prop == "C13" {
			leakCheck(c, "ValidateHOTP", err, k.Secret, key, func() []string {
				if w == nil || digits < 6 {
					return nil
				}
				var codes []string
				for code := range w {
					codes = append(codes, code)
				}
				return codes
			}, "vhotp", one(sh, note))
			continue
		}
		switch {
		case skew > 10:
			r.Nontrivial(fmt.Sprintf("refuse|%d|%s", skew, note))
			if ok || err == nil {
				r.Violate("C03|ValidateHOTP|window>10-not-refused|", "ValidateHOTP does not refuse a window larger than 10", "vhotp", one(sh, note), "(false, error)", fmt.Sprintf("(%v, %v)", ok, err))
			}
		case !supported:
			if ok {
				r.Violate("C03|ValidateHOTP|accepts-with-unsupported|"+paramClass(digits, algo), "ValidateHOTP accepts under unsupported parameters", "vhotp", one(sh, note), "(false, error)", fmt.Sprintf("(%v, %v)", ok, err))
			}
		case !inDomain:
			// outside the property's domain (window would pass 2^64-1)
		default:
			at, want := w[sub]
			if want || len(sub) == digits {
				r.Nontrivial(fmt.Sprintf("w|%s|%d|%d|%d|%d|%s", k.KeyHex, k.Counter, skew, digits, algo, sh))
			}
			if ok != want {
				cls := "rejects-in-window"
				exp := fmt.Sprintf("true (code of counter %d, inside [%d-%d, %d+%d])", at, k.Counter, skew, k.Counter, skew)
				if !want {
					cls = "accepts-outside-window"
					exp = "false (not the code of any counter in the window)"
				}
				side := ""
				if want && at < k.Counter {
					side = "look-behind"
					if k.Counter >= 1<<63 {
						side = "look-behind,counter>=2^63"
					}
				} else if want && at > k.Counter {
					side = "look-ahead"
				} else if want {
					side = "own-counter"
				} else {
					side = noteClass(note)
				}
				r.Violate("C03|ValidateHOTP|"+cls+"|"+side, "ValidateHOTP "+cls+" ("+side+")", "vhotp", one(sh, note), exp, fmt.Sprintf("(%v, %v) for submitted %q", ok, err, sub))
			}
		}
		if r.WantSample() {
			r.Sample(map[string]any{"case": one(sh, note), "submitted": sub, "ok": ok, "err": fmt.Sprint(err)})
		}
	}
}

// noteClass reduces a per-submission note to its class (for signatures).
func noteClass(n string) string {
	if strings.HasPrefix(n, "genuine code at distance") {
		return "genuine code outside the window"
	}
	if strings.HasPrefix(n, "refused") {
		return "refused"
	}
	return n
}

type vtotpCase struct {
	KeyHex    string          `json:"key_hex"`
	Secret    string          `json:"secret"`
	At        gen.InstantSpec `json:"at"`
	Period    uint64          `json:"period"`
	Skew      uint64          `json:"skew"`
	NilParam  bool            `json:"nil_param"`
	Digits    uint8           `json:"digits"`
	Algo      uint8           `json:"algo"`
	Submitted []string        `json:"submitted_hex"`
	Notes     []string        `json:"notes"`
}

// maxDerivationsPerValidation: 2*10+1 codes can be derived by a bounded validator.
const maxDerivationsPerValidation = 21

func judgeVTOTP(c *Ctx, k vtotpCase) {
	r := c.R
	key := unhex(k.KeyHex)
	var p *otp.Param
	digits, algo, skew, period := int(k.Digits), int(k.Algo), k.Skew, k.Period
	if k.NilParam {
		digits, algo, skew, period = 6, ref.SHA1, 0, 30
	} else {
		p = &otp.Param{Digits: otp.Digits(k.Digits), Algorithm: otp.Algorithm(k.Algo), Skew: uint(k.Skew), Period: uint(k.Period)}
	}
	supported := digits >= 1 && digits <= 10 && ref.HashSupported(algo)
	step := ref.Step(k.At.Unix, period)
	inDomain := step >= skew && k.At.Unix >= 0 && k.At.Unix < 1<<62
	var w map[string]uint64
	if skew <= 10 && supported && inDomain {
		w = ref.HOTPWindow(key, step, skew, digits, algo)
	}
	t := k.At.Time()
	one := func(sh, note string) vtotpCase { x := k; x.Submitted, x.Notes = []string{sh}, []string{note}; return x }
	for i, sh := range k.Submitted {
		sub := string(unhex(sh))
		note := ""
		if i < len(k.Notes) {
			note = k.Notes[i]
		}
		ok, err, pan := callValidateTOTP(k.Secret, sub, t, p)
		r.Eval(1)
		if pan == hooks.Cutoff {
			r.Violate("C04|ValidateTOTP|unbounded-work|", "ValidateTOTP performs work unbounded in the skew parameter (cut off by the monitor after 64 derivations)", "vtotp", one(sh, note), "at most 21 derivations, then (false, error)", "more than 64 HMAC derivations in one call")
			continue
		}
		if pan != nil {
			if r.Prop != "C13" {
				r.Violate(r.Prop+"|ValidateTOTP|panic|"+paramClass(digits, algo), "ValidateTOTP panics", "vtotp", one(sh, note), "a verdict", panicStr(pan))
			}
			continue
		}
		pairRule(c, "ValidateTOTP", ok, err, "vtotp", one(sh, note))
		if r.Prop == "C13" {
			leakCheck(c, "ValidateTOTP", err, k.Secret, key, func() []string {
				if w == nil || digits < 6 {
					return nil
				}
				var codes []string
				for code := range w {
					codes = append(codes, code)
				}
				return codes
			}, "vtotp", one(sh, note))
			continue
		}
		switch {
		case skew > 10:
			r.Nontrivial(fmt.Sprintf("refuse|%d|%s", skew, note))
			if ok || err == nil {
				r.Violate("C04|ValidateTOTP|skew>10-not-refused|", "ValidateTOTP does not refuse a skew above the documented maximum of 10", "vtotp", one(sh, note), "(false, error)", fmt.Sprintf("(%v, %v)", ok, err))
			}
		case !supported:
			if ok {
				r.Violate("C04|ValidateTOTP|accepts-with-unsupported|"+paramClass(digits, algo), "ValidateTOTP accepts under unsupported parameters", "vtotp", one(sh, note), "(false, error)", fmt.Sprintf("(%v, %v)", ok, err))
			}
		case !inDomain:
			// outside the property's domain
		default:
			at, want := w[sub]
			if want || len(sub) == digits {
				r.Nontrivial(fmt.Sprintf("w|%s|%d|%d|%d|%d|%d|%s", k.KeyHex, k.At.Unix, period, skew, digits, algo, sh))
			}
			if ok != want {
				cls := "rejects-in-window"
				exp := fmt.Sprintf("true (code of step %d; validation at step %d, skew %d)", at, step, skew)
				side := "own-step"
				if !want {
					cls = "accepts-outside-window"
					exp = "false (not the code of any step in the window)"
					side = noteClass(note)
				} else if at < step {
					side = "earlier-step"
				} else if at > step {
					side = "later-step"
				}
				r.Violate("C04|ValidateTOTP|"+cls+"|"+side, "ValidateTOTP "+cls+" ("+side+")", "vtotp", one(sh, note), exp, fmt.Sprintf("(%v, %v) for submitted %q", ok, err, sub))
			}
		}
		if r.WantSample() {
			r.Sample(map[string]any{"case": one(sh, note), "submitted": sub, "ok": ok, "err": fmt.Sprint(err)})
		}
	}
}

// submittedFor builds the submitted strings for a window centred at c: genuine
// codes at distance -(s+3)..+(s+3) and the hostile classes.
func submittedFor(rng *gen.RNG, key []byte, centre uint64, skew uint64, digits, algo int, hostile bool) (subs []string, notes []string) {
	span := int64(skew) + 3
	if skew > 10 {
		span = 13
	}
	for d := -span; d <= span; d++ {
		var x uint64
		if d < 0 {
			if centre < uint64(-d) {
				continue
			}
			x = centre - uint64(-d)
		} else {
			if centre > math.MaxUint64-uint64(d) {
				continue
			}
			x = centre + uint64(d)
		}
		subs = append(subs, ref.HOTP(key, x, digits, algo))
		notes = append(notes, fmt.Sprintf("genuine code at distance %+d", d))
	}
	if hostile {
		exp := ref.HOTP(key, centre, digits, algo)
		for _, h := range gen.HostileCodes(rng, exp) {
			subs = append(subs, h)
			notes = append(notes, "hostile string")
		}
	}
	// look-alikes of every genuine code that begins with '0' (numeric parsing would accept "+…" / " …")
	for _, g := range append([]string{}, subs...) {
		if len(g) > 1 && g[0] == '0' && isDigits(g) {
			subs = append(subs, "+"+g[1:], " "+g[1:], "-"+g[1:])
			notes = append(notes, "hostile string", "hostile string", "hostile string")
		}
	}
	return
}

func hexAll(ss []string) []string {
	out := make([]string, len(ss))
	for i, s := range ss {
		out[i] = hexs([]byte(s))
	}
	return out
}

func c03Cases(c *Ctx, emit func(vhotpCase)) {
	rng := c.RNG.Fork(3)
	digitSet := []int{1, 4, 6, 8, 9, 10}
	nSecrets := c.N(12, 100)
	counters := append([]uint64{}, gen.Counters...)
	counters = append(counters, 4, 5, 12, 1<<63-2, 1<<63+2, 1<<63+9, 1<<64-22)
	for s := 0; s < nSecrets; s++ {
		key := gen.SecretBytes(rng, gen.Pick(rng, gen.SecretLens), 2)
		enc := ref.Base32Encode(key)
		for _, ctr := range counters {
			for skew := uint64(0); skew <= 10; skew++ {
				if !c.Thorough && (int(skew)+s)%3 != 0 && skew != 2 && skew != 10 {
					continue
				}
				d := digitSet[rng.Intn(len(digitSet))]
				a := rng.Intn(3)
				subs, notes := submittedFor(rng, key, ctr, skew, d, a, rng.Intn(2) == 0)
				emit(vhotpCase{KeyHex: hexs(key), Secret: gen.Spell(rng, enc, rng.Intn(gen.NSpellings)), Counter: ctr, Skew: skew, Digits: uint8(d), Algo: uint8(a), Submitted: hexAll(subs), Notes: notes})
			}
			// nil parameters: 6 digits, SHA-1, window 2
			subs, notes := submittedFor(rng, key, ctr, 2, 6, ref.SHA1, true)
			emit(vhotpCase{KeyHex: hexs(key), Secret: enc, Counter: ctr, NilParam: true, Submitted: hexAll(subs), Notes: notes})
		}
		// refused windows
		for _, skew := range []uint64{11, 12, 100, 10000, 1 << 32, 1<<63 - 1, 1 << 63, 1<<64 - 1} {
			// counters at both ends and in the upper half of the range; distances in both directions, taken modulo
			// 2^64 (a window value misread as a signed or narrower number reaches exactly such counters)
			for _, ctr := range []uint64{0, 5, 100, 1 << 40, 1 << 63, 1<<63 + 77, 1<<64 - 12} {
				seen := map[uint64]bool{}
				for _, dist := range []uint64{0, 1, ^uint64(0), 11, ^uint64(10), skew, -skew, 1 << 63, uint64(uint32(skew)), -uint64(uint32(skew))} {
					if seen[dist] {
						continue
					}
					seen[dist] = true
					emit(vhotpCase{KeyHex: hexs(key), Secret: enc, Counter: ctr, Skew: skew, Digits: 6, Algo: 0, Submitted: []string{hexs([]byte(ref.HOTP(key, ctr+dist, 6, 0)))}, Notes: []string{fmt.Sprintf("refused window %d, genuine code at modular distance %d", skew, int64(dist))}})
				}
			}
		}
	}
	// random
	for i := 0; i < c.N(20000, 600000); i++ {
		key := rng.Bytes(rng.Intn(70))
		ctr := gen.Counter(rng)
		skew := uint64(rng.Intn(11))
		d, a := 1+rng.Intn(10), rng.Intn(3)
		if rng.Intn(30) == 0 {
			d = rng.Intn(256)
		}
		if rng.Intn(30) == 0 {
			a = rng.Intn(256)
		}
		dd, aa := d, a
		if dd < 1 || dd > 10 {
			dd = 6
		}
		if !ref.HashSupported(aa) {
			aa = 0
		}
		subs, notes := submittedFor(rng, key, ctr, skew, dd, aa, rng.Intn(6) == 0)
		// a random half of the submissions of this window
		var ss, nn []string
		for j := range subs {
			if rng.Bool() {
				ss, nn = append(ss, subs[j]), append(nn, notes[j])
			}
		}
		emit(vhotpCase{KeyHex: hexs(key), Secret: gen.Spell(rng, ref.Base32Encode(key), rng.Intn(gen.NSpellings)), Counter: ctr, Skew: skew, Digits: uint8(d), Algo: uint8(a), Submitted: hexAll(ss), Notes: nn})
	}
}

func c04Cases(c *Ctx, emit func(vtotpCase)) {
	rng := c.RNG.Fork(4)
	digitSet := []int{1, 4, 6, 8, 9, 10}
	for s := 0; s < c.N(600, 12000); s++ {
		key := gen.SecretBytes(rng, gen.Pick(rng, gen.SecretLens), 2)
		enc := ref.Base32Encode(key)
		period := gen.Period(rng)
		pp := period
		if pp == 0 {
			pp = 30
		}
		for skew := uint64(0); skew <= 10; skew++ {
			if !c.Thorough && (int(skew)+s)%4 != 0 && skew != 1 && skew != 10 {
				continue
			}
			// an instant whose step is >= skew (the whole window at or after step 0)
			var unix int64
			for tries := 0; ; tries++ {
				unix = gen.UnixSeconds(rng, period)
				if uint64(unix)/pp >= skew {
					break
				}
				if tries > 20 {
					unix = int64((skew + uint64(rng.Intn(5))) * pp)
					if unix < 0 || unix >= 1<<62 {
						unix = -1
					}
					break
				}
			}
			if unix < 0 {
				continue
			}
			step := uint64(unix) / pp
			d := digitSet[rng.Intn(len(digitSet))]
			a := rng.Intn(3)
			subs, notes := submittedFor(rng, key, step, skew, d, a, rng.Intn(2) == 0)
			emit(vtotpCase{KeyHex: hexs(key), Secret: gen.Spell(rng, enc, rng.Intn(gen.NSpellings)), At: rng.InstantSpec(unix), Period: period, Skew: skew, Digits: uint8(d), Algo: uint8(a), Submitted: hexAll(subs), Notes: notes})
		}
		// nil parameters: 6 digits, SHA-1, 30 s, skew 0
		unix := gen.UnixSeconds(rng, 30)
		subs, notes := submittedFor(rng, key, uint64(unix)/30, 0, 6, ref.SHA1, true)
		emit(vtotpCase{KeyHex: hexs(key), Secret: enc, At: rng.InstantSpec(unix), NilParam: true, Submitted: hexAll(subs), Notes: notes})
	}
	// unsupported parameter classes
	for i := 0; i < c.N(3000, 30000); i++ {
		key := rng.Bytes(20)
		unix := gen.UnixSeconds(rng, 30)
		d, a := rng.Intn(256), rng.Intn(3)
		if rng.Bool() {
			d, a = 6, 3+rng.Intn(253)
		}
		dd := d
		if dd < 1 || dd > 10 {
			dd = 6
		}
		sub := ref.TOTP(key, unix, 30, dd, 0)
		if len(sub) != d && rng.Bool() {
			sub = fmt.Sprintf("%0*d", d, 0)
		}
		emit(vtotpCase{KeyHex: hexs(key), Secret: ref.Base32Encode(key), At: rng.InstantSpec(unix), Period: 30, Skew: 1, Digits: uint8(d), Algo: uint8(a), Submitted: []string{hexs([]byte(sub))}, Notes: []string{"unsupported parameters"}})
	}
}

// refusedSkewCases: affordable refused skews, judged functionally (no timing).
func refusedSkewCases(c *Ctx, skews []uint64) []vtotpCase {
	rng := c.RNG.Fork(44)
	var out []vtotpCase
	for _, skew := range skews {
		for i := 0; i < 2; i++ {
			key := rng.Bytes(20)
			enc := ref.Base32Encode(key)
			period := uint64(30)
			if i == 1 {
				period = 0
			}
			unix := int64(1<<40 + rng.Intn(1<<30))
			step := ref.Step(unix, period)
			for _, dist := range []uint64{0, 1, ^uint64(0), 11, skew, -skew, 1 << 63, uint64(uint32(skew))} {
				out = append(out, vtotpCase{KeyHex: hexs(key), Secret: enc, At: gen.InstantSpec{Unix: unix}, Period: period, Skew: skew, Digits: 6, Algo: 0,
					Submitted: []string{hexs([]byte(ref.HOTP(key, step+dist, 6, 0)))}, Notes: []string{fmt.Sprintf("refused skew %d, genuine code at distance +%d", skew, dist)}})
			}
		}
	}
	return out
}

// c03NeighbourHistory: validation on one goroutine alternating between a key and its minimal neighbours
// (gen.NeighbourKeys); each key is offered its own code and the other key's code at the same counter.
func c03NeighbourHistory(c *Ctx) {
	rng := c.RNG.Fork(313)
	for rep := 0; rep < c.N(1, 6); rep++ {
		for _, n := range gen.NeighbourKeyLengths {
			keys := gen.NeighbourKeys(rng, n)
			ctr := gen.Counter(rng)
			if ctr > 1<<63 {
				ctr >>= 1
			}
			d, a := uint8(6+rng.Intn(5)), uint8(rng.Intn(3))
			skew := uint64(rng.Intn(3))
			call := func(k, other []byte) {
				subs := []string{ref.HOTP(k, ctr, int(d), int(a)), ref.HOTP(other, ctr, int(d), int(a))}
				judgeVHOTP(c, vhotpCase{KeyHex: hexs(k), Secret: ref.Base32EncodeNoPad(k), Counter: ctr, Skew: skew, Digits: d, Algo: a, Submitted: hexAll(subs), Notes: []string{"own code (neighbour-key history)", "code of a key differing minimally (neighbour-key history)"}})
				c.R.Count("neighbour_key_history_calls", 1)
			}
			for _, v := range keys[1:] {
				call(keys[0], v)
				call(v, keys[0])
			}
			call(keys[0], keys[1])
		}
	}
}

// c04StepWalk: validation with one key and parameter set along a walk over adjacent steps (stepWalkOffsets); at
// each instant the own step's code, a code just inside and one just outside the window are submitted.
func c04StepWalk(c *Ctx) {
	rng := c.RNG.Fork(404)
	for w := 0; w < c.N(10, 120); w++ {
		p := gen.Pick(rng, []uint64{0, 1, 30, 30, 60})
		pp := int64(p)
		if pp == 0 {
			pp = 30
		}
		baseStep := 1000 + int64(rng.Intn(1<<30))
		key := rng.Bytes(20)
		d, a := 6+rng.Intn(5), rng.Intn(3)
		skew := uint64(rng.Intn(4))
		for _, off := range stepWalkOffsets(rng, c.N(300, 1200)) {
			step := uint64(baseStep + off)
			subs := []string{ref.HOTP(key, step, d, a), ref.HOTP(key, step-skew, d, a), ref.HOTP(key, step+skew+1, d, a), ref.HOTP(key, step-skew-1, d, a)}
			judgeVTOTP(c, vtotpCase{KeyHex: hexs(key), Secret: ref.Base32EncodeNoPad(key), At: gen.InstantSpec{Unix: int64(step)*pp + int64(rng.Intn(int(pp))), Zone: 0}, Period: p, Skew: skew, Digits: uint8(d), Algo: uint8(a),
				Submitted: hexAll(subs), Notes: []string{"own step (adjacent-step walk)", "lowest step of the window (walk)", "first step above the window (walk)", "first step below the window (walk)"}})
			c.R.Count("adjacent_step_walk_calls", 1)
		}
	}
}

// c03CounterWalk: validation with one key and parameter set along a walk over adjacent counters.
func c03CounterWalk(c *Ctx) {
	rng := c.RNG.Fork(314)
	for w := 0; w < c.N(10, 120); w++ {
		base := gen.Pick(rng, []uint64{1000, 1 << 31, 1 << 32, 1 << 62, uint64(1000 + rng.Intn(1<<30))})
		key := rng.Bytes(20)
		d, a := 6+rng.Intn(5), rng.Intn(3)
		skew := uint64(rng.Intn(4))
		for _, off := range stepWalkOffsets(rng, c.N(300, 1200)) {
			ctr := base + uint64(off)
			subs := []string{ref.HOTP(key, ctr, d, a), ref.HOTP(key, ctr-skew, d, a), ref.HOTP(key, ctr+skew+1, d, a), ref.HOTP(key, ctr-skew-1, d, a)}
			judgeVHOTP(c, vhotpCase{KeyHex: hexs(key), Secret: ref.Base32EncodeNoPad(key), Counter: ctr, Skew: skew, Digits: uint8(d), Algo: uint8(a), Submitted: hexAll(subs),
				Notes: []string{"own counter (adjacent-counter walk)", "lowest counter of the window (walk)", "first counter above the window (walk)", "first counter below the window (walk)"}})
			c.R.Count("adjacent_counter_walk_calls", 1)
		}
	}
}

// c03RelatedCounters / c04RelatedSteps: validation with one key and parameter set at bit-related counters / time steps
// (relatedCounters); at each the own code, the edges of the window and the first counters outside it are submitted.
func c03RelatedCounters(c *Ctx) {
	rng := c.RNG.Fork(3140)
	for w := 0; w < c.N(16, 200); w++ {
		base := gen.Pick(rng, []uint64{uint64(1000 + rng.Intn(1000)), uint64(1000 + rng.Intn(1<<30)), 1000 + rng.U64()%(1<<40), rng.U64()})
		key := rng.Bytes(20)
		d, a := 6+rng.Intn(5), rng.Intn(3)
		skew := uint64(rng.Intn(4))
		for _, ctr := range relatedCounters(rng, base, 1<<64-1) {
			if ctr < 20 || ctr > 1<<64-20 {
				continue // the ends of the counter range have their own cases
			}
			subs := []string{ref.HOTP(key, ctr, d, a), ref.HOTP(key, ctr-skew, d, a), ref.HOTP(key, ctr+skew, d, a), ref.HOTP(key, ctr+skew+1, d, a), ref.HOTP(key, ctr-skew-1, d, a)}
			judgeVHOTP(c, vhotpCase{KeyHex: hexs(key), Secret: ref.Base32EncodeNoPad(key), Counter: ctr, Skew: skew, Digits: uint8(d), Algo: uint8(a), Submitted: hexAll(subs),
				Notes: []string{"own counter (bit-related history)", "lowest counter of the window (bit-related history)", "highest counter of the window (bit-related history)", "first counter above the window (bit-related history)", "first counter below the window (bit-related history)"}})
			c.R.Count("bit_related_counter_history_calls", 1)
		}
	}
}

func c04RelatedSteps(c *Ctx) {
	rng := c.RNG.Fork(4040)
	for w := 0; w < c.N(16, 200); w++ {
		p := gen.Pick(rng, []uint64{0, 1, 1, 30, 30, 60})
		pp := p
		if pp == 0 {
			pp = 30
		}
		limit := (uint64(1)<<62-pp)/pp - 20
		base := gen.Pick(rng, []uint64{uint64(1000 + rng.Intn(1000)), uint64(1000 + rng.Intn(1<<30)), 1000 + rng.U64()%(1<<40), 1000 + rng.U64()%(limit-1000)})
		key := rng.Bytes(20)
		d, a := 6+rng.Intn(5), rng.Intn(3)
		skew := uint64(rng.Intn(4))
		for _, step := range relatedCounters(rng, base, limit) {
			if step < 20 {
				continue
			}
			subs := []string{ref.HOTP(key, step, d, a), ref.HOTP(key, step-skew, d, a), ref.HOTP(key, step+skew, d, a), ref.HOTP(key, step+skew+1, d, a), ref.HOTP(key, step-skew-1, d, a)}
			judgeVTOTP(c, vtotpCase{KeyHex: hexs(key), Secret: ref.Base32EncodeNoPad(key), At: gen.InstantSpec{Unix: int64(step*pp) + int64(rng.Intn(int(pp))), Zone: 0}, Period: p, Skew: skew, Digits: uint8(d), Algo: uint8(a),
				Submitted: hexAll(subs), Notes: []string{"own step (bit-related history)", "lowest step of the window (bit-related history)", "highest step of the window (bit-related history)", "first step above the window (bit-related history)", "first step below the window (bit-related history)"}})
			c.R.Count("bit_related_step_history_calls", 1)
		}
	}
}

// windowRelatives: windows (centre, skew) that share their first counter, their last counter or their centre with
// the base window (c1, s1) but have another skew - wide then narrow and narrow then wide.
func windowRelatives(c1, s1 uint64) [][2]uint64 {
	var out [][2]uint64
	for s2 := uint64(0); s2 <= 10; s2++ {
		if s2 == s1 {
			continue
		}
		out = append(out, [2]uint64{c1 - s1 + s2, s2}, [2]uint64{c1 + s1 - s2, s2}, [2]uint64{c1, s2})
	}
	return out
}

// c03WindowRelatives / c04WindowRelatives: one goroutine, one secret and format; validation at the base window, then at
// a relative (windowRelatives), then at the base again; every call gets the codes of all counters from one below the
// lower of the two windows to one above the higher. Whatever is remembered about a window under less than (first
// counter, length) - its start alone, its centre alone - answers the relative with the base's set of codes.
func c03WindowRelatives(c *Ctx) {
	rng := c.RNG.Fork(3150)
	for w := 0; w < c.N(12, 150); w++ {
		key := rng.Bytes(20)
		d, a := 6+rng.Intn(5), rng.Intn(3)
		c1, s1 := uint64(100+rng.Intn(1<<30)), uint64(1+rng.Intn(10))
		mk := func(ctr, skew, lo, hi uint64, note string) vhotpCase {
			var subs, notes []string
			for x := lo; x <= hi; x++ {
				subs = append(subs, ref.HOTP(key, x, d, a))
				notes = append(notes, note)
			}
			return vhotpCase{KeyHex: hexs(key), Secret: ref.Base32EncodeNoPad(key), Counter: ctr, Skew: skew, Digits: uint8(d), Algo: uint8(a), Submitted: hexAll(subs), Notes: notes}
		}
		for _, r := range windowRelatives(c1, s1) {
			lo, hi := min(c1-s1, r[0]-r[1])-1, max(c1+s1, r[0]+r[1])+1
			judgeVHOTP(c, mk(c1, s1, lo, hi, "every counter around two related windows (base window)"))
			judgeVHOTP(c, mk(r[0], r[1], lo, hi, "every counter around two related windows (window sharing its start, end or centre with the previous call's)"))
			c.R.Count("related_window_history_calls", 2)
		}
	}
}

func c04WindowRelatives(c *Ctx) {
	rng := c.RNG.Fork(4150)
	for w := 0; w < c.N(12, 150); w++ {
		key := rng.Bytes(20)
		d, a := 6+rng.Intn(5), rng.Intn(3)
		p := gen.Pick(rng, []uint64{0, 30, 30, 60, 1})
		pp := p
		if pp == 0 {
			pp = 30
		}
		c1, s1 := uint64(100+rng.Intn(1<<30)), uint64(1+rng.Intn(10))
		mk := func(step, skew, lo, hi uint64, note string) vtotpCase {
			var subs, notes []string
			for x := lo; x <= hi; x++ {
				subs = append(subs, ref.HOTP(key, x, d, a))
				notes = append(notes, note)
			}
			return vtotpCase{KeyHex: hexs(key), Secret: ref.Base32EncodeNoPad(key), At: gen.InstantSpec{Unix: int64(step*pp) + int64(rng.Intn(int(pp)))}, Period: p, Skew: skew, Digits: uint8(d), Algo: uint8(a), Submitted: hexAll(subs), Notes: notes}
		}
		for _, r := range windowRelatives(c1, s1) {
			lo, hi := min(c1-s1, r[0]-r[1])-1, max(c1+s1, r[0]+r[1])+1
			judgeVTOTP(c, mk(c1, s1, lo, hi, "every step around two related windows (base window)"))
			judgeVTOTP(c, mk(r[0], r[1], lo, hi, "every step around two related windows (window sharing its start, end or centre with the previous call's)"))
			c.R.Count("related_window_history_calls", 2)
		}
	}
}

// c03SameCodeWalk / c04SameCodeWalk: one goroutine, one secret, format and window, and ONE submitted string (the code
// of counter / step k) validated while the counter / instant walks from below the window that contains k to above it
// and back, every position twice (for TOTP at two different seconds of the step). The verdict flips from rejected to
// accepted and back; each (ok, err) pair must be the one that belongs to the position it is asked at. Whatever is
// remembered about "this code for this secret" - a verdict, a reason for rejection - must not outlive the position.
func c03SameCodeWalk(c *Ctx) {
	rng := c.RNG.Fork(3160)
	for w := 0; w < c.N(20, 300); w++ {
		key := rng.Bytes(20)
		d, a := 6+rng.Intn(5), rng.Intn(3)
		skew := uint64(rng.Intn(4))
		k := uint64(100 + rng.Intn(1<<30))
		code := ref.HOTP(key, k, d, a)
		var pos []uint64
		for x := k - skew - 2; x <= k+skew+2; x++ {
			pos = append(pos, x, x)
		}
		for i := len(pos) - 1; i >= 0; i-- {
			pos = append(pos, pos[i])
		}
		for _, ctr := range pos {
			judgeVHOTP(c, vhotpCase{KeyHex: hexs(key), Secret: ref.Base32EncodeNoPad(key), Counter: ctr, Skew: skew, Digits: uint8(d), Algo: uint8(a), Submitted: hexAll([]string{code}), Notes: []string{"one code, the counter walks across the window that contains it"}})
			c.R.Count("same_code_walk_calls", 1)
		}
	}
}

func c04SameCodeWalk(c *Ctx) {
	rng := c.RNG.Fork(4160)
	for w := 0; w < c.N(20, 300); w++ {
		key := rng.Bytes(20)
		d, a := 6+rng.Intn(5), rng.Intn(3)
		p := gen.Pick(rng, []uint64{0, 30, 30, 60, 2})
		pp := p
		if pp == 0 {
			pp = 30
		}
		skew := uint64(rng.Intn(4))
		k := uint64(100 + rng.Intn(1<<30))
		code := ref.HOTP(key, k, d, a)
		var pos []uint64
		for x := k - skew - 2; x <= k+skew+2; x++ {
			pos = append(pos, x, x)
		}
		for i := len(pos) - 1; i >= 0; i-- {
			pos = append(pos, pos[i])
		}
		for i, step := range pos {
			off := uint64(i%2) * (pp - 1) // first and last second of the step
			judgeVTOTP(c, vtotpCase{KeyHex: hexs(key), Secret: ref.Base32EncodeNoPad(key), At: gen.InstantSpec{Unix: int64(step*pp + off)}, Period: p, Skew: skew, Digits: uint8(d), Algo: uint8(a), Submitted: hexAll([]string{code}), Notes: []string{"one code, the instant walks across the window that contains it"}})
			c.R.Count("same_code_walk_calls", 1)
		}
	}
}

func runC04(c *Ctx) {
	bt := newBatcher(c, judgeVTOTP, 97)
	c04Cases(c, bt.add)
	bt.flush()
	cases := bt.keep
	c04StepWalk(c)
	c04RelatedSteps(c)
	c04WindowRelatives(c)
	c04SameCodeWalk(c)

	// bounded work. (i) functional, affordable skews: a validator that does not refuse answers (true, nil).
	small := refusedSkewCases(c, []uint64{11, 12, 100, 10000})
	hooked := hooks.Available()
	if hooked {
		// (ii) derivations per call, with a cut-off so a runaway loop cannot hang the check
		cfg := &hooks.Config{MaxCalls: 64}
		hooks.Install(cfg)
		all := append(small, refusedSkewCases(c, []uint64{1000000, 1 << 32, 1<<63 - 1, 1 << 63, 1<<64 - 1})...)
		reached := false
		for _, k := range all {
			hooks.ResetCalls()
			judgeVTOTP(c, k) // one submission per refused-skew case
			n := hooks.Calls()
			c.R.Count("refused_skew_probes", 1)
			if n > 0 {
				reached = true
			}
			if n > maxDerivationsPerValidation && n <= 64 {
				c.R.Violate("C04|ValidateTOTP|unbounded-work|", "ValidateTOTP derives more codes than any admissible window needs", "vtotp", k, "at most 21 derivations", fmt.Sprintf("%d derivations", n))
			}
		}
		// in-domain calls: at most 2*skew+1 derivations
		for _, k := range cases {
			if len(k.Submitted) == 0 {
				continue
			}
			k.Submitted, k.Notes = k.Submitted[:1], k.Notes[:min(1, len(k.Notes))]
			hooks.ResetCalls()
			judgeVTOTP(c, k)
			n := hooks.Calls()
			if n > 0 {
				reached = true
			}
			if n > maxDerivationsPerValidation {
				c.R.Violate("C04|ValidateTOTP|unbounded-work|", "ValidateTOTP derives more codes than any admissible window needs", "vtotp", k, "at most 21 derivations", fmt.Sprintf("%d derivations", n))
			}
			c.R.Count("derivation_counted_calls", 1)
		}
		hooks.Remove()
		if !reached {
			c.R.Inconclusive("derivation counting: constructor table wrapper never reached by ValidateTOTP")
			hooked = false
		}
	}
	if !hooked {
		for _, k := range small {
			judgeVTOTP(c, k)
			c.R.Count("refused_skew_probes", 1)
		}
		if c.R.ViolationCount() == 0 {
			// (iii) huge skews without the hook: in a child process under a watchdog; the
			// violation needs logical corroboration (allocation count), a bare timeout is inconclusive.
			hugeSkewChild(c)
		} else {
			c.R.Inconclusive("huge-skew probes skipped: smaller refused skews already violated and hooks unavailable (a non-refusing validator would not return)")
		}
	}
}

func init() {
	register(&Prop{
		ID: "C03",
		Rule: "for each (secret, digits, hash, counter incl. c<s and 2^31/2^32/2^63 edges, window 0..10): the genuine codes of every counter at distance -(s+3)..+(s+3) plus hostile strings (edits, truncations, padding, Unicode digits, random bytes) are submitted to ValidateHOTP and the verdict compared with membership in the reference window set; windows > 10 must be refused; " +
			"distinct_nontrivial counts distinct (key,counter,window,digits,hash,submitted) tuples where the submitted string is a genuine window code or has the right length, plus distinct refused-window probes",
		Run: func(c *Ctx) {
			b := newBatcher(c, judgeVHOTP, 0)
			c03Cases(c, b.add)
			b.flush()
			c03NeighbourHistory(c)
			c03CounterWalk(c)
			c03RelatedCounters(c)
			c03WindowRelatives(c)
			c03SameCodeWalk(c)
		},
		Replay: func(c *Ctx, kind string, raw json.RawMessage) error {
			return replayAs(raw, func(k vhotpCase) { judgeVHOTP(c, k) })
		},
	})
	register(&Prop{
		ID: "C04",
		Rule: "as C03 with time steps: for each (secret, digits, hash, period incl. 0, instant with floor(t/p) >= skew, skew 0..10) the genuine codes of steps at distance -(s+3)..+(s+3) plus hostile strings are submitted to ValidateTOTP; skews > 10 (11..2^64-1) must be refused, and the number of HMAC derivations per call (counted through the constructor-table hook, cut off at 64) must not exceed 21; " +
			"distinct_nontrivial counts distinct (key,instant,period,skew,digits,hash,submitted) tuples with a genuine window code or right-length string, plus distinct refused-skew probes",
		Run: runC04,
		Replay: func(c *Ctx, kind string, raw json.RawMessage) error {
			return replayAs(raw, func(k vtotpCase) {
				if hooks.Install(&hooks.Config{MaxCalls: 64}) {
					defer hooks.Remove()
				} else if k.Skew > 10000 {
					c.R.Inconclusive("huge-skew replay needs the hook cut-off")
					return
				}
				judgeVTOTP(c, k)
			})
		},
	})
}
