package props

import (
	"fmt"
	"strings"
	"time"

	"verifh/gen"
	"verifh/ref"
)

// Histories for C18 that only a long-lived server process can get wrong: anything the service remembers between
// requests (decoded keys, recent verdicts, the current time step) and the rule "timestamp omitted means now".

// secretRequest builds one well-formed request of a seeded kind for the given secret text / key.
func secretRequest(rng *gen.RNG, sec string, key []byte, note string) restCase {
	f := map[string]any{"secret": sec}
	switch rng.Intn(6) {
	case 0:
		f["counter"] = rng.U64() >> uint(rng.Intn(64))
		return restCase{EP: "hotp/generate", Method: "POST", F: f, KeyHex: hexs(key), Note: note}
	case 1:
		f["timestamp"] = uint64(1 + rng.Intn(2000000000))
		return restCase{EP: "totp/generate", Method: "POST", F: f, KeyHex: hexs(key), Note: note}
	case 2:
		ctr := uint64(10 + rng.Intn(1000000))
		d := rng.Intn(3) // the code of the counter itself, of a neighbour inside the window, of one outside
		f["counter"], f["skew"] = ctr, uint64(1)
		f["code"] = ref.HOTP(key, ctr+uint64(d), 6, 0)
		return restCase{EP: "hotp/validate", Method: "POST", F: f, KeyHex: hexs(key), Note: note + fmt.Sprintf(" (code of counter +%d, window 1)", d)}
	case 3:
		ts := int64(100000 + rng.Intn(2000000000))
		d := int64(rng.Intn(3))
		f["timestamp"], f["skew"] = uint64(ts), uint64(1)
		f["code"] = ref.TOTP(key, ts+30*d, 30, 6, 0)
		return restCase{EP: "totp/validate", Method: "POST", F: f, KeyHex: hexs(key), Note: note + fmt.Sprintf(" (code of step +%d, skew 1)", d)}
	case 4:
		f["raw_suite"] = "OCRA-1:HOTP-SHA1-6:QN08"
		f["input"] = map[string]any{"challenge_hex": ref.HexEncode([]byte(fmt.Sprintf("%08d", rng.Intn(100000000))))}
		return restCase{EP: "ocra/generate", Method: "POST", F: f, KeyHex: hexs(key), Note: note}
	default:
		m, _ := ref.ParseSuiteName("OCRA-1:HOTP-SHA1-6:QN08")
		ch := []byte(fmt.Sprintf("%08d", rng.Intn(100000000)))
		code := ref.OCRA(key, m, ref.Input{Challenge: ch})
		if rng.Intn(3) == 0 {
			b := []byte(code)
			b[rng.Intn(len(b))] ^= 1
			code = string(b)
		}
		f["raw_suite"], f["code"] = "OCRA-1:HOTP-SHA1-6:QN08", code
		f["input"] = map[string]any{"challenge_hex": ref.HexEncode(ch)}
		return restCase{EP: "ocra/validate", Method: "POST", F: f, KeyHex: hexs(key), Note: note}
	}
}

// c18DistinctSecrets: one connection, n requests each with a secret never seen before; a small set of secrets seen at the
// very beginning in assorted spellings (wrapped in white space, lower case, padded, plain) comes back after 10, 100,
// 1000, 4200, ... other secrets and once more at the end, each time in a fresh spelling and on a seeded endpoint.
// Everything is judged by the C18 oracle: whatever the service keeps per secret must not outlive its truth.
func c18DistinctSecrets(c *Ctx, srv *server, n int) {
	r := c.R
	rng := c.RNG.Fork(1871)
	type tracked struct {
		key []byte
	}
	var early []tracked
	spell := func(key []byte, which int) string {
		b32 := ref.Base32Encode(key)
		switch which % 6 {
		case 0:
			return " " + b32
		case 1:
			return b32 + "\n"
		case 2:
			return "\t " + strings.ToLower(b32) + " \r\n"
		case 3:
			return strings.TrimRight(b32, "=")
		case 4:
			return strings.ToLower(strings.TrimRight(b32, "="))
		default:
			return b32
		}
	}
	for i := 0; i < 24; i++ {
		k := rng.Bytes(gen.Pick(rng, []int{10, 20, 20, 32, 64}))
		early = append(early, tracked{k})
		judgeREST(c, srv, secretRequest(rng, spell(k, i), k, "first sighting of a secret that will come back"))
	}
	revisit := map[int]bool{10: true, 100: true, 1000: true, 4200: true, 9000: true, 20000: true, 50000: true}
	visit := func(after int) {
		for i, e := range early {
			judgeREST(c, srv, secretRequest(rng, spell(e.key, i+after), e.key, fmt.Sprintf("a secret seen at the start, again after %d other secrets", after)))
			r.Count("early_secrets_revisited", 1)
		}
	}
	for i := 1; i <= n; i++ {
		k := rng.Bytes(gen.Pick(rng, []int{10, 20, 20, 20, 32}))
		judgeREST(c, srv, secretRequest(rng, ref.Base32Encode(k), k, "a secret never seen before"))
		r.Count("distinct_secrets_in_one_server_process", 1)
		if revisit[i] {
			visit(i)
		}
	}
	visit(n)
}

// c18NowHistory: requests WITHOUT a timestamp, identical in every byte, repeated while the clock moves on (periods of 1
// and 2 seconds so that a few seconds cross several steps). The clock is read only to bracket each exchange: a
// generate answer must carry a timestamp inside its bracket (and the code of that timestamp); a validate verdict must
// be the library's verdict for at least one instant of its bracket. Runs beside the other phases on a server of its own.
func c18NowHistory(c *Ctx, binEnv string, done chan<- struct{}) {
	defer close(done)
	r := c.R
	srv, err := startServer(c, binEnv)
	if err != nil {
		r.Inconclusive("now-history: server could not be started: " + err.Error())
		return
	}
	defer srv.stop()
	rng := c.RNG.Fork(1872)
	type held struct {
		k      restCase
		key    []byte
		period int64
		skew   int64
		code   string
	}
	var hs []held
	for _, period := range []int64{1, 2} {
		for _, skew := range []int64{0, 1, 2} {
			key := rng.Bytes(20)
			sec := ref.Base32Encode(key)
			now := time.Now().Unix()
			code := ref.TOTP(key, now, uint64(period), 8, 0)
			f := map[string]any{"secret": sec, "period": uint64(period), "skew": uint64(skew), "digits": "8", "code": code}
			hs = append(hs, held{restCase{EP: "totp/validate", Method: "POST", F: f, KeyHex: hexs(key)}, key, period, skew, code})
		}
	}
	gkey := rng.Bytes(20)
	gen1 := restCase{EP: "totp/generate", Method: "POST", F: map[string]any{"secret": ref.Base32Encode(gkey), "period": uint64(1), "digits": "8"}, KeyHex: hexs(gkey), Note: "same request without a timestamp, repeated as the clock moves on"}
	for round := 0; round < 6; round++ {
		if round > 0 {
			time.Sleep(1100 * time.Millisecond) // lets the clock cross a step; the verdicts below are bracketed, not timed
		}
		judgeREST(c, srv, gen1) // the "now-default" clause of the oracle brackets the reported timestamp
		for _, h := range hs {
			body := jsonBody(h.k.F)
			t0 := time.Now().Unix()
			res := srv.do("POST", "/totp/validate", body, round%2 == 1, 30*time.Second)
			t1 := time.Now().Unix()
			r.Eval(1)
			r.Count("now_history_validations", 1)
			if res.Err != nil || res.Status != 200 {
				r.Inconclusive(fmt.Sprintf("now-history: /totp/validate not answered with 200 (%v %d)", res.Err, res.Status))
				continue
			}
			out, derr := decodeJSON(res.Body)
			if derr != nil {
				continue
			}
			got, _ := out["valid"].(bool)
			// the library's verdict for every instant the server can have meant
			anyTrue, anyFalse := false, false
			for t := t0 - 1; t <= t1+1; t++ {
				ok := false
				for d := -h.skew; d <= h.skew; d++ {
					if t/h.period+d >= 0 && ref.TOTP(h.key, (t/h.period+d)*h.period, uint64(h.period), 8, 0) == h.code {
						ok = true
					}
				}
				if ok {
					anyTrue = true
				} else {
					anyFalse = true
				}
			}
			r.Nontrivial(fmt.Sprintf("now|%d|%d|%d|%v", h.period, h.skew, round, got))
			if (got && !anyTrue) || (!got && !anyFalse) {
				k := h.k
				k.Note = fmt.Sprintf("identical request without a timestamp, %d-th repetition; exchange between %d and %d", round+1, t0, t1)
				r.Violate(r.Prop+"|/totp/validate|now-default|stale-verdict", "with the timestamp omitted the verdict is not the library's verdict for any instant at which the request can have been handled", "rest", k,
					fmt.Sprintf("valid=%v for every instant in [%d,%d]", !got, t0-1, t1+1), fmt.Sprintf("valid=%v", got))
			}
		}
	}
}

// c18SameParams: one connection, one secret, digits, hash and period throughout; timestamps second by second across
// step boundaries in both directions, the last second of a step directly followed by the first second of the next,
// walks over adjacent and bit-related steps / counters, and validation along the same walk with the own code, the
// window's edges and the first codes outside. Whatever the service remembers about "this account's current code" is
// driven across the points where it has to let go. Judged by the C18 oracle.
func c18SameParams(c *Ctx, srv *server, rounds int) {
	r := c.R
	rng := c.RNG.Fork(1872)
	for w := 0; w < rounds; w++ {
		key := rng.Bytes(20)
		sec := ref.Base32EncodeNoPad(key)
		dg := gen.Pick(rng, []string{"", "6", "8", "10"})
		al := gen.Pick(rng, []string{"", "SHA1", "SHA256", "SHA512"})
		period := gen.Pick(rng, []uint64{0, 30, 60, 1, 2, 7, 3600})
		pp := period
		if pp == 0 {
			pp = 30
		}
		base := func() map[string]any {
			f := map[string]any{"secret": sec}
			if dg != "" {
				f["digits"] = dg
			}
			if al != "" {
				f["algorithm"] = al
			}
			return f
		}
		gt := func(ts uint64, note string) {
			f := base()
			f["timestamp"] = ts
			if period != 0 {
				f["period"] = period
			}
			judgeREST(c, srv, restCase{EP: "totp/generate", Method: "POST", F: f, KeyHex: hexs(key), Note: note})
			r.Count("same_parameter_history_requests", 1)
		}
		gh := func(ctr uint64, note string) {
			f := base()
			f["counter"] = ctr
			judgeREST(c, srv, restCase{EP: "hotp/generate", Method: "POST", F: f, KeyHex: hexs(key), Note: note})
			r.Count("same_parameter_history_requests", 1)
		}
		k0 := uint64(3 + rng.Intn(1<<20))
		lo, hi := k0*pp-2, (k0+1)*pp+2
		for ts := lo; ts <= hi; ts++ {
			if pp > 10 && ts > lo+4 && ts+4 < (k0+1)*pp {
				continue
			}
			gt(ts, "same parameters, second by second upwards across step boundaries")
		}
		for ts := hi; ts >= lo; ts-- {
			if pp > 10 && ts > lo+4 && ts+4 < (k0+1)*pp {
				continue
			}
			gt(ts, "same parameters, second by second downwards across step boundaries")
		}
		for i := 0; i < 6; i++ {
			k := k0 + uint64(rng.Intn(50))
			gt(k*pp+uint64(rng.Intn(int(pp))), "same parameters, somewhere inside a step")
			gt((k+1)*pp, "same parameters, then the first second of the next step")
			gt((k+1)*pp-1, "same parameters, then the last second of the step before")
			gt((k+2)*pp-1, "same parameters, last second of a step")
			gt((k+2)*pp, "same parameters, directly followed by the first second of the next step")
		}
		// the same secret and instant with exactly one other field changed (period: multiples, divisors, +-1, at an
		// instant where the steps of all of them begin in the same second; digits; hash), each followed by the base again
		{
			ts := uint64(1+rng.Intn(40000))*43200 + uint64(rng.Intn(10))
			send := func(dg2, al2 string, per uint64, note string) {
				f := map[string]any{"secret": sec, "timestamp": ts}
				if dg2 != "" {
					f["digits"] = dg2
				}
				if al2 != "" {
					f["algorithm"] = al2
				}
				if per != 0 {
					f["period"] = per
				}
				judgeREST(c, srv, restCase{EP: "totp/generate", Method: "POST", F: f, KeyHex: hexs(key), Note: note})
				r.Count("same_parameter_history_requests", 1)
			}
			for _, q := range []uint64{pp * 2, pp * 3, pp * 10, pp / 2, pp / 3, pp + 1, pp - 1, 30, 60, 1, 3600} {
				if q >= 1 && q != pp {
					send(dg, al, period, "base request of a one-field-changed history")
					send(dg, al, q, "same fields as the previous request but the period")
				}
			}
			for _, dg2 := range []string{"6", "8", "10"} {
				if restDigits(dg2) != restDigits(dg) {
					send(dg, al, period, "base request of a one-field-changed history")
					send(dg2, al, period, "same fields as the previous request but the digits")
				}
			}
			for _, al2 := range []string{"SHA1", "SHA256", "SHA512"} {
				if restAlgo(al2) != restAlgo(al) {
					send(dg, al, period, "base request of a one-field-changed history")
					send(dg, al2, period, "same fields as the previous request but the hash")
				}
			}
			send(dg, al, period, "base request of a one-field-changed history")
		}
		offs := stepWalkOffsets(rng, 110)
		for _, off := range offs {
			step := uint64(int64(k0+300) + off)
			if w%2 == 0 {
				gt(step*pp+uint64(rng.Intn(int(pp))), "same parameters, walk over adjacent steps")
			} else {
				gh(step, "same parameters, walk over adjacent counters")
			}
		}
		for i, v := range relatedCounters(rng, k0, (1<<62-3600)/pp) {
			if i > 200 {
				break
			}
			if w%2 == 0 {
				gh(v, "same parameters, bit-related counters")
			} else if v > 0 {
				gt(v*pp+uint64(rng.Intn(int(pp))), "same parameters, bit-related steps")
			}
		}
		skew := uint64(rng.Intn(4))
		d, a := restDigits(dg), restAlgo(al)
		for i, off := range offs {
			if i > 40 {
				break
			}
			step := uint64(int64(k0+300) + off)
			for j, x := range []uint64{step, step - skew, step + skew, step + skew + 1, step - skew - 1} {
				f := base()
				f["code"], f["skew"] = ref.HOTP(key, x, d, a), skew
				note := fmt.Sprintf("same parameters, validation walk, code %d of (own, low edge, high edge, above, below), window %d", j, skew)
				if w%2 == 0 {
					f["timestamp"] = step*pp + uint64(rng.Intn(int(pp)))
					if period != 0 {
						f["period"] = period
					}
					judgeREST(c, srv, restCase{EP: "totp/validate", Method: "POST", F: f, KeyHex: hexs(key), Note: note})
				} else {
					f["counter"] = step
					judgeREST(c, srv, restCase{EP: "hotp/validate", Method: "POST", F: f, KeyHex: hexs(key), Note: note})
				}
				r.Count("same_parameter_history_requests", 1)
			}
		}
	}
}

// c18AfterHostile: every well-formed request of a seeded batch is sent directly after a request to the same endpoint
// that is NOT well-formed - two JSON documents back to back (both well-formed requests of that endpoint with other
// values), a document followed by text, a truncated document, a document of the wrong JSON type, an empty body, a
// field of the wrong type, the document behind a byte-order mark - whose answer is not judged here (C19 does that). The
// well-formed request is judged by the C18 oracle: nothing a refused or half-read request leaves behind (a pooled
// decoder's buffered bytes, fields of a pooled request struct, a remembered error) may reach the next answer.
func c18AfterHostile(c *Ctx, srv *server, cases []restCase) {
	r := c.R
	rng := c.RNG.Fork(1873)
	byEP := map[string][]restCase{}
	for _, k := range cases {
		if k.Method == "POST" && k.F != nil && k.RawBody == "" && k.RawPath == "" {
			byEP[k.EP] = append(byEP[k.EP], k)
		}
	}
	for _, k := range cases {
		grp := byEP[k.EP]
		if k.Method != "POST" || k.F == nil || k.RawBody != "" || k.RawPath != "" || len(grp) < 3 {
			continue
		}
		o1, o2 := jsonBody(grp[rng.Intn(len(grp))].F), jsonBody(grp[rng.Intn(len(grp))].F)
		var pred []byte
		kind := rng.Intn(9)
		switch kind {
		case 0:
			pred = append(append([]byte{}, o1...), o2...)
		case 1:
			pred = append(append(append([]byte{}, o1...), '\n'), o2...)
		case 2:
			pred = append(append([]byte{}, o1...), []byte(" trailing text")...)
		case 3:
			pred = o1[:len(o1)/2]
		case 4:
			pred = append(append([]byte("["), o1...), ']')
		case 5:
			pred = nil
		case 6:
			pred = []byte(strings.Replace(string(o1), `"secret":"`, `"secret":["`, 1))
		case 7:
			pred = append([]byte("\xef\xbb\xbf"), o1...)
		default:
			pred = append(append(append([]byte{}, o1...), o2...), o1[:len(o1)/3]...)
		}
		res := srv.do("POST", "/"+k.EP, pred, false, 30*time.Second)
		if res.Err == nil {
			r.Count(fmt.Sprintf("not_well_formed_predecessors_answered_status_%dxx", res.Status/100), 1)
		} else {
			r.Count("not_well_formed_predecessors_unanswered", 1)
		}
		k.Note = strings.TrimSpace(k.Note + fmt.Sprintf(" (directly after a not-well-formed request of kind %d to the same endpoint)", kind))
		judgeREST(c, srv, k)
		r.Count("well_formed_requests_after_a_not_well_formed_one", 1)
	}
}
