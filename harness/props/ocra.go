package props

import (
	"encoding/json"
	"fmt"
	"strings"

	"github.com/ja7ad/otp"

	"verifh/gen"
	"verifh/hooks"
	"verifh/ref"
)

// ---- shared OCRA plumbing for C05, C06, C14 ----

type inputJ struct {
	Counter   *string `json:"counter,omitempty"` // hex; nil pointer = nil slice, "" = empty non-nil slice
	Challenge *string `json:"challenge,omitempty"`
	Password  *string `json:"password,omitempty"`
	Session   *string `json:"session,omitempty"`
	Timestamp *string `json:"timestamp,omitempty"`
}

func hexp(b []byte) *string {
	if b == nil {
		return nil
	}
	s := hexs(b)
	return &s
}
func unhexp(p *string) []byte {
	if p == nil {
		return nil
	}
	if *p == "" {
		return []byte{}
	}
	return unhex(*p)
}

func inputToJ(in ref.Input) inputJ {
	return inputJ{hexp(in.Counter), hexp(in.Challenge), hexp(in.Password), hexp(in.Session), hexp(in.Timestamp)}
}
func (j inputJ) ref() ref.Input {
	return ref.Input{Counter: unhexp(j.Counter), Challenge: unhexp(j.Challenge), Password: unhexp(j.Password), Session: unhexp(j.Session), Timestamp: unhexp(j.Timestamp)}
}
func toOCRAInput(in ref.Input) otp.OCRAInput {
	return otp.OCRAInput{Counter: in.Counter, Challenge: in.Challenge, Password: in.Password, SessionInfo: in.Session, Timestamp: in.Timestamp}
}

func toCfg(s ref.Suite) otp.SuiteConfig {
	return otp.SuiteConfig{Raw: s.Raw, Hash: otp.Algorithm(s.Hash), Digits: s.Digits, Challenge: otp.ChallengeFormat(s.Challenge),
		IncludeCounter: s.C, IncludeChallenge: s.Q, IncludePassword: s.P, IncludeSession: s.S, IncludeTimestamp: s.T,
		PasswordHash: otp.PasswordHashAlgorithm(s.PasswordHash), TimeStep: s.TimeStep}
}
func fromCfg(c otp.SuiteConfig) ref.Suite {
	return ref.Suite{Raw: c.Raw, Hash: int(c.Hash), Digits: c.Digits, Challenge: int(c.Challenge), C: c.IncludeCounter, Q: c.IncludeChallenge,
		P: c.IncludePassword, S: c.IncludeSession, T: c.IncludeTimestamp, PasswordHash: int(c.PasswordHash), TimeStep: c.TimeStep}
}

// suite construction routes
const (
	viaRaw      = "NewRawSuite"    // registered name or parsed string
	viaNewSuite = "NewSuite"       // NewSuite(cfg)
	viaBare     = "SuiteConfig"    // the bare configuration value used as a Suite
	viaRawValue = "RawSuite-value" // RawSuite{cfg} literal
	// a RawSuite obtained from a constructor (NewRawSuite of an advertised name / NewSuite) whose exported
	// configuration is then overwritten by the caller with the target configuration: still a hand-built configuration
	viaEdited = "constructed-then-edited"
	// a caller-owned configuration object handed over by pointer (*SuiteConfig / *RawSuite satisfy Suite as well),
	// used once with another configuration and then reconfigured in place to the target configuration
	viaPointer = "pointer-reconfigured-in-place"
)

func makeSuite(via string, s ref.Suite) (suite otp.Suite, err error, pan any) {
	defer func() {
		if x := recover(); x != nil {
			pan = x
		}
	}()
	switch via {
	case viaRaw:
		suite, err = otp.NewRawSuite(s.Raw)
	case viaNewSuite:
		suite, err = otp.NewSuite(toCfg(s))
	case viaRawValue:
		suite = otp.RawSuite{SuiteConfig: toCfg(s)}
	case viaEdited:
		var base otp.Suite
		names := liveNames()
		if len(names) > 0 && len(s.Raw)%2 == 0 {
			idx := (len(s.Raw) + s.Digits + s.Hash) % len(names)
			if idx < 0 {
				idx = -idx
			}
			base, err = otp.NewRawSuite(names[idx])
		} else {
			base, err = otp.NewSuite(otp.SuiteConfig{Raw: "seed", Hash: otp.SHA512, Digits: 9, IncludeCounter: true})
		}
		if err != nil {
			return nil, err, nil
		}
		rs, ok := base.(otp.RawSuite)
		if !ok {
			return toCfg(s), nil, nil // the constructor no longer returns a RawSuite value: fall back to the bare configuration
		}
		rs.SuiteConfig = toCfg(s)
		suite, err = rs, nil
	case viaPointer:
		prev := otp.SuiteConfig{Raw: "OCRA-1:previous", Hash: otp.SHA512, Digits: 9, IncludeCounter: true}
		if s.C && !s.Q && !s.P && !s.S && !s.T {
			prev = otp.SuiteConfig{Raw: "OCRA-1:previous", Hash: otp.SHA1, Digits: 6, IncludeChallenge: true, Challenge: otp.ChallengeFormat(ref.QN08)}
		}
		prevIn := otp.OCRAInput{Counter: []byte{0, 0, 0, 0, 0, 0, 0, 1}, Challenge: []byte("12345678")}
		if (len(s.Raw)+s.Digits)%2 == 0 {
			p := new(otp.SuiteConfig)
			*p = prev
			var asSuite otp.Suite = p
			otp.GenerateOCRA("GEZDGNBVGY3TQOJQ", asSuite, prevIn)
			otp.ValidateOCRA("GEZDGNBVGY3TQOJQ", "000000", asSuite, prevIn)
			*p = toCfg(s)
			suite = asSuite
		} else {
			p := &otp.RawSuite{SuiteConfig: prev}
			var asSuite otp.Suite = p
			otp.GenerateOCRA("GEZDGNBVGY3TQOJQ", asSuite, prevIn)
			p.SuiteConfig = toCfg(s)
			suite = asSuite
		}
	default:
		suite = toCfg(s)
	}
	return
}

func callGenerateOCRA(secret string, suite otp.Suite, in otp.OCRAInput) (code string, err error, pan any) {
	defer func() {
		if x := recover(); x != nil {
			pan = x
		}
	}()
	code, err = otp.GenerateOCRA(secret, suite, in)
	return
}
func callValidateOCRA(secret, code string, suite otp.Suite, in otp.OCRAInput) (ok bool, err error, pan any) {
	defer func() {
		if x := recover(); x != nil {
			pan = x
		}
	}()
	ok, err = otp.ValidateOCRA(secret, code, suite, in)
	return
}

var registeredNames = strings.Fields(`OCRA-1:HOTP-SHA1-6:QN08 OCRA-1:HOTP-SHA1-6:QA08 OCRA-1:HOTP-SHA1-6:QH08 OCRA-1:HOTP-SHA1-8:QN10 OCRA-1:HOTP-SHA1-8:QA10 OCRA-1:HOTP-SHA1-8:QH10 OCRA-1:HOTP-SHA256-6:QN08 OCRA-1:HOTP-SHA256-6:QA08 OCRA-1:HOTP-SHA256-6:QH08 OCRA-1:HOTP-SHA256-8:QN10 OCRA-1:HOTP-SHA256-8:QA10 OCRA-1:HOTP-SHA256-8:QH10 OCRA-1:HOTP-SHA512-6:QN08 OCRA-1:HOTP-SHA512-6:QA08 OCRA-1:HOTP-SHA512-6:QH08 OCRA-1:HOTP-SHA512-8:QN10 OCRA-1:HOTP-SHA512-8:QA10 OCRA-1:HOTP-SHA512-8:QH10 OCRA-1:HOTP-SHA1-6:C-QN08 OCRA-1:HOTP-SHA1-8:C-QA10 OCRA-1:HOTP-SHA256-6:C-QN08 OCRA-1:HOTP-SHA256-8:C-QA10 OCRA-1:HOTP-SHA512-6:C-QH08 OCRA-1:HOTP-SHA512-8:C-QH10 OCRA-1:HOTP-SHA1-6:QN08-PSHA1 OCRA-1:HOTP-SHA1-8:QA10-PSHA1 OCRA-1:HOTP-SHA256-6:QN08-PSHA256 OCRA-1:HOTP-SHA256-8:QA10-PSHA256 OCRA-1:HOTP-SHA512-6:QH08-PSHA512 OCRA-1:HOTP-SHA512-8:QH10-PSHA512 OCRA-1:HOTP-SHA1-6:C-QN08-PSHA1-S-T1 OCRA-1:HOTP-SHA1-8:C-QA10-PSHA1-S-T1 OCRA-1:HOTP-SHA256-6:C-QN08-PSHA256-S-T1 OCRA-1:HOTP-SHA256-8:C-QA10-PSHA256-S-T1 OCRA-1:HOTP-SHA512-6:C-QH08-PSHA512-S-T1 OCRA-1:HOTP-SHA512-8:C-QH10-PSHA512-S-T1 OCRA-1:HOTP-SHA1-6:QN08-S-T1 OCRA-1:HOTP-SHA1-8:QA10-S-T1 OCRA-1:HOTP-SHA256-6:QN08-S-T1 OCRA-1:HOTP-SHA256-8:QA10-S-T1 OCRA-1:HOTP-SHA512-6:QH08-S-T1 OCRA-1:HOTP-SHA512-8:QH10-S-T1 OCRA-1:HOTP-SHA1-6:C OCRA-1:HOTP-SHA256-6:C OCRA-1:HOTP-SHA512-6:C`)

// the names the library advertises right now (the monitors follow the live registry;
// the list above is only the pinned snapshot used to notice additions/removals)
func liveNames() []string {
	var names []string
	monCatch(func() { names = otp.ListSuites() })
	return names
}

// admissibleInput builds an input admitted by s; variant selects boundary lengths.
func admissibleInput(rng *gen.RNG, s ref.Suite, variant int) ref.Input {
	var in ref.Input
	if s.C {
		in.Counter = ref.BE8(gen.Counter(rng))
	}
	if s.Q {
		min := 0
		switch s.Challenge {
		case ref.QN08, ref.QA08, ref.QH08:
			min = 8
		case ref.QN10, ref.QA10, ref.QH10:
			min = 10
		}
		lens := []int{min, min + 1, 64, 127, 128, min + rng.Intn(129-min)}
		in.Challenge = rng.Bytes(lens[variant%len(lens)])
	}
	if s.P {
		in.Password = rng.Bytes(map[int]int{ref.PSHA1: 20, ref.PSHA256: 32, ref.PSHA512: 64}[s.PasswordHash])
	}
	if s.S {
		lens := []int{0, 1, 64, 127, 128, rng.Intn(129)}
		n := lens[(variant/2)%len(lens)]
		in.Session = rng.Bytes(n)
		if n == 0 && variant%2 == 0 {
			in.Session = nil
		}
	}
	if s.T {
		in.Timestamp = ref.BE8(rng.U64() >> uint(rng.Intn(40)))
	}
	return in
}

// garbageUnselected fills every field the suite does not select with arbitrary content.
func garbageUnselected(rng *gen.RNG, s ref.Suite, in ref.Input, variant int) ref.Input {
	g := func() []byte {
		switch variant % 3 {
		case 0:
			return rng.Bytes(rng.Intn(20))
		case 1:
			return rng.Bytes(129 + rng.Intn(300))
		default:
			return []byte{}
		}
	}
	if !s.C {
		in.Counter = g()
	}
	if !s.Q {
		in.Challenge = g()
	}
	if !s.P {
		in.Password = g()
	}
	if !s.S {
		in.Session = g()
	}
	if !s.T {
		in.Timestamp = g()
	}
	return in
}

// handBuiltSuites: hash x digits 4..10 x every subset of {C,Q,P,S,T} with valid metadata.
func handBuiltSuites(rng *gen.RNG, raws []string) []ref.Suite {
	var out []ref.Suite
	for h := 0; h < 3; h++ {
		for d := 4; d <= 10; d++ {
			for sub := 0; sub < 32; sub++ {
				for _, raw := range raws {
					s := ref.Suite{Raw: raw, Hash: h, Digits: d, C: sub&1 != 0, Q: sub&2 != 0, P: sub&4 != 0, S: sub&8 != 0, T: sub&16 != 0}
					if s.Q {
						s.Challenge = 1 + rng.Intn(6)
					} else if rng.Intn(4) == 0 {
						s.Challenge = rng.Intn(7) // format set although the field is not selected
					}
					if s.P {
						s.PasswordHash = 1 + rng.Intn(3)
					} else if rng.Intn(4) == 0 {
						s.PasswordHash = rng.Intn(4)
					}
					if s.T {
						s.TimeStep = gen.Pick(rng, []int{1, 30, 60, 3600})
					} else if rng.Intn(4) == 0 {
						s.TimeStep = gen.Pick(rng, []int{-1, 0, 60})
					}
					out = append(out, s)
				}
			}
		}
	}
	return out
}

type ocraCase struct {
	KeyHex string    `json:"key_hex"`
	Secret string    `json:"secret"`
	Via    string    `json:"via"`
	Suite  ref.Suite `json:"suite"`
	Input  inputJ    `json:"input"`
	Note   string    `json:"note,omitempty"`
	// Framed: the five fields are presented as adjacent sub-slices of ONE backing array (counter|challenge|
	// password|session|timestamp cut from a frame, each with capacity running to the end of the frame)
	Framed bool `json:"framed,omitempty"`
}

// framedInput lays the fields out in one shared frame (a common way to parse a wire message).
func framedInput(in ref.Input) otp.OCRAInput {
	total := len(in.Counter) + len(in.Challenge) + len(in.Password) + len(in.Session) + len(in.Timestamp) + 64
	frame := make([]byte, 0, total)
	cut := func(b []byte) []byte {
		if b == nil {
			return nil
		}
		start := len(frame)
		frame = append(frame, b...)
		return frame[start:len(frame)] // capacity extends over everything that follows in the frame
	}
	c := cut(in.Counter)
	q := cut(in.Challenge)
	p := cut(in.Password)
	s := cut(in.Session)
	t := cut(in.Timestamp)
	frame = append(frame, make([]byte, 64)...)
	return otp.OCRAInput{Counter: c, Challenge: q, Password: p, SessionInfo: s, Timestamp: t}
}

// ---- C05 ----

func judgeOCRA(c *Ctx, k ocraCase) {
	r := c.R
	key := unhex(k.KeyHex)
	in := k.Input.ref()
	suite, serr, pan := makeSuite(k.Via, k.Suite)
	if pan != nil {
		r.Violate("C05|"+k.Via+"|panic|", "constructing the suite panics", "ocra", k, "a suite or an error", panicStr(pan))
		return
	}
	model := k.Suite
	if k.Via == viaRaw {
		// the name is the only thing handed over: the model is what the name says
		m, ok := ref.ParseSuiteName(k.Suite.Raw)
		if !ok {
			// another letter case of a well-formed string: if the parser takes it, the code is computed over the
			// spelling that was handed over (a suite reports the string it was made from as its name)
			if m, ok = ref.ParseSuiteNameFold(k.Suite.Raw); !ok {
				return
			}
		}
		model = m
		if serr != nil {
			return // the parser may reject an unregistered string (C15 allows it)
		}
	} else if serr != nil {
		if ref.SuiteUsable(k.Suite) {
			r.Eval(1)
			r.Violate("C05|"+k.Via+"|usable-suite-rejected|", k.Via+" rejects a usable configuration", "ocra", k, "a suite", "error: "+serr.Error())
		}
		return
	}
	if !ref.SuiteUsable(model) || !ref.Admit(model, in) {
		return // C14/C06 territory
	}
	oin := toOCRAInput(in)
	if k.Framed {
		oin = framedInput(in)
	}
	code, err, pan := callGenerateOCRA(k.Secret, suite, oin)
	r.Eval(1)
	want := ref.OCRA(key, model, in)
	r.Nontrivial(fmt.Sprintf("o|%s|%s|%+v|%s", k.KeyHex, k.Via, model, mustJSON(k.Input)))
	cls := fmt.Sprintf("%s,digits=%d", k.Via, model.Digits)
	switch {
	case pan != nil:
		r.Violate("C05|GenerateOCRA|panic|"+cls, "GenerateOCRA panics on an admissible input", "ocra", k, want, panicStr(pan))
	case err != nil:
		r.Violate("C05|GenerateOCRA|error-for-admissible|"+k.Via, "GenerateOCRA fails on a valid suite and admissible input", "ocra", k, want, "error: "+err.Error())
	case code != want:
		r.Violate("C05|GenerateOCRA|wrong-code|"+cls+fieldSet(model)+k.Note, "GenerateOCRA differs from the RFC 6287 value", "ocra", k, want, code)
	}
	if r.WantSample() {
		r.Sample(map[string]any{"case": k, "code": code, "err": fmt.Sprint(err)})
	}
}

func fieldSet(s ref.Suite) string {
	out := ","
	for i, b := range []bool{s.C, s.Q, s.P, s.S, s.T} {
		if b {
			out += string("CQPST"[i])
		}
	}
	return out
}

func mustJSON(v any) string { b, _ := json.Marshal(v); return string(b) }

func c05Cases(c *Ctx, emit func(ocraCase)) {
	rng := c.RNG.Fork(5)
	secretFor := func() (string, string) {
		key := gen.SecretBytes(rng, gen.Pick(rng, gen.SecretLens), rng.Intn(3))
		return hexs(key), gen.Spell(rng, ref.Base32Encode(key), rng.Intn(gen.NSpellings))
	}
	emitWithVariants := func(k ocraCase) {
		emit(k)
		if rng.Intn(3) == 0 {
			f := k
			f.Framed = true
			f.Note = ",fields-share-one-backing-array"
			emit(f)
		}
		base := k.Input.ref()
		for v := 0; v < 3; v++ {
			kk := k
			kk.Input = inputToJ(garbageUnselected(rng, k.Suite, base, v))
			kk.Note = ",garbage-in-unselected-fields"
			if k.Via == viaRaw {
				m, _ := ref.ParseSuiteName(k.Suite.Raw)
				kk.Input = inputToJ(garbageUnselected(rng, m, base, v))
			}
			emit(kk)
		}
	}
	// registered names
	for _, name := range liveNames() {
		m, ok := ref.ParseSuiteName(name)
		if !ok {
			continue // C15 reports names that are not well-formed
		}
		for v := 0; v < c.N(60, 600); v++ {
			kh, sec := secretFor()
			emitWithVariants(ocraCase{KeyHex: kh, Secret: sec, Via: viaRaw, Suite: ref.Suite{Raw: name}, Input: inputToJ(admissibleInput(rng, m, v))})
		}
	}
	// parsed strings (only numeric challenges are representable by the parser; others may be rejected)
	for i := 0; i < c.N(6000, 100000); i++ {
		name := genSuiteName(rng)
		m, ok := ref.ParseSuiteName(name)
		if !ok {
			continue
		}
		kh, sec := secretFor()
		emitWithVariants(ocraCase{KeyHex: kh, Secret: sec, Via: viaRaw, Suite: ref.Suite{Raw: name}, Input: inputToJ(admissibleInput(rng, m, i))})
	}
	// hand-built configurations through the three construction routes
	raws := []string{"", "OCRA-1:HOTP-SHA1-6:QN08", strings.Repeat("suite-text ", 28)}
	// the suite text is arbitrary: a ladder of lengths (buffer-size thresholds need not be powers of two)
	for _, n := range []int{255, 256, 257, 1000, 1500, 1711, 1712, 1800, 2047, 2048, 2049, 3000, 4096, 10000, 65536} {
		if c.Thorough || n%3 != 0 {
			raws = append(raws, strings.Repeat("OCRA-1:long-suite-text/", n/23+1)[:n])
		}
	}
	vias := []string{viaNewSuite, viaBare, viaRawValue, viaEdited, viaPointer}
	for i, s := range handBuiltSuites(rng, raws) {
		reps := c.N(6, 60)
		if len(s.Raw) > 400 {
			if i%5 != 0 {
				continue // long suite texts: every 5th configuration, one input each
			}
			reps = 1
		}
		for v := 0; v < reps; v++ {
			kh, sec := secretFor()
			emitWithVariants(ocraCase{KeyHex: kh, Secret: sec, Via: vias[(i+v)%len(vias)], Suite: s, Input: inputToJ(admissibleInput(rng, s, i+v*7))})
		}
	}
}

// genSuiteName draws from the grammar of C15 (digits restricted to plausible values).
func genSuiteName(rng *gen.RNG) string {
	s := "OCRA-1:HOTP-" + gen.Pick(rng, []string{"SHA1", "SHA256", "SHA512"}) + "-" + fmt.Sprint(gen.Pick(rng, []int{4, 5, 6, 7, 8, 9, 10, 0, 11}))
	s += ":"
	if rng.Bool() {
		s += "C-"
	}
	s += "Q" + gen.Pick(rng, []string{"N", "N", "N", "A", "H"}) + gen.Pick(rng, []string{"08", "10"})
	if rng.Bool() {
		s += "-PSHA" + gen.Pick(rng, []string{"1", "256", "512"})
	}
	if rng.Bool() {
		s += "-S" + gen.Pick(rng, []string{"", "064", "128", "256", "512"})
	}
	if rng.Bool() {
		u := gen.Pick(rng, []string{"S", "M", "H"})
		n := 1 + rng.Intn(59)
		if u == "H" {
			n = 1 + rng.Intn(48)
		}
		s += fmt.Sprintf("-T%d%s", n, u)
	}
	return s
}

// checkOCRAMessages: with the recording wrapper, the HMAC message must be the documented layout.
func checkOCRAMessages(c *Ctx, cases []ocraCase) {
	if !hooks.Available() {
		c.R.Inconclusive("OCRA message-layout observation: verif hooks unavailable")
		return
	}
	reached := false
	for _, k := range cases {
		if checkOneOCRAMessage(c, k) {
			reached = true
		}
	}
	if !reached {
		c.R.Inconclusive("OCRA message-layout observation: wrapper never reached by GenerateOCRA")
	}
}

func checkOneOCRAMessage(c *Ctx, k ocraCase) bool {
	suite, serr, pan := makeSuite(k.Via, k.Suite)
	if pan != nil || serr != nil {
		return false
	}
	model := k.Suite
	if k.Via == viaRaw {
		m, ok := ref.ParseSuiteName(k.Suite.Raw)
		if !ok {
			return false
		}
		model = m
	}
	in := k.Input.ref()
	if !ref.SuiteUsable(model) || !ref.Admit(model, in) {
		return false
	}
	var evs []hooks.Event
	if !hooks.Install(&hooks.Config{Record: func(e hooks.Event) { evs = append(evs, e) }}) {
		return false
	}
	_, err, pan := callGenerateOCRA(k.Secret, suite, toOCRAInput(in))
	hooks.Remove()
	c.R.Eval(1)
	if err != nil || pan != nil || len(evs) == 0 {
		return false
	}
	c.R.Count("hmac_events", len(evs))
	e := evs[len(evs)-1]
	want := ref.OCRAMessage(model, in)
	if len(evs) != 1 || e.Algo != model.Hash || hexs(e.Key) != k.KeyHex || hexs(e.Msg) != hexs(want) {
		c.R.Violate("C05|GenerateOCRA|message-layout|"+fieldSet(model), "the HMAC message is not suite ‖ 00 ‖ C ‖ Q(128) ‖ P ‖ S(128) ‖ T over the selected fields", "ocramsg", k,
			fmt.Sprintf("hash=%d key=%s msg(%d)=%x", model.Hash, k.KeyHex, len(want), want), fmt.Sprintf("%d HMACs; hash=%d key=%x msg(%d)=%x", len(evs), e.Algo, e.Key, len(e.Msg), e.Msg))
	}
	return true
}

// c05EarlyHistories: the history-dependent routes (a suite object reconfigured in place through a pointer, a
// constructed-then-edited value) once more at the very start of the process, on one goroutine, before anything else
// has been derived - state that is only kept while some bounded table still has room is exercised here.
// c05SpellingHistory: on one goroutine, a well-formed unregistered suite string, then the same string in other letter
// cases, then the first again - each call's code must be the RFC value over the very spelling handed over.
func c05SpellingHistory(c *Ctx) {
	rng := c.RNG.Fork(56)
	seen := 0
	for tries := 0; seen < c.N(150, 2000) && tries < 100000; tries++ {
		n := genSuiteName(rng)
		m, ok := ref.ParseSuiteName(n)
		if !ok || !ref.SuiteUsable(m) {
			continue
		}
		seen++
		key := rng.Bytes(20)
		in := inputToJ(admissibleInput(rng, m, tries))
		call := func(name string) {
			judgeOCRA(c, ocraCase{KeyHex: hexs(key), Secret: ref.Base32EncodeNoPad(key), Via: viaRaw, Suite: ref.Suite{Raw: name}, Input: in, Note: "spelling history"})
			c.R.Count("spelling_history_calls", 1)
		}
		vs := caseVariants(rng, n, 2)
		call(n)
		call(vs[0])
		call(n)
		call(vs[1])
		call(vs[0])
	}
}

func c05EarlyHistories(c *Ctx) {
	c05SpellingHistory(c)
	rng := c.RNG.Fork(55)
	suites := handBuiltSuites(rng, []string{"OCRA-1:early"})
	for i := 0; i < c.N(300, 3000) && len(suites) > 0; i++ {
		s := suites[rng.Intn(len(suites))]
		via := viaPointer
		if i%4 == 3 {
			via = viaEdited
		}
		key := rng.Bytes(20)
		judgeOCRA(c, ocraCase{KeyHex: hexs(key), Secret: ref.Base32EncodeNoPad(key), Via: via, Suite: s, Input: inputToJ(admissibleInput(rng, s, i)), Note: "early history"})
		c.R.Count("early_history_calls", 1)
	}
}

// c05NeighbourHistory: one goroutine, one suite and input, keys that differ minimally (see gen.NeighbourKeys),
// alternating base / neighbour / base.
func c05NeighbourHistory(c *Ctx) {
	rng := c.RNG.Fork(512)
	names := []string{"OCRA-1:HOTP-SHA1-6:QN08", "OCRA-1:HOTP-SHA256-8:C-QA10-PSHA256-S-T1M", "OCRA-1:HOTP-SHA512-10:QH10-S064"}
	for rep := 0; rep < c.N(1, 6); rep++ {
		for i, n := range gen.NeighbourKeyLengths {
			name := names[(i+rep)%len(names)]
			m, ok := ref.ParseSuiteName(name)
			if !ok {
				continue
			}
			in := inputToJ(admissibleInput(rng, m, i))
			keys := gen.NeighbourKeys(rng, n)
			call := func(k []byte) {
				judgeOCRA(c, ocraCase{KeyHex: hexs(k), Secret: ref.Base32EncodeNoPad(k), Via: viaRaw, Suite: ref.Suite{Raw: name}, Input: in, Note: "neighbour-key history"})
				c.R.Count("neighbour_key_history_calls", 1)
			}
			for _, v := range keys[1:] {
				call(keys[0])
				call(v)
			}
			call(keys[0])
		}
	}
}

func init() {
	register(&Prop{
		ID: "C05",
		Rule: "suites = every advertised name, grammar-generated suite strings the parser accepts, and hand-built configurations (3 hashes x digits 4..10 x 32 field subsets x formats x password hashes x suite texts '', a name, 300 bytes) through NewSuite / bare SuiteConfig / RawSuite value; inputs admissible with boundary lengths (challenge min..128, session nil/0..128); each GenerateOCRA result compared with an independent RFC 6287 model, then repeated 3x with arbitrary content in unselected fields; one-goroutine histories: suite spellings, neighbouring keys, and inputs whose unpadded concatenation is the same byte string cut at other field boundaries or exchanged between fields (observed.recut_history_calls), and one set of caller-owned buffers rewritten in place between calls (observed.reused_buffer_history_calls); " +
			"distinct_nontrivial counts distinct (key, route, suite, input) tuples whose exact code was compared",
		Run: func(c *Ctx) {
			c05EarlyHistories(c)
			b := newBatcher(c, judgeOCRA, 7)
			c05Cases(c, b.add)
			b.flush()
			checkOCRAMessages(c, b.keep)
			runFmtStage(c, true, 4, c.N(20000, 1000000))
			c05NeighbourHistory(c)
			c05RecutHistory(c)
			c05ReusedBuffers(c, false)
		},
		Replay: func(c *Ctx, kind string, raw json.RawMessage) error {
			switch kind {
			case "ocra":
				return replayAs(raw, func(k ocraCase) { judgeOCRA(c, k) })
			case "ocramsg":
				return replayAs(raw, func(k ocraCase) { checkOneOCRAMessage(c, k) })
			case "fmt":
				return replayAs(raw, func(k fmtCase) {
					hooks.Install(&hooks.Config{Digest: fakeDigest})
					defer hooks.Remove()
					judgeFmt(c, k)
				})
			}
			return fmt.Errorf("unknown kind %q", kind)
		},
	})
}

// recutInputs: inputs whose selected fields, written one after the other WITHOUT padding, give the same byte string
// as base but cut at other places: the challenge takes j more (or fewer) bytes and the session correspondingly fewer
// (or more), the fixed-width fields between and around them (counter, password, timestamp) keep their widths and take
// the bytes that now fall into their places. RFC 6287 pads the challenge and the session to 128 bytes each, so these are
// different messages with different codes - but anything that identifies "the same input" by the unpadded
// concatenation (a memo key without separators or lengths) confuses them.
func recutInputs(s ref.Suite, base ref.Input) []ref.Input {
	if !s.Q || !s.S {
		return nil
	}
	var w []byte
	if s.C {
		w = append(w, base.Counter...)
	}
	w = append(w, base.Challenge...)
	if s.P {
		w = append(w, base.Password...)
	}
	w = append(w, base.Session...)
	if s.T {
		w = append(w, base.Timestamp...)
	}
	min := 8
	switch s.Challenge {
	case ref.QN10, ref.QA10, ref.QH10:
		min = 10
	}
	k, m := len(base.Challenge), len(base.Session)
	var out []ref.Input
	// the same byte strings sitting in other fields: challenge and session exchanged (inadmissible when the session is
	// shorter than the challenge format's minimum - then generation and validation must both fail), counter and
	// timestamp exchanged, both exchanges at once
	{
		x := base
		x.Challenge, x.Session = base.Session, base.Challenge
		out = append(out, x)
		if s.C && s.T && string(base.Counter) != string(base.Timestamp) {
			y := base
			y.Counter, y.Timestamp = base.Timestamp, base.Counter
			out = append(out, y)
			x.Counter, x.Timestamp = base.Timestamp, base.Counter
			out = append(out, x)
		}
	}
	for _, k2 := range []int{min, min + 1, k - 1, k + 1, k - 8, k + 8, k + m, k + m - 1, (k + m) / 2, 128} {
		m2 := k + m - k2
		if k2 < min || k2 > 128 || m2 < 0 || m2 > 128 || k2 == k {
			continue
		}
		var in ref.Input
		pos := 0
		take := func(n int) []byte { b := append([]byte{}, w[pos:pos+n]...); pos += n; return b }
		if s.C {
			in.Counter = take(8)
		}
		in.Challenge = take(k2)
		if s.P {
			in.Password = take(len(base.Password))
		}
		in.Session = take(m2)
		if s.T {
			in.Timestamp = take(8)
		}
		out = append(out, in)
	}
	return out
}

var recutSuites = []string{"OCRA-1:HOTP-SHA1-6:QN08-S", "OCRA-1:HOTP-SHA1-6:QN08-S-T1M", "OCRA-1:HOTP-SHA256-8:C-QA10-PSHA1-S064", "OCRA-1:HOTP-SHA512-10:QH10-PSHA256-S-T2H", "OCRA-1:HOTP-SHA256-7:C-QN08-S128", "OCRA-1:HOTP-SHA1-8:C-QN08-S-T30S", "OCRA-1:HOTP-SHA512-9:C-QA08-PSHA512-S256-T1H"}

// c05RecutHistory: one goroutine, one secret and suite; base input, a re-cut of it, the base again (recutInputs).
func c05RecutHistory(c *Ctx) {
	rng := c.RNG.Fork(513)
	for rep := 0; rep < c.N(4, 40); rep++ {
		for i, name := range recutSuites {
			m, ok := ref.ParseSuiteName(name)
			if !ok {
				continue
			}
			key := rng.Bytes(20)
			base := admissibleInput(rng, m, 5+6*5) // lengths drawn at random inside the admissible range
			base.Challenge = rng.Bytes(12 + rng.Intn(60))
			base.Session = rng.Bytes(1 + rng.Intn(60))
			call := func(in ref.Input) {
				judgeOCRA(c, ocraCase{KeyHex: hexs(key), Secret: ref.Base32EncodeNoPad(key), Via: []string{viaRaw, viaNewSuite}[(i+rep)%2], Suite: func() ref.Suite {
					if (i+rep)%2 == 0 {
						return ref.Suite{Raw: name}
					}
					return m
				}(), Input: inputToJ(in), Note: "re-cut history"})
				c.R.Count("recut_history_calls", 1)
			}
			for _, v := range recutInputs(m, base) {
				call(base)
				call(v)
			}
			call(base)
		}
	}
}


// c05ReusedBuffers: one goroutine, one secret and suite, and ONE set of caller-owned field buffers used for every call:
// between two calls the caller overwrites the contents in place (same addresses, same lengths, other bytes), as a
// server does that decodes every request into the same arena. Each result is compared with the reference code of the
// bytes the buffers hold at the time of the call. Whatever recognises "the same input" by where it lives answers with
// an earlier call's code.
func c05ReusedBuffers(c *Ctx, validate bool) {
	r := c.R
	rng := c.RNG.Fork(514)
	names := append([]string{"OCRA-1:HOTP-SHA1-6:QN08", "OCRA-1:HOTP-SHA256-8:C-QH10", "OCRA-1:HOTP-SHA512-8:QN08-T1M"}, recutSuites...)
	for rep := 0; rep < c.N(3, 30); rep++ {
		for _, name := range names {
			m, ok := ref.ParseSuiteName(name)
			if !ok {
				continue
			}
			suite, err, pan := makeSuite(viaRaw, ref.Suite{Raw: name})
			if err != nil || pan != nil || suite == nil {
				continue
			}
			key := rng.Bytes(20)
			secret := ref.Base32EncodeNoPad(key)
			cur := admissibleInput(rng, m, 35)
			oin := toOCRAInput(cur) // these slices are the caller's arena for the whole history
			prev := ""
			for step := 0; step < 7; step++ {
				if step > 0 {
					for _, f := range [][]byte{oin.Counter, oin.Challenge, oin.Password, oin.SessionInfo, oin.Timestamp} {
						if step%3 == 1 && len(f) > 1 {
							f[rng.Intn(len(f))] ^= byte(1 + rng.Intn(255)) // one byte changed
						} else {
							copy(f, rng.Bytes(len(f)))
						}
					}
				}
				now := ref.Input{Counter: append([]byte(nil), oin.Counter...), Challenge: append([]byte(nil), oin.Challenge...), Password: append([]byte(nil), oin.Password...), Session: append([]byte(nil), oin.SessionInfo...), Timestamp: append([]byte(nil), oin.Timestamp...)}
				if cur.Session == nil {
					now.Session = nil
				}
				want := ref.OCRA(key, m, now)
				k := ocraCase{KeyHex: hexs(key), Secret: secret, Via: viaRaw, Suite: ref.Suite{Raw: name}, Input: inputToJ(now), Note: fmt.Sprintf("caller-owned buffers rewritten in place, call %d of the history", step+1)}
				r.Eval(1)
				r.Nontrivial("reuse|" + mustJSON(k))
				r.Count("reused_buffer_history_calls", 1)
				if !validate {
					code, gerr, gpan := callGenerateOCRA(secret, suite, oin)
					if gpan != nil || gerr != nil || code != want {
						r.Violate("C05|GenerateOCRA|wrong-code|"+viaRaw+",buffers rewritten in place", "GenerateOCRA differs from the RFC 6287 value of the bytes its arguments hold now (the same buffers held other bytes in the previous call)", "ocra", k, want, fmt.Sprintf("%q err=%v panic=%v", code, gerr, gpan))
					}
					continue
				}
				ok1, err1, pan1 := callValidateOCRA(secret, want, suite, oin)
				if pan1 != nil || !ok1 || err1 != nil {
					r.Violate("C06|ValidateOCRA|rejects-generated-code|buffers rewritten in place", "ValidateOCRA rejects the code of the bytes its arguments hold now (the same buffers held other bytes in the previous call)", "ocrav", ocraVCase{Base: k, Submitted: hexAll([]string{want})}, "(true, nil)", fmt.Sprintf("(%v, %v) panic=%v", ok1, err1, pan1))
				}
				if prev != "" && prev != want {
					ok2, err2, pan2 := callValidateOCRA(secret, prev, suite, oin)
					if pan2 != nil || ok2 || err2 == nil {
						r.Violate("C06|ValidateOCRA|accepts-other-string|buffers rewritten in place", "ValidateOCRA accepts the code of the bytes the same buffers held in the previous call", "ocrav", ocraVCase{Base: k, Submitted: hexAll([]string{prev})}, "(false, error)", fmt.Sprintf("(%v, %v) panic=%v", ok2, err2, pan2))
					}
				}
				prev = want
			}
		}
	}
}
