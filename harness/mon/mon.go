// Package mon is the verdict / evidence / replay / known-finding plumbing shared
// by all property monitors.
package mon

import (
	"encoding/json"
	"fmt"
	"hash/fnv"
	"os"
	"path/filepath"
	"runtime"
	"sort"
	"strings"
	"sync"
	"sync/atomic"
	"time"
)

// Violation is one refuting observation.
type Violation struct {
	Property string `json:"property"`
	// Signature identifies the defect for the known-findings file:
	// <property>|<operation>|<defect class>|<minimal distinguishing input>
	Signature string `json:"signature"`
	What      string `json:"what"`
	// Case is everything needed to re-execute the observation (replayed by Kind).
	Kind string          `json:"kind"`
	Case json.RawMessage `json:"case"`
	// Expected / Observed are for the human reader.
	Expected string `json:"expected,omitempty"`
	Observed string `json:"observed,omitempty"`
	Seed     int64  `json:"seed"`
	Tier     string `json:"tier"`
}

type Finding struct {
	Status    string `json:"status"` // "finding" | "fixed"
	Property  string `json:"property"`
	Signature string `json:"signature"` // exact signature, or a prefix ending in '*'
	What      string `json:"what"`
	Commit    string `json:"commit,omitempty"`
}

type Run struct {
	Prop  string
	Tier  string
	Seed  int64
	Level string
	Root  string // /verif

	start time.Time

	evals           atomic.Int64
	distinctDropped atomic.Int64
	sampleTick      atomic.Int64

	mu          sync.Mutex
	shards      [64]shard
	samples     []any
	sampleCap   int
	viol        []Violation
	violCount   int
	violSigs    map[string]int
	inconcl     []string
	Rule        string
	Assumptions []string
	Extra       map[string]any
	Exhaustive  bool
	counters    map[string]*atomic.Int64
	replayMode  bool
}

type shard struct {
	mu sync.Mutex
	m  map[uint64]struct{}
}

func NewRun(prop, tier string, seed int64, root string) *Run {
	r := &Run{Prop: prop, Tier: tier, Seed: seed, Level: "exploration", Root: root, start: time.Now(),
		sampleCap: 16, violSigs: map[string]int{}, Extra: map[string]any{}, counters: map[string]*atomic.Int64{}}
	for i := range r.shards {
		r.shards[i].m = map[uint64]struct{}{}
	}
	return r
}

func (r *Run) SetReplayMode() { r.replayMode = true }

// Eval counts executions of the real code judged by an oracle.
func (r *Run) Eval(n int) { r.evals.Add(int64(n)) }

func (r *Run) Evals() int64 { return r.evals.Load() }

// Nontrivial records one distinct non-trivial case (by the property's stated rule).
func (r *Run) Nontrivial(key string) {
	h := fnv.New64a()
	h.Write([]byte(key))
	v := h.Sum64()
	s := &r.shards[v%64]
	s.mu.Lock()
	if len(s.m) < shardCap {
		s.m[v] = struct{}{}
	} else if _, ok := s.m[v]; !ok {
		r.distinctDropped.Add(1)
	}
	s.mu.Unlock()
}

// shardCap bounds the memory of the distinct-case set (64 shards): beyond 16M distinct keys the
// count reported is a lower bound and the evidence says so.
const shardCap = 250000

func (r *Run) distinct() int {
	n := 0
	for i := range r.shards {
		r.shards[i].mu.Lock()
		n += len(r.shards[i].m)
		r.shards[i].mu.Unlock()
	}
	return n
}

// Count bumps a named observation counter reported under coverage.observed.
func (r *Run) Count(name string, n int) {
	r.mu.Lock()
	c := r.counters[name]
	if c == nil {
		c = new(atomic.Int64)
		r.counters[name] = c
	}
	r.mu.Unlock()
	c.Add(int64(n))
}

func (r *Run) Counter(name string) int64 {
	r.mu.Lock()
	defer r.mu.Unlock()
	if c := r.counters[name]; c != nil {
		return c.Load()
	}
	return 0
}

// Sample keeps a few literal cases for the evidence file.
func (r *Run) Sample(v any) {
	r.mu.Lock()
	if len(r.samples) < r.sampleCap {
		r.samples = append(r.samples, v)
	}
	r.mu.Unlock()
}

// WantSample reports whether the caller should build and submit a sample now:
// true on the 1st, 3rd, 9th, 27th, ... call, so samples spread over the workload.
func (r *Run) WantSample() bool {
	n := r.sampleTick.Add(1)
	for n%3 == 0 {
		n /= 3
	}
	if n != 1 {
		return false
	}
	r.mu.Lock()
	defer r.mu.Unlock()
	return len(r.samples) < r.sampleCap
}

func (r *Run) Inconclusive(what string) {
	r.mu.Lock()
	for _, s := range r.inconcl {
		if s == what {
			r.mu.Unlock()
			return
		}
	}
	r.inconcl = append(r.inconcl, what)
	r.mu.Unlock()
}

// Violate records a violation. kind+c must be replayable by the property's Replay.
func (r *Run) Violate(sig, what, kind string, c any, expected, observed string) {
	raw, _ := json.Marshal(c)
	r.mu.Lock()
	defer r.mu.Unlock()
	r.violCount++
	r.violSigs[sig]++
	if r.violSigs[sig] > 3 || len(r.viol) >= 3000 {
		return // keep a few witnesses per signature
	}
	r.viol = append(r.viol, Violation{Property: r.Prop, Signature: sig, What: what, Kind: kind, Case: raw,
		Expected: clip(expected), Observed: clip(observed), Seed: r.Seed, Tier: r.Tier})
}

func clip(s string) string {
	if len(s) > 600 {
		return s[:600] + fmt.Sprintf("…(%d bytes)", len(s))
	}
	return s
}

func (r *Run) ViolationCount() int {
	r.mu.Lock()
	defer r.mu.Unlock()
	return r.violCount
}

func loadFindings(root string) []Finding {
	var fs []Finding
	b, err := os.ReadFile(filepath.Join(root, "known_findings.json"))
	if err != nil {
		return nil
	}
	var doc struct {
		Findings []Finding `json:"findings"`
	}
	if json.Unmarshal(b, &doc) != nil {
		return nil
	}
	for _, f := range doc.Findings {
		fs = append(fs, f)
	}
	return fs
}

func matchFinding(fs []Finding, v Violation) *Finding {
	for i := range fs {
		f := &fs[i]
		if f.Status != "finding" || f.Property != v.Property {
			continue
		}
		if f.Signature == v.Signature {
			return f
		}
		if strings.HasSuffix(f.Signature, "*") && strings.HasPrefix(v.Signature, strings.TrimSuffix(f.Signature, "*")) {
			return f
		}
	}
	return nil
}

// Finish writes the evidence file and replay files, prints the verdict lines and
// returns the process exit code: 0 held, 1 violated, 2 inconclusive (machinery).
func (r *Run) Finish() int {
	wall := time.Since(r.start).Seconds()
	fs := loadFindings(r.Root)
	r.mu.Lock()
	viol := append([]Violation(nil), r.viol...)
	violCount := r.violCount
	sigs := map[string]int{}
	for k, v := range r.violSigs {
		sigs[k] = v
	}
	inconcl := append([]string(nil), r.inconcl...)
	samples := append([]any(nil), r.samples...)
	r.mu.Unlock()

	known := map[string]*Finding{}
	var fresh []Violation
	knownCount := 0
	for _, v := range viol {
		if f := matchFinding(fs, v); f != nil {
			known[f.Signature] = f
			knownCount++
			continue
		}
		fresh = append(fresh, v)
	}
	// violations beyond the stored witnesses share signatures with stored ones.
	freshSigs := map[string]bool{}
	for _, v := range fresh {
		freshSigs[v.Signature] = true
	}

	evals := r.evals.Load()
	distinct := r.distinct()
	code := 0

	if !r.replayMode {
		cov := map[string]any{
			"evaluations":         evals,
			"distinct_nontrivial": distinct,
			"rule":                r.Rule,
			"samples":             samples,
			"inconclusive":        inconcl,
		}
		if r.Exhaustive {
			cov["exhaustive"] = true
		}
		if d := r.distinctDropped.Load(); d > 0 {
			cov["distinct_nontrivial_is_lower_bound"] = fmt.Sprintf("the distinct-case set is capped at 16M keys; %d further non-trivial cases were judged but not added to the count", d)
		}
		obs := map[string]int64{}
		r.mu.Lock()
		for k, c := range r.counters {
			obs[k] = c.Load()
		}
		for k, v := range r.Extra {
			cov[k] = v
		}
		r.mu.Unlock()
		cov["observed"] = obs
		if len(sigs) > 0 {
			cov["violation_signatures"] = sigs
		}
		ev := map[string]any{
			"property_id": r.Prop, "tier": r.Tier, "seed": r.Seed, "level": r.Level,
			"coverage": cov, "assumptions": r.Assumptions, "wall_s": wall, "violations": len(freshSigs),
		}
		if r.Assumptions == nil {
			ev["assumptions"] = []string{}
		}
		if inconcl == nil {
			cov["inconclusive"] = []string{}
		}
		b, _ := json.MarshalIndent(ev, "", " ")
		os.MkdirAll(filepath.Join(r.Root, "evidence"), 0o755)
		if err := os.WriteFile(filepath.Join(r.Root, "evidence", r.Prop+".json"), append(b, '\n'), 0o644); err != nil {
			fmt.Printf("INCONCLUSIVE property=%s cannot write evidence: %v\n", r.Prop, err)
			return 2
		}
	}

	keys := make([]string, 0, len(known))
	for k := range known {
		keys = append(keys, k)
	}
	sort.Strings(keys)
	for _, k := range keys {
		fmt.Printf("KNOWN-FINDING: property=%s %s\n", r.Prop, known[k].What)
	}
	if len(fresh) > 0 {
		os.MkdirAll(filepath.Join(r.Root, "replays"), 0o755)
		seen := map[string]bool{}
		n := 0
		for _, v := range fresh {
			if seen[v.Signature] {
				continue
			}
			seen[v.Signature] = true
			n++
			p := filepath.Join(r.Root, "replays", fmt.Sprintf("%s-%d-%d.json", r.Prop, r.Seed, n))
			b, _ := json.MarshalIndent(v, "", " ")
			if r.replayMode {
				p = "(replayed)"
			} else {
				os.WriteFile(p, append(b, '\n'), 0o644)
			}
			fmt.Printf("VIOLATION property=%s replay=%s\n", r.Prop, p)
			fmt.Printf("  signature: %s\n  what: %s\n  expected: %s\n  observed: %s\n", v.Signature, v.What, v.Expected, v.Observed)
			if n >= 20 {
				break
			}
		}
		code = 1
	}
	for _, s := range inconcl {
		fmt.Printf("NOTE property=%s inconclusive sub-check: %s\n", r.Prop, s)
	}
	if mp := takeMonPanics(); len(mp) > 0 {
		for _, p := range mp {
			fmt.Printf("NOTE property=%s a monitor goroutine panicked outside a guarded library call: %s\n", r.Prop, p)
		}
		if code == 0 {
			fmt.Printf("INCONCLUSIVE property=%s %d monitor goroutine panic(s) outside guarded library calls and no violation observed\n", r.Prop, len(mp))
			return 2
		}
	}
	if code == 0 && !r.replayMode && (evals == 0 || distinct < 2) {
		fmt.Printf("INCONCLUSIVE property=%s the deciding oracle observed too little (evaluations=%d distinct=%d)\n", r.Prop, evals, distinct)
		return 2
	}
	verdict := "HELD"
	if code == 1 {
		verdict = "VIOLATED"
	}
	fmt.Printf("%s property=%s tier=%s seed=%d evaluations=%d distinct_nontrivial=%d violations=%d known=%d inconclusive=%d wall=%.1fs\n",
		verdict, r.Prop, r.Tier, r.Seed, evals, distinct, violCount-knownCount, knownCount, len(inconcl), wall)
	return code
}

// ParallelFor runs fn(i) for i in [0,n) on w workers.
func ParallelFor(n, w int, fn func(i int)) {
	if w < 1 {
		w = 1
	}
	var next atomic.Int64
	var wg sync.WaitGroup
	for k := 0; k < w; k++ {
		wg.Add(1)
		go func() {
			defer wg.Done()
			for {
				i := int(next.Add(1) - 1)
				if i >= n {
					return
				}
				guarded(fn, i)
			}
		}()
	}
	wg.Wait()
}

// a panic in a monitor goroutine outside a guarded library call (for instance the standard library failing on a
// value the library returned) must not take the other workers' observations down with it: it is recorded, the
// remaining cases are still judged, and Finish turns it into INCONCLUSIVE unless a violation was observed.
var (
	monPanicMu sync.Mutex
	monPanics  []string
)

func guarded(fn func(int), i int) {
	defer func() {
		if x := recover(); x != nil {
			buf := make([]byte, 4096)
			buf = buf[:runtime.Stack(buf, false)]
			monPanicMu.Lock()
			if len(monPanics) < 8 {
				monPanics = append(monPanics, fmt.Sprintf("%v\n%s", x, buf))
			}
			monPanicMu.Unlock()
		}
	}()
	fn(i)
}

func takeMonPanics() []string {
	monPanicMu.Lock()
	defer monPanicMu.Unlock()
	p := monPanics
	monPanics = nil
	return p
}

// Catch runs f and reports a panic as (value, stack-free string).
func Catch(f func()) (p any) {
	defer func() {
		if x := recover(); x != nil {
			p = x
		}
	}()
	f()
	return nil
}

func ErrStr(err error) string {
	if err == nil {
		return "<nil>"
	}
	return err.Error()
}

// ---- child-process reports: a child run serialises its observations, the parent merges them ----

type ChildReport struct {
	Evals      int64            `json:"evals"`
	Distinct   []uint64         `json:"distinct"`
	Samples    []any            `json:"samples"`
	Violations []Violation      `json:"violations"`
	ViolCount  int              `json:"viol_count"`
	ViolSigs   map[string]int   `json:"viol_sigs"`
	Inconcl    []string         `json:"inconclusive"`
	Counters   map[string]int64 `json:"counters"`
	Extra      map[string]any   `json:"extra"`
}

func (r *Run) Export() ChildReport {
	rep := ChildReport{Evals: r.evals.Load(), Counters: map[string]int64{}, ViolSigs: map[string]int{}}
	for i := range r.shards {
		r.shards[i].mu.Lock()
		for k := range r.shards[i].m {
			rep.Distinct = append(rep.Distinct, k)
		}
		r.shards[i].mu.Unlock()
	}
	r.mu.Lock()
	defer r.mu.Unlock()
	rep.Samples = r.samples
	rep.Violations = r.viol
	rep.ViolCount = r.violCount
	for k, v := range r.violSigs {
		rep.ViolSigs[k] = v
	}
	rep.Inconcl = r.inconcl
	for k, c := range r.counters {
		rep.Counters[k] = c.Load()
	}
	rep.Extra = r.Extra
	return rep
}

func (r *Run) Merge(rep ChildReport) {
	r.evals.Add(rep.Evals)
	for _, v := range rep.Distinct {
		s := &r.shards[v%64]
		s.mu.Lock()
		s.m[v] = struct{}{}
		s.mu.Unlock()
	}
	for k, v := range rep.Counters {
		r.Count(k, int(v))
	}
	for _, s := range rep.Inconcl {
		r.Inconclusive(s)
	}
	r.mu.Lock()
	defer r.mu.Unlock()
	for _, s := range rep.Samples {
		if len(r.samples) < r.sampleCap+8 {
			r.samples = append(r.samples, s)
		}
	}
	r.violCount += rep.ViolCount
	for k, v := range rep.ViolSigs {
		r.violSigs[k] += v
	}
	for _, v := range rep.Violations {
		if len(r.viol) < 3000 {
			r.viol = append(r.viol, v)
		}
	}
	for k, v := range rep.Extra {
		if _, ok := r.Extra[k]; !ok {
			r.Extra[k] = v
		}
	}
}
