//go:build !verif

package hooks

import (
	"hash"
	"sync"

	"github.com/ja7ad/otp"
)

func Available() bool { return false }

func Slots() int { return 0 }

func Factory(a int) func([]byte) hash.Hash { return nil }

func SetFactory(a int, f func([]byte) hash.Hash) {}

func BufPools() (*sync.Pool, *sync.Pool) { return nil, nil }

func KnownSuites() map[string]otp.SuiteConfig { return nil }
