//go:build verif

// Package hooks wraps the verif-tagged accessors of the library. With the tag
// off (or if the accessors no longer compile) the stub reports Available()==false
// and every hook-based sub-check becomes an "inconclusive" evidence entry.
package hooks

import (
	"hash"
	"sync"

	"github.com/ja7ad/otp"
)

func Available() bool { return true }

func Slots() int { return otp.VerifHMACFactories() }

func Factory(a int) func([]byte) hash.Hash { return otp.VerifHMACFactory(otp.Algorithm(a)) }

func SetFactory(a int, f func([]byte) hash.Hash) { otp.VerifSetHMACFactory(otp.Algorithm(a), f) }

func BufPools() (*sync.Pool, *sync.Pool) { return otp.VerifBufPools() }

func KnownSuites() map[string]otp.SuiteConfig { return otp.VerifKnownSuites() }
