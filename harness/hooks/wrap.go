package hooks

import (
	"hash"
	"runtime"
	"sync"
	"sync/atomic"
	"time"
)

// Event is one HMAC computation seen by a wrapper: the key given to the
// constructor and the concatenation of everything written up to Sum.
type Event struct {
	Algo int
	Key  []byte
	Msg  []byte
}

// Wrapper modes (combinable).
type Config struct {
	Record   func(Event)                       // called at Sum with copies of key and message
	Yield    func()                            // called inside Write and Sum (between pool Get and Put)
	Digest   func(algo int, key []byte) []byte // when non-nil and returning non-nil: Sum returns this digest instead
	MaxCalls int64                             // >0: panic with ErrCutoff when more constructor calls than this happen (reset with ResetCalls)
}

type cutoff struct{}

// Cutoff is the sentinel panic value used to stop a runaway derivation loop.
var Cutoff = cutoff{}

var (
	mu       sync.Mutex
	saved    []func([]byte) hash.Hash
	calls    atomic.Int64
	inflight atomic.Int64
)

// Calls returns the number of HMAC constructions since the last ResetCalls.
func Calls() int64 { return calls.Load() }
func ResetCalls()  { calls.Store(0) }

type wrapped struct {
	inner hash.Hash
	cfg   *Config
	algo  int
	key   []byte
	msg   []byte
}

func (w *wrapped) Write(p []byte) (int, error) {
	if w.cfg.Yield != nil {
		w.cfg.Yield()
	}
	if w.cfg.Record != nil {
		w.msg = append(w.msg, p...)
	}
	n, err := w.inner.Write(p)
	if w.cfg.Yield != nil {
		w.cfg.Yield()
	}
	return n, err
}
func (w *wrapped) Sum(b []byte) []byte {
	if w.cfg.Yield != nil {
		w.cfg.Yield()
	}
	if w.cfg.Record != nil {
		w.cfg.Record(Event{Algo: w.algo, Key: w.key, Msg: append([]byte(nil), w.msg...)})
	}
	if w.cfg.Digest != nil {
		if d := w.cfg.Digest(w.algo, w.key); d != nil {
			return append(b, d...)
		}
	}
	return w.inner.Sum(b)
}
func (w *wrapped) Reset()         { w.inner.Reset(); w.msg = w.msg[:0] }
func (w *wrapped) Size() int      { return w.inner.Size() }
func (w *wrapped) BlockSize() int { return w.inner.BlockSize() }

// Install wraps every constructor slot. It returns false when hooks are not
// available. Must be called before workload goroutines start; Remove after they join.
func Install(cfg *Config) bool {
	if !Available() {
		return false
	}
	mu.Lock()
	defer mu.Unlock()
	if saved != nil {
		panic("hooks: Install while installed")
	}
	n := Slots()
	saved = make([]func([]byte) hash.Hash, n)
	for a := 0; a < n; a++ {
		orig := Factory(a)
		saved[a] = orig
		algo := a
		SetFactory(a, func(key []byte) hash.Hash {
			c := calls.Add(1)
			if cfg.MaxCalls > 0 && c > cfg.MaxCalls {
				panic(Cutoff)
			}
			w := &wrapped{inner: orig(key), cfg: cfg, algo: algo}
			if cfg.Record != nil || cfg.Digest != nil {
				w.key = append([]byte(nil), key...)
			}
			return w
		})
	}
	calls.Store(0)
	return true
}

func Remove() {
	mu.Lock()
	defer mu.Unlock()
	for a, f := range saved {
		SetFactory(a, f)
	}
	saved = nil
}

// YieldFn returns a yield function: Gosched always, plus an occasional short sleep.
func YieldFn(sleepEvery uint64, d time.Duration) func() {
	var n atomic.Uint64
	return func() {
		runtime.Gosched()
		if sleepEvery > 0 && n.Add(1)%sleepEvery == 0 {
			time.Sleep(d)
		}
	}
}
