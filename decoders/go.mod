module verifdec

go 1.24

require (
	github.com/andybalholm/brotli v1.1.1
	github.com/klauspost/compress v1.18.0
)
