// decode <br|zstd>: reads one compressed stream on stdin and writes the decoded bytes to stdout; exit 1 if the stream
// does not decode. Optional helper of C19's documentation-asset monitor: it is built from the two decoders the REST
// module itself depends on (present in the module cache for that reason); when it cannot be built, responses in these
// two encodings are counted but not judged.
package main

import (
	"fmt"
	"io"
	"os"

	"github.com/andybalholm/brotli"
	"github.com/klauspost/compress/zstd"
)

func main() {
	if len(os.Args) != 2 {
		fmt.Fprintln(os.Stderr, "usage: decode <br|zstd>")
		os.Exit(2)
	}
	var rd io.Reader
	switch os.Args[1] {
	case "br":
		rd = brotli.NewReader(os.Stdin)
	case "zstd":
		d, err := zstd.NewReader(os.Stdin)
		if err != nil {
			fmt.Fprintln(os.Stderr, err)
			os.Exit(1)
		}
		defer d.Close()
		rd = d
	default:
		os.Exit(2)
	}
	if _, err := io.Copy(os.Stdout, rd); err != nil {
		fmt.Fprintln(os.Stderr, err)
		os.Exit(1)
	}
}
