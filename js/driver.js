// Node driver for C20: loads the scratch copy of otp-js (freshly built otp.wasm + the repo's index.js),
// executes a JSON case list through globalThis.<fn> and through the object index.js resolves to,
// and writes the results to a file (stdout/stderr are polluted by the module's own logging).
// usage: node driver.js <otp-js dir> <cases.json> <results.json>
const fs = require("fs");
const path = require("path");
const [dir, casesPath, outPath] = process.argv.slice(2);

function toArg(a) {
  switch (a.t) {
    case "s": return a.s === undefined ? "" : a.s;
    case "n": return a.n === undefined ? 0 : a.n;
    case "b": return !!a.b;
    case "null": return null;
    case "o": return {};
    case "a": return [];
    case "nan": return NaN;
    case "inf": return Infinity;
    case "ninf": return -Infinity;
    case "bigint": return BigInt(a.s || "1");
    case "sym": return Symbol("s");
    case "fn": return function () { return 1; };
    case "date": return new Date(0);
    case "u8": return new Uint8Array(4);
    case "strobj": return new String(a.s || "6");
    case "numobj": return new Number(a.n === undefined ? 1 : a.n);
    default: return undefined;
  }
}
function enc(v) {
  if (typeof v === "string") return { t: "s", s: v };
  if (typeof v === "boolean") return { t: "b", b: v };
  return { t: "other", s: String(v) };
}
function call(f, args) {
  if (typeof f !== "function") return { t: "missing" };
  try { return enc(f.apply(undefined, args)); } catch (e) { return { t: "thrown", thrown: String(e && e.message || e) }; }
}
const realLog = console.log;
console.log = () => {}; // index.js prints a banner
console.warn = () => {}; // wasm_exec.js warns once per spin when it has lost a timeout event
(async () => {
  let exportsObj;
  const indexPath = path.join(dir, "src", "index.js");
  // a fresh instance of the module (used at start, and again whenever a call has killed the Go program, so that the
  // cases after the fatal one are still judged on their own)
  async function load() {
    for (const k of Object.keys(require.cache)) if (k.startsWith(path.join(dir, "src"))) delete require.cache[k];
    for (const n of ["generateHOTP", "validateHOTP", "generateTOTP", "validateTOTP", "generateOTPURL"]) delete globalThis[n];
    return await require(indexPath)();
  }
  let reloads = 0;
  try {
    exportsObj = await load();
  } catch (e) {
    fs.writeFileSync(outPath, JSON.stringify({ fatal: "module did not initialise: " + String(e && e.message || e) }));
    process.exit(3);
  }
  const cases = JSON.parse(fs.readFileSync(casesPath, "utf8"));
  const out = [];
  // "reinit" mode: the package's entry function is called again on the SAME module instance (as two parts of one
  // application would), before the first case and every 997 cases; the exported object is then alternately the newest
  // one and the very first one
  const reinit = process.argv[5] === "reinit";
  let firstObj = exportsObj, inits = 1, n = 0;
  async function again() {
    try { exportsObj = await require(indexPath)(); inits++; } catch (e) { /* the cases report what follows */ }
    // the cases below run without ever yielding: give the event loop 300 ms first, so that whatever the entry function
    // has left pending (a program still being compiled and started, timers) happens before the calls, not after them
    await new Promise((r) => setTimeout(r, 300));
  }
  // ... and once right after a call that made the first Go program's heap grow (1 MiB string arguments), followed by
  // two seconds in which the event loop runs: whatever the earlier program has scheduled must not disturb the later one
  const pause = (ms) => new Promise((r) => setTimeout(r, ms));
  if (reinit) {
    call(globalThis.generateOTPURL, ["totp", "iss", "a".repeat(1 << 20), "GEZDGNBVGY3TQOJQGEZDGNBVGY3TQOJQ", "6", "SHA1"]);
    call(globalThis.generateHOTP, ["A".repeat(1 << 20), 1, "6", "SHA1"]);
    await again();
    await pause(2000);
    await again();
    // ... and once more after a pause longer than the package's own start-up deadline (5 s): timers the earlier starts
    // have left behind have all fired by then
    await pause(5300);
    await again();
  }
  // heartbeat for the watchdog: the number of cases done, rewritten every 200 cases (the watchdog judges a stall by
  // this number standing still, never by the length of the whole run)
  let done = 0;
  const beat = () => { try { fs.writeFileSync(outPath + ".progress", String(done)); } catch (e) { /* ignore */ } };
  beat();
  for (const c of cases) {
    if (++done % 200 === 0) beat();
    if (reinit && ++n % 997 === 0) await again();
    const args = (c.args || []).map(toArg);
    const g = call(globalThis[c.fn], args);
    const x = call((reinit && c.id % 2 ? firstObj : exportsObj)[c.fn], args);
    out.push({ id: c.id, global: g, exported: x });
    const dead = (r) => r.t === "thrown" && /already exited/.test(r.thrown || "");
    if ((dead(g) || dead(x)) && reloads < 200) {
      try { exportsObj = await load(); firstObj = exportsObj; reloads++; if (reinit) await again(); } catch (e) { /* keep the dead instance: later cases report it */ }
    }
  }
  fs.writeFileSync(outPath, JSON.stringify({ exported_names: Object.keys(exportsObj), results: out, module_reloads: reloads, entry_function_calls: inits }));
  process.exit(0);
})();
